"""Shared correspondence run for the typed-channel properties (M_base / M_mpsc):
real base, lr, mpsc, oneshot and bin channels over a real connection (`harness/src/bin/base.rs`),
piped through the `base` model driver (`lean/Driver/Base.lean`).

C04 uses `run_typed(ctx, "c04", ...)`; the C11 plugin calls `run_c11_typed(ctx)` for the typed-channel
part of "close and drop reach the other half, correctly classified, losing no sent data"."""
import glob, hashlib, os, re

VERIF = os.path.dirname(os.path.dirname(os.path.abspath(__file__)))


def _split_cases(trace_path):
    """{case name: (spec lines, trace lines)} in file order."""
    cases, order = {}, []
    spec, body, name = [], [], None
    with open(trace_path, errors="replace") as f:
        for line in f:
            if line.startswith("spec "):
                if line.startswith("spec case "):
                    spec, body = [], []
                    name = line.split()[2]
                    order.append(name)
                    cases[name] = (spec, body)
                spec.append(line[5:])
            elif name is not None:
                body.append(line)
    return cases, order


def _canon(body):
    """hash of the observable behaviour of a case without the random payload bytes"""
    out = []
    for l in body:
        if l.startswith(("send ", "recv ", "handle ", "state ", "rclose", "rdrop", "connfail", "txdrop")):
            out.append(re.sub(r" data=\S+", "", l))
    return hashlib.sha1("".join(out).encode()).hexdigest()


def _signature(pred, msg):
    msg = re.sub(r"\(res=[^)]*\)", "", msg)
    return ("%s %s" % (pred, re.sub(r"[0-9a-f]{6,}|\d+", "#", msg)))[:170]


def run_typed(ctx, pred, jobs, replay=None, nontrivial_rule=None):
    """jobs: list of (name, harness args, seed).  Returns the coverage dict (also records violations)."""
    if replay:
        jobs = [("replay", ["run", replay], None)]
    total, nontrivial, hashes, samples = 0, 0, set(), []
    stats = {"cases": 0, "skipped": 0, "replay_ok": 0, "replay_diff": 0, "replay_skipped": 0, "pred_fail": 0,
             "sends": 0, "values": 0, "failed_sends": 0, "streamed": 0, "cancelled": 0, "with_halves": 0,
             "recv_errors": 0, "fail_then_deliver": 0, "variant_pinned_only": 0, "variant_fixed_only": 0,
             "close_links": 0, "close_links_replayed_on_M_close": 0, "dropped_sending_handles": 0,
             "sends_refused_as_Closed_after_drop_or_connection_failure_F_TC_1": 0}
    kinds = {}
    fails, diffs = [], []
    for name, args, seed in jobs:
        rc, err, trace = ctx.harness("base", args, out_path=os.path.join(ctx.workdir, "%s-%s.trace" % (pred, name)), seed=seed,
                                     timeout=1500)
        for k, v in ctx.stat_lines(err).items():
            kinds["gen_" + k] = kinds.get("gen_" + k, 0) + (v if isinstance(v, int) else 0)
        if rc not in (0, 3):
            ctx.violation("base harness crashed: " + err[-300:], "base-harness-crash", err[-4000:], name="base-crash.txt", no_input=True)
            continue
        drc, lines = ctx.driver("base", trace)
        if drc != 0 or not any(l.startswith("DONE") for l in lines):
            ctx.violation("base driver failed", "base-driver-failure", "\n".join(lines[-30:]), no_input=True)
            continue
        cases, _ = _split_cases(trace)
        per_case = {}
        for l in lines:
            if l.startswith(("FAIL ", "DIFF ")):
                per_case.setdefault(l.split()[1], []).append(l)
        for l in lines:
            if not l.startswith("END "):
                continue
            w = l.split()
            cname = w[1]
            m = dict(x.split("=", 1) for x in w[2:] if "=" in x)
            if m.get("skipped"):
                stats["skipped"] += 1
                continue
            if pred == "c11" and m.get("event") == "none":
                continue
            total += 1
            stats["cases"] += 1
            key = "kind_%s%s" % (m.get("kind"), "" if m.get("event") in (None, "none") else "_" + m.get("event"))
            kinds[key] = kinds.get(key, 0) + 1
            for a, b in (("sends", "sends"), ("values", "values"), ("failed", "failed_sends"), ("streamed", "streamed"),
                         ("cancelled", "cancelled"), ("halves", "with_halves"), ("recverrs", "recv_errors"),
                         ("failthendeliver", "fail_then_deliver"), ("closelinks", "close_links"),
                         ("closereplayed", "close_links_replayed_on_M_close"), ("droppedhandles", "dropped_sending_handles"),
                         ("closedaftergone", "sends_refused_as_Closed_after_drop_or_connection_failure_F_TC_1")):
                stats[b] += int(m.get(a, 0))
            rp = m.get("replay")
            stats["replay_ok" if rp == "ok" else ("replay_diff" if rp == "diff" else "replay_skipped")] += 1
            if m.get("variant") == "pinned":
                stats["variant_pinned_only"] += 1
            if m.get("variant") == "fixed":
                stats["variant_fixed_only"] += 1
            spec, body = cases.get(cname, ([], []))
            interesting = (int(m.get("failthendeliver", 0)) > 0 or int(m.get("recverrs", 0)) > 0
                           or m.get("event") not in (None, "none"))
            if nontrivial_rule:
                interesting = nontrivial_rule(m)
            if interesting:
                h = _canon(body)
                if h not in hashes:
                    hashes.add(h)
                    nontrivial += 1
                    if len(samples) < 3 and name not in ("fixed", "corpus"):
                        samples.append({"case": cname, "spec": [x.strip() for x in spec][:14]})
            det = per_case.get(cname, [])
            pf = [d for d in det if d.startswith("FAIL %s %s " % (cname, pred))]
            df = [d for d in det if d.startswith("DIFF ")]
            if m.get(pred) == "fail" or pf:
                stats["pred_fail"] += 1
                fails.append((cname, pf, spec, body, det))
            elif df:
                diffs.append((cname, df, spec, body))
    for cname, pf, spec, body, det in fails:
        for d in pf[:3]:
            msg = d.split(" ", 3)[3] if len(d.split(" ", 3)) > 3 else d
            ctx.violation("%s fails on the real run %s: %s" % (pred, cname, msg), _signature(pred, msg),
                          "# property predicate %s failed on a real run of the typed-channel harness\n"
                          "# replay: ./check %s --replay <this file>   (or harness/target/debug/base run <this file> | lean/.lake/build/bin/base)\n"
                          "# %s\n%s# --- driver output ---\n# %s\n# --- trace ---\n# %s"
                          % (pred, ctx.prop, msg, "".join(spec), "\n# ".join(det), "# ".join(body)))
    if diffs and not fails:
        cname, df, spec, body = diffs[0]
        ctx.violation("the real typed channels no longer behave like M_base / M_mpsc on %d case(s) (first: %s: %s) but the %s "
                      "predicate holds on every real run explored" % (len(diffs), cname, df[0][:200], pred),
                      "replay-mismatch M_base",
                      "# correspondence M_base <-> rch::base / mpsc broken (the theorems are about the model; the code no longer matches it)\n"
                      "# no input was found on which the property predicate itself fails\n%s# --- driver output ---\n# %s\n# --- trace ---\n# %s"
                      % ("".join(spec), "\n# ".join(df), "# ".join(body)), name="correspondence-M_base.txt", no_input=True)
    stats.update(kinds)
    cov = {"evaluations": total, "distinct_nontrivial": nontrivial, "traces_validated_against_impl": total,
           "samples": samples, "input_distribution": stats}
    return cov


def corpus_files(prop):
    return sorted(glob.glob(os.path.join(VERIF, "corpus", prop, "*.spec")))


def c04_jobs(ctx):
    quick = ctx.tier == "quick"
    jobs = [("fixed", ["fixed"], None)]
    files = corpus_files("C04")
    if files:
        jobs.append(("corpus", ["run"] + files, None))
    parts = 4 if quick else 16
    n = 1200 if quick else 24000
    for i in range(parts):
        jobs.append(("typed%d" % i, ["gen", "typed", n // parts], ctx.seed * 1000 + i))
    return jobs


def c11_jobs(ctx):
    quick = ctx.tier == "quick"
    jobs = []
    files = corpus_files("C11")
    files = [f for f in files if f.endswith(".spec")]
    if files:
        jobs.append(("corpus", ["run"] + files, None))
    jobs.append(("sweep", ["c11sweep"], None))
    parts = 3 if quick else 12
    n = 360 if quick else 12000
    for i in range(parts):
        jobs.append(("c11-%d" % i, ["gen", "c11", n // parts], ctx.seed * 1000 + 700 + i))
    return jobs


C11_TYPED_RULE = ("typed channels (base, lr, mpsc with 1-3 senders on both endpoints, oneshot, bin) over a real connection; a systematic sweep "
                  "(every kind x close / receiver dropped / senders dropped / connection cut x every position 0..5 of a five-item stream with "
                  "one streamed item) plus generated cases: the "
                  "receiver closes / is dropped / the connection is cut after a generated number of results, or all senders are dropped "
                  "after a generated number of sends; checked on the real results: every item sent successfully is delivered when the "
                  "receiver keeps receiving (close, all senders dropped => end-of-stream only after all data), sends after the sender "
                  "learnt of the condition fail, is_closed / closed_reason / closed() / error kinds classify the condition, mpsc values "
                  "accepted but not transmitted form a suffix with Dropped handles; every such case counts as non-trivial, distinct = "
                  "distinct sequence of results. Queued channels (mpsc, oneshot) in addition, with the decidable functions of M_close "
                  "(RemocModel/Base/CloseReplay.lean): per link the Sending results in acceptance order satisfy suffixOk and none is "
                  "pending; the values delivered from a link are, in order, a prefix of those with an Ok handle and all of them at a "
                  "clean end-of-stream (deliveredOk); without a close no end-of-stream is delivered before every sender was dropped "
                  "(later senders linger); and every link without item failures is replayed on M_close's step function along the "
                  "schedule reconstructed from the run (n values accepted, the first k transmitted, then the event and the step by "
                  "which send_impl learns of it, then the receiver drains): handle results, closed_reason()/is_closed() of every "
                  "sender clone on the link and of local clones, delivered values and clean end-of-stream must coincide (DIFF); a run "
                  "that drops more values than the local queue holds cannot be followed by the model. oneshot: close/drop before the "
                  "send and right after it")


def run_c11_typed(ctx, replay=None):
    """Typed-channel supplement of C11; to be called from the C11 plugin (needs HARNESS_BINS += ['base'],
    LEAN_EXES += ['base']).  Records violations under predicate name `c11`; returns the coverage dict."""
    return run_typed(ctx, "c11", c11_jobs(ctx), replay)
