"""Shared correspondence run for the remote-trait-call properties C12 and C19 (M_rtc):
corpus scripts + generated exact-mode (one stimulus per quiescent point, hand-driven gates) and
free-mode (bursts of concurrent calls, yield_now suspension points) scripts against the real
`#[rtc::remote]` machinery, piped through the `rtc` model driver (acceptor on M_rtc + property
predicates on the real history)."""
import glob, hashlib, os, re

ROOT = os.path.dirname(os.path.dirname(os.path.abspath(__file__)))


def split_cases(path):
    """trace file -> {case name: [lines]}"""
    cases, cur, buf = {}, None, []
    with open(path) as f:
        for line in f:
            if line.startswith("case "):
                if cur is not None:
                    cases[cur] = buf
                cur, buf = line.split()[1], [line]
            elif cur is not None:
                buf.append(line)
    if cur is not None:
        cases[cur] = buf
    return cases


def script_of(lines):
    """the replayable script of a case: header + stimuli"""
    out = []
    for l in lines:
        if l.startswith("case "):
            out.append(l)
        elif l.startswith("op "):
            out.append(l[3:])
    return "".join(out)


def features(lines):
    """measured properties of one real run (for the coverage rule)"""
    active, overlap, values, errors, abandons, drops, kills, segs = set(), 0, 0, 0, 0, 0, 0, 0
    for l in lines:
        w = l.split()
        if len(w) < 2 or w[0] != "ev":
            if l.startswith("op kill"):
                kills += 1
            continue
        if w[1] == "inv":
            active.add(w[2])
            overlap = max(overlap, len(active))
        elif w[1] == "ret":
            active.discard(w[2])
            if w[3] == "ok":
                values += 1
            else:
                errors += 1
        elif w[1] == "abandon":
            active.discard(w[2])
            abandons += 1
        elif w[1] == "drop":
            drops += 1
        elif w[1] == "seg":
            segs += 1
    return {"overlap": overlap, "values": values, "errors": errors, "abandons": abandons, "drops": drops,
            "kills": kills, "segs": segs}


def run_rtc(ctx, prop, replay=None):
    """prop: 'c12' or 'c19'"""
    quick = ctx.tier == "quick"
    jobs = []
    if replay:
        jobs.append(("replay", ["run", replay], None))
    else:
        files = []
        for d in ("C12", "C19"):
            files += sorted(glob.glob(os.path.join(ROOT, "corpus", d, "*.ops")))
        if files:
            jobs.append(("corpus", ["run"] + files, None))
        n_exact = 1600 if quick else 60000
        n_free = 1600 if quick else 60000
        parts = 2 if quick else 16
        for i in range(parts):
            jobs.append(("exact%d" % i, ["gen", "rtc-exact", n_exact // parts], ctx.seed * 1000 + i))
            jobs.append(("free%d" % i, ["gen", "rtc-free", n_free // parts], ctx.seed * 1000 + 500 + i))
    total, nontrivial, hashes, samples = 0, 0, set(), []
    stats = {"accept_ok": 0, "accept_mismatch": 0, "pred_fail_cases": 0}
    gen_stats = {}
    fails, mismatches = [], []
    variant_used = {}
    for name, args, seed in jobs:
        rc, err, trace = ctx.harness("rtc", args, out_path=os.path.join(ctx.workdir, "%s-%s.trace" % (prop, name)), seed=seed)
        if rc != 0 and "LIVELOCK" in err:
            case = err.split("LIVELOCK", 1)[1].split("\n", 1)[1] if "\n" in err.split("LIVELOCK", 1)[1] else ""
            case = "\n".join(l for l in case.split("\n") if not l.startswith("STAT "))
            ctx.violation("c19 fails on a real run: the process never becomes quiescent (a task keeps running without making "
                          "progress, e.g. a serve loop spinning on the same receive error)", "c19 livelock",
                          "# the rtc harness made no progress for 40 s of real time while running this case; replay: harness/target/debug/rtc run <this file>\n" + case)
            continue
        if rc != 0:
            ctx.violation("rtc harness crashed: " + err[-300:], "rtc-harness-crash", err[-4000:], name="rtc-crash.txt", no_input=True)
            continue
        for k, v in ctx.stat_lines(err).items():
            gen_stats[k] = gen_stats.get(k, 0) + v
        # the tree carries the repair of finding F6 (a reply error is recorded, serve keeps serving): replay against
        # M_rtc Variant.fixed; the behaviour of Variant.pinned (serve stops) is a regression
        rc, lines = ctx.driver("rtc", trace, args=["fixed"])
        if rc != 0:
            ctx.violation("rtc driver failed", "rtc-driver-failure", "\n".join(lines[-30:]), no_input=True)
            continue
        variant_used["fixed"] = variant_used.get("fixed", 0) + 1
        cases = split_cases(trace)
        detail = {}
        for line in lines:
            if line.startswith(("DIFF ", "FAIL ")):
                detail.setdefault(line.split()[1], []).append(line)
        for line in lines:
            if not line.startswith("END "):
                continue
            m = re.match(r"END (\S+) events=(\d+) accept=(\w+) c12=(\w+) c19=(\w+) calls=(\d+)(.*)", line)
            if not m:
                continue
            cname, accept = m.group(1), m.group(3)
            res = {"c12": m.group(4), "c19": m.group(5)}
            total += 1
            for kv in m.group(7).split():
                k, _, v = kv.partition("=")
                if v.isdigit():
                    stats[k] = stats.get(k, 0) + int(v)
            stats["accept_ok" if accept == "ok" else "accept_mismatch"] += 1
            cl = cases.get(cname, [])
            ft = features(cl)
            # stimuli in order + observed results as a set (the order in which independent callers
            # notice a lost connection is not deterministic)
            canon = "".join(l for l in cl if l.startswith(("case ", "op "))) + \
                "".join(sorted(l for l in cl if l.startswith(("ev ret", "ev drop", "ev served"))))
            canon = re.sub(r"^case \S+", "case", canon)
            h = hashlib.sha1(canon.encode()).hexdigest()
            if prop == "c12":
                interesting = ft["overlap"] >= 2 and ft["values"] >= 1 and ft["segs"] >= 2
            else:
                interesting = ft["abandons"] + ft["drops"] + ft["errors"] + ft["kills"] >= 1
            if interesting and h not in hashes:
                hashes.add(h)
                nontrivial += 1
                if len(samples) < 3 and name != "corpus" and nontrivial % 37 == 1:
                    samples.append({"case": cname, "script": script_of(cl).split("\n")[:40]})
            if res[prop] != "ok":
                stats["pred_fail_cases"] += 1
                fails.append((cname, [d for d in detail.get(cname, []) if d.startswith("FAIL") and (" %s " % prop) in d], cl))
            elif accept != "ok":
                mismatches.append((cname, detail.get(cname, []), cl))
    # verdicts: every distinct failure class once (known findings are filtered by ctx.violation)
    n_before = len(ctx.violations)
    for cname, det, cl in fails:
        for d in det:
            what = re.sub(r"line=\d+ ", "", d.split(" ", 3)[3] if len(d.split(" ", 3)) > 3 else d)
            sig = "%s %s" % (prop, re.sub(r"\(\d+,\d+\)|\d+", "#", what.split(" (init ")[0]))[:200]
            ctx.violation("%s fails on the real run %s: %s" % (prop, cname, what), sig,
                          "# property predicate %s failed on a real run of the #[rtc::remote] machinery\n"
                          "# %s\n# replay: ./check %s --replay <this file>\n%s# --- driver output ---\n# %s\n# --- full trace ---\n# %s"
                          % (prop, what, prop.upper(), script_of(cl), "\n# ".join(det), "# ".join(cl)))
    if mismatches and len(ctx.violations) == n_before:
        cname, det, cl = mismatches[0]
        ctx.violation("the real rtc servers/clients no longer behave like M_rtc on %d case(s) (first: %s) but the %s predicate "
                      "holds on every real run explored" % (len(mismatches), cname, prop), "rtc-accept-mismatch",
                      "# correspondence M_rtc <-> #[rtc::remote] / rtc::send_reply broken: the theorems of %s are about the model,\n"
                      "# the code no longer matches it; no input was found on which the property predicate itself fails\n%s"
                      "# --- driver output ---\n# %s\n# --- full trace ---\n# %s"
                      % (prop.upper(), script_of(cl), "\n# ".join(det), "# ".join(cl)),
                      name="correspondence-M_rtc.txt", no_input=True)
    gen_stats.update({"driver_" + k: v for k, v in stats.items()})
    if variant_used:
        ctx.notes.append("runs accepted by M_rtc Variant.fixed (reply errors no longer stop serve: F6 repaired in this tree)")
    ctx.coverage.update({
        "evaluations": total,
        "distinct_nontrivial": nontrivial,
        "traces_validated_against_impl": total,
        "samples": samples,
        "input_distribution": gen_stats,
    })
