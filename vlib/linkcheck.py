"""Shared correspondence run for the port-level properties C01 C02 C03 (M_link):
corpus scripts + generated exact-mode and burst-mode scripts on two real chmux endpoints,
piped through the `link` model driver."""
import glob, hashlib, os, re

PRED = {"C01": "c01", "C02": "c02", "C03": "c03", "C11": "c11"}


def run_link(ctx, replay=None, corpus_dirs=("C01", "C03")):
    prop = ctx.prop
    pred = PRED[prop]
    quick = ctx.tier == "quick"
    jobs = []
    if replay:
        jobs.append(("replay", ["run", replay], None))
    else:
        files = []
        for d in corpus_dirs:
            files += sorted(glob.glob(os.path.join(os.path.dirname(os.path.dirname(os.path.abspath(__file__))), "corpus", d, "*.ops")))
        if files:
            jobs.append(("corpus", ["run"] + files, None))
        n_exact = 3000 if quick else 60000
        n_burst = 2000 if quick else 40000
        # split into several processes' worth of seeds
        parts = 4 if quick else 16
        for i in range(parts):
            if prop == "C11":
                jobs.append(("close%d" % i, ["gen", "link-close", (n_exact + n_burst) // parts], ctx.seed * 1000 + 600 + i))
                jobs.append(("forward%d" % i, ["gen", "link-forward", (n_exact + n_burst) // parts // 5], ctx.seed * 1000 + 650 + i))
                # the forwarder at chunk granularity: stepped scripts replayed exactly against M_forward, and
                # monitor scripts with chunk streams cancelled between any two polls
                jobs.append(("fwdexact%d" % i, ["gen", "link-fwdexact", 120 if quick else 600], ctx.seed * 1000 + 660 + i))
                jobs.append(("fwdchunks%d" % i, ["gen", "link-fwdchunks", 150 if quick else 1500], ctx.seed * 1000 + 670 + i))
                if i == 0:
                    jobs.append(("closecancel", ["gen", "link-closecancel", 120 if quick else 4000], ctx.seed * 1000 + 680))
                continue
            jobs.append(("exact%d" % i, ["gen", "link-exact", n_exact // parts], ctx.seed * 1000 + i))
            jobs.append(("burst%d" % i, ["gen", "link-burst", n_burst // parts], ctx.seed * 1000 + 500 + i))
            if i == 0:
                jobs.append(("close%d" % i, ["gen", "link-close", (n_exact // parts) // 2], ctx.seed * 1000 + 600 + i))
                jobs.append(("forward%d" % i, ["gen", "link-forward", (n_exact // parts) // 4], ctx.seed * 1000 + 650 + i))
    total_traces, nontrivial, hashes, samples = 0, 0, set(), []
    stats = {"closes": 0, "receiver_drops": 0, "sender_drops": 0, "closed_send_errors": 0, "eos_seen": 0, "replay_ok": 0, "replay_mismatch": 0, "pred_fail": 0, "multi_frame_msgs": 0, "cancels": 0, "chunk_streams": 0,
             "port_batches": 0, "trysends": 0, "credit_frames": 0,
             "forwarders": 0, "forward_ok": 0, "forward_err": 0, "forwarder_exact_replays": 0,
             "forwarder_upstream_cancels": 0}
    mismatches, fails = [], []
    for name, args, seed in jobs:
        rc, err, trace = ctx.harness("mux", args, out_path=os.path.join(ctx.workdir, "%s.trace" % name), seed=seed)
        if rc != 0:
            ctx.violation("mux harness crashed: " + err[-300:], "mux-harness-crash", err[-4000:], name="mux-crash.txt", no_input=True)
            continue
        rc, lines = ctx.driver("link", trace)
        if rc != 0:
            ctx.violation("link driver failed", "link-driver-failure", "\n".join(lines[-30:]), no_input=True)
            continue
        # index the trace by trace name for replays and coverage accounting
        cur, buf, traces = None, [], {}
        with open(trace) as f:
            for line in f:
                if line.startswith("trace "):
                    if cur is not None:
                        traces[cur] = buf
                    cur, buf = line.split()[1], []
                else:
                    buf.append(line)
        if cur is not None:
            traces[cur] = buf
        for tname, tl in traces.items():
            total_traces += 1
            body = "".join(l for l in tl if not l.startswith(("port ", "ret c", "ret a")))
            # canonical hash: port numbers are random, so hash only ops and API results
            canon = "".join(l for l in tl if l.startswith(("op ", "ret s", "ret r", "cancelled")))
            h = hashlib.sha1(canon.encode()).hexdigest()
            data_frames = sum(1 for l in tl if l.startswith("tx ") and len(l.split()) > 2 and l.split()[2].startswith("07"))
            sends = sum(1 for l in tl if l.startswith(("op send", "op chunks", "op trysend")))
            multi = data_frames > sends
            canc = any(l.startswith("cancelled s") for l in tl)
            if multi:
                stats["multi_frame_msgs"] += 1
            if canc:
                stats["cancels"] += 1
            stats["closes"] += sum(1 for l in tl if l.startswith("op close"))
            stats["receiver_drops"] += sum(1 for l in tl if re.match(r"op drop \w \w+ rx", l))
            stats["sender_drops"] += sum(1 for l in tl if re.match(r"op drop \w \w+ tx", l))
            stats["closed_send_errors"] += sum(1 for l in tl if re.match(r"ret s\d+ err closed", l))
            stats["eos_seen"] += sum(1 for l in tl if re.match(r"ret r\d+\.0 none", l))
            closeish = any(l.startswith(("op close", "op drop")) for l in tl)
            stats["chunk_streams"] += sum(1 for l in tl if l.startswith("op chunks"))
            stats["port_batches"] += sum(1 for l in tl if l.startswith("op pconnect"))
            stats["trysends"] += sum(1 for l in tl if l.startswith("op trysend"))
            nfw = sum(1 for l in tl if l.startswith("op forward"))
            if nfw:
                stats["forwarders"] += nfw
                stats["forward_ok"] += sum(1 for l in tl if re.match(r"ret f ok", l))
                stats["forward_err"] += sum(1 for l in tl if re.match(r"ret f err", l))
                if any(l.startswith("op mode exact") for l in tl):
                    stats["forwarder_exact_replays"] += 1
                stats["forwarder_upstream_cancels"] += sum(1 for l in tl if l.startswith("cancelled s") or re.match(r"ret s\d+ dropped", l))
            stats["credit_frames"] += sum(1 for l in tl if l.startswith("tx ") and len(l.split()) > 2 and l.split()[2].startswith("09"))
            if h not in hashes and (multi or canc or (prop == "C11" and closeish)):
                hashes.add(h)
                nontrivial += 1
                if len(samples) < 3 and name != "corpus":
                    samples.append({"trace": tname, "script": [l.strip()[3:] for l in tl if l.startswith("op ")][:40]})
        for line in lines:
            if line.startswith("END "):
                m = re.match(r"END (\S+) events=(\d+) replay=(\w+) c01=(\w+) c02=(\w+) c03=(\w+) c11=(\w+)", line)
                if not m:
                    continue
                tname, replay_res = m.group(1), m.group(3)
                res = {"c01": m.group(4), "c02": m.group(5), "c03": m.group(6), "c11": m.group(7)}
                stats["replay_ok" if replay_res == "ok" else "replay_mismatch"] += 1
                detail = [l for l in lines if l.startswith(("DIFF %s " % tname, "FAIL %s " % tname))]
                if res[pred] != "ok":
                    stats["pred_fail"] += 1
                    fails.append((tname, detail, traces.get(tname, [])))
                elif replay_res != "ok":
                    mismatches.append((tname, detail, traces.get(tname, [])))
    # verdicts
    for tname, detail, tl in fails[:5]:
        first = next((d for d in detail if d.startswith("FAIL") and (" %s " % pred) in d), detail[0] if detail else "")
        what = re.sub(r"line=\d+ ", "", first.split(" ", 3)[3] if len(first.split(" ", 3)) > 3 else first)
        # signature: the kind of failure without concrete numbers/ids
        sig = "%s %s" % (pred, re.sub(r"[0-9a-f]{4,}|\d+", "#", what))[:160]
        script = [l[3:] for l in tl if l.startswith("op ")]
        ctx.violation("%s fails on the real trace %s: %s" % (pred, tname, what), sig,
                      "# property predicate %s failed on a real run; replay with: ./check %s --replay <this file>\n"
                      "# %s\n%s\n# --- driver output ---\n# %s\n# --- full trace ---\n# %s" %
                      (pred, prop, what, "".join(script), "\n# ".join(detail), "# ".join(tl)))
    if mismatches and not fails:
        tname, detail, tl = mismatches[0]
        script = [l[3:] for l in tl if l.startswith("op ")]
        ctx.violation("the real endpoints no longer behave like M_link on %d trace(s) (first: %s) but the %s predicate "
                      "holds on every real trace explored" % (len(mismatches), tname, pred),
                      "replay-mismatch",
                      "# correspondence M_link <-> chmux broken (theorems of %s are about the model; the code no longer matches it)\n"
                      "# no input was found on which the property predicate itself fails\n%s\n# --- driver output ---\n# %s\n"
                      % (prop, "".join(script), "\n# ".join(detail)), name="correspondence-M_link.txt", no_input=True)
    ctx.coverage.update({
        "evaluations": total_traces,
        "distinct_nontrivial": nontrivial,
        "traces_validated_against_impl": total_traces,
        "samples": samples,
        "input_distribution": stats,
    })
