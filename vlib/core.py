"""Common machinery of ./check: proof obligations (Lean build, axiom audit, source scan),
harness build, model-driver plumbing, verdicts, known findings, evidence."""
import fcntl, hashlib, json, os, re, subprocess, sys, time

VERIF = os.path.dirname(os.path.dirname(os.path.abspath(__file__)))
LEAN = os.path.join(VERIF, "lean")
HARNESS = os.path.join(VERIF, "harness")
REPLAYS = os.path.join(VERIF, "replays")
EVIDENCE = os.path.join(VERIF, "evidence")
KNOWN = os.path.join(VERIF, "known_findings.json")
ALLOWED_AXIOMS = {"propext", "Classical.choice", "Quot.sound"}
FORBIDDEN = re.compile(r"\bsorry\b|\badmit\b|^\s*axiom\s|native_decide|bv_decide|implemented_by|\bunsafe\s|maxHeartbeats\s+0|\bextern\b")

ENV = dict(os.environ, CARGO_NET_OFFLINE="true")


def sh(cmd, cwd=None, timeout=None, stdin_path=None, env=None):
    """Run a command, return (rc, stdout, stderr)."""
    stdin = open(stdin_path, "rb") if stdin_path else subprocess.DEVNULL
    try:
        p = subprocess.run(cmd, cwd=cwd, stdin=stdin, stdout=subprocess.PIPE, stderr=subprocess.PIPE,
                           timeout=timeout, env=env or ENV)
        return p.returncode, p.stdout.decode("utf-8", "replace"), p.stderr.decode("utf-8", "replace")
    except subprocess.TimeoutExpired as e:
        return 124, (e.stdout or b"").decode("utf-8", "replace"), "TIMEOUT " + (e.stderr or b"").decode("utf-8", "replace")
    finally:
        if stdin_path:
            stdin.close()


class Lock:
    """File lock so that concurrent checks do not run lake / cargo on the same build directory at once."""
    def __init__(self, name):
        self.path = os.path.join(VERIF, ".locks", name)
        os.makedirs(os.path.dirname(self.path), exist_ok=True)
    def __enter__(self):
        self.f = open(self.path, "w")
        fcntl.flock(self.f, fcntl.LOCK_EX)
    def __exit__(self, *a):
        fcntl.flock(self.f, fcntl.LOCK_UN)
        self.f.close()


def strip_lean_comments(src):
    """Remove /- -/ (nested) and -- comments, and string literals, from Lean source."""
    out, i, depth, n = [], 0, 0, len(src)
    while i < n:
        if src.startswith("/-", i):
            depth += 1; i += 2; continue
        if depth > 0:
            if src.startswith("-/", i):
                depth -= 1; i += 2
            else:
                if src[i] == "\n":
                    out.append("\n")
                i += 1
            continue
        if src.startswith("--", i):
            while i < n and src[i] != "\n":
                i += 1
            continue
        if src[i] == '"':
            i += 1
            while i < n and src[i] != '"':
                i += 2 if src[i] == "\\" else 1
            i += 1
            out.append('""')
            continue
        out.append(src[i]); i += 1
    return "".join(out)


class Ctx:
    def __init__(self, prop, tier, seed, mod):
        self.prop, self.tier, self.seed, self.mod = prop, tier, seed, mod
        self.t0 = time.time()
        self.violations = []     # dicts: {replay, what, signature, no_input}
        self.known_hits = []
        self.notes = []
        self.coverage = {}
        self.obligations = []    # (name, ok, detail)
        self.workdir = os.path.join(VERIF, ".work", prop)
        os.makedirs(self.workdir, exist_ok=True)
        os.makedirs(REPLAYS, exist_ok=True)
        os.makedirs(EVIDENCE, exist_ok=True)
        try:
            self.known = json.load(open(KNOWN))
        except FileNotFoundError:
            self.known = {"findings": [], "fixed": []}

    # ---------------------------------------------------------------- logging
    def log(self, *a):
        print("[%s %6.1fs]" % (self.prop, time.time() - self.t0), *a, flush=True)

    # ---------------------------------------------------------------- Lean side
    def lean_build(self, targets):
        with Lock("lake"):
            rc, out, err = sh(["lake", "build"] + list(targets), cwd=LEAN, timeout=3000)
        if rc != 0:
            self.log("lake build failed:\n" + (out + err)[-4000:])
        return rc == 0, out + err

    def lean_scan(self):
        """Scan the model and proof sources for forbidden constructs (outside comments/strings)."""
        hits = []
        for root, _, files in os.walk(os.path.join(LEAN, "RemocModel")):
            for f in files:
                if f.endswith(".lean"):
                    p = os.path.join(root, f)
                    code = strip_lean_comments(open(p).read())
                    for ln, line in enumerate(code.split("\n"), 1):
                        if FORBIDDEN.search(line):
                            hits.append("%s:%d: %s" % (os.path.relpath(p, VERIF), ln, line.strip()))
        return hits

    def lean_audit(self, module, theorems):
        """`#print axioms` for every property theorem; returns {thm: (ok, axioms|error)}."""
        d = os.path.join(LEAN, ".audit")
        os.makedirs(d, exist_ok=True)
        path = os.path.join(d, "%s.lean" % self.prop)
        with open(path, "w") as f:
            f.write("import %s\n" % module)
            for t in theorems:
                f.write("#print axioms %s\n" % t)
        rc, out, err = sh(["lake", "env", "lean", path], cwd=LEAN, timeout=1200)
        text = out + err
        res = {}
        for t in theorems:
            m = re.search(r"'%s' depends on axioms: \[([^\]]*)\]" % re.escape(t), text, re.S)
            if m:
                ax = {a.strip() for a in m.group(1).replace("\n", " ").split(",") if a.strip()}
                res[t] = (ax <= ALLOWED_AXIOMS, sorted(ax))
            elif re.search(r"'%s' does not depend on any axioms" % re.escape(t), text):
                res[t] = (True, [])
            else:
                res[t] = (False, "not found / error: " + text[-300:].replace("\n", " "))
        return res

    def proof_obligations(self):
        """Build the property's theorem module, scan sources, audit axioms.  Returns True iff all discharged."""
        mod = self.mod
        module = getattr(mod, "LEAN_MODULE", "RemocModel.Props.%s" % self.prop)
        targets = [module] + list(getattr(mod, "LEAN_EXES", []))
        ok, text = self.lean_build(targets)
        theorems = list(mod.THEOREMS)
        if not ok:
            for t in theorems:
                self.obligations.append((t, False, "lake build failed"))
            self.build_log = text
            return False
        hits = self.lean_scan()
        if hits:
            self.obligations.append(("source-scan", False, "; ".join(hits[:5])))
        else:
            self.obligations.append(("source-scan: no sorry/admit/axiom/native_decide/bv_decide/implemented_by/unsafe", True, ""))
        res = self.lean_audit(module, theorems)
        for t in theorems:
            okt, ax = res[t]
            self.obligations.append((t, okt, ax))
        if self.tier == "thorough":
            rc, out, err = sh(["lake", "env", "leanchecker", module], cwd=LEAN, timeout=3000)
            self.obligations.append(("leanchecker " + module, rc == 0, (out + err)[-300:]))
        return all(o[1] for o in self.obligations)

    def driver(self, exe, trace_path, args=(), timeout=3000):
        """Pipe a trace file through a compiled model driver; returns output lines."""
        binp = os.path.join(LEAN, ".lake", "build", "bin", exe)
        rc, out, err = sh([binp] + list(args), stdin_path=trace_path, timeout=timeout)
        if rc != 0:
            self.log("driver %s rc=%d: %s" % (exe, rc, err[-500:]))
        return rc, out.split("\n")

    # ---------------------------------------------------------------- Rust side
    def cargo_build(self, bins):
        with Lock("cargo"):
            cmd = ["cargo", "build", "--offline"]
            for b in bins:
                cmd += ["--bin", b]
            rc, out, err = sh(cmd, cwd=HARNESS, timeout=3000)
        if rc != 0:
            self.log("cargo build failed:\n" + err[-4000:])
            self.cargo_log = err
        return rc == 0

    def harness(self, binname, args=(), out_path=None, seed=None, timeout=None, env_extra=None):
        """Run a harness binary; stdout goes to out_path; returns (rc, stderr).  A harness that does not finish within
        the time limit (quick: 10 min, thorough: 50 min) counts as crashed (rc 124), which the plugins report."""
        if timeout is None:
            timeout = 600 if self.tier == "quick" else 3000
        binp = os.path.join(HARNESS, "target", "debug", binname)
        env = dict(ENV, VERIF_SEED=str(self.seed if seed is None else seed), VERIF_TIER=self.tier)
        if env_extra:
            env.update(env_extra)
        out_path = out_path or os.path.join(self.workdir, "%s.trace" % binname)
        with open(out_path, "wb") as f:
            try:
                p = subprocess.run([binp] + [str(a) for a in args], stdout=f, stderr=subprocess.PIPE,
                                   env=env, timeout=timeout)
                rc, err = p.returncode, p.stderr.decode("utf-8", "replace")
            except subprocess.TimeoutExpired as e:
                rc, err = 124, "TIMEOUT " + (e.stderr or b"").decode("utf-8", "replace")
        return rc, err, out_path

    # ---------------------------------------------------------------- verdicts
    def write_replay(self, name, content):
        path = os.path.join(REPLAYS, "%s-%s" % (self.prop, name))
        with open(path, "w") as f:
            f.write(content)
        return path

    def violation(self, what, signature, replay_text, name=None, no_input=False):
        """Record a violation.  `signature` identifies the failing input/call site/history class;
        a listed known finding with a matching signature turns it into KNOWN-FINDING."""
        for kf in self.known.get("findings", []):
            if kf["property"] == self.prop and re.search(kf["signature"], signature):
                if kf["id"] not in [k["id"] for k in self.known_hits]:
                    self.known_hits.append(kf)
                return
        if any(v["signature"] == signature for v in self.violations):
            return
        if name is None:
            name = hashlib.sha1(signature.encode()).hexdigest()[:10] + ".txt"
        path = self.write_replay(name, replay_text)
        self.violations.append({"what": what, "signature": signature, "replay": path, "no_input": no_input})

    def stat_lines(self, stderr):
        d = {}
        for line in stderr.split("\n"):
            if line.startswith("STAT "):
                _, k, v = line.split(" ", 2)
                try:
                    d[k] = d.get(k, 0) + int(v)
                except ValueError:
                    d[k] = v
        return d

    # ---------------------------------------------------------------- finish
    def finish(self):
        wall = time.time() - self.t0
        n_obl = len(self.obligations)
        n_ok = sum(1 for o in self.obligations if o[1])
        mod = self.mod
        cov = dict(self.coverage)
        cov.setdefault("evaluations", 0)
        cov.setdefault("distinct_nontrivial", 0)
        cov.setdefault("rule", getattr(mod, "RULE", ""))
        cov.setdefault("samples", [])
        cov["obligations"] = n_obl
        cov["discharged"] = n_ok
        cov["obligation_list"] = [{"name": o[0], "ok": o[1], "axioms_or_detail": o[2]} for o in self.obligations]
        cov["checker_cmd"] = ("cd /verif/lean && lake build %s && lake env lean .audit/%s.lean  (#print axioms per theorem%s)"
                              % (getattr(mod, "LEAN_MODULE", "RemocModel.Props.%s" % self.prop), self.prop,
                                 "; lake env leanchecker" if self.tier == "thorough" else ""))
        cov["trusted_base"] = list(getattr(mod, "TRUSTED_BASE", [])) + [
            "Lean 4.33.0 kernel; axioms per theorem as listed in obligation_list (subset of propext, Classical.choice, Quot.sound)",
            "hand-written Lean model <-> Rust code tie is differential (harness + model driver), bounded by the generators described in 'rule'",
        ]
        cov["known_findings_hit"] = [k["id"] for k in self.known_hits]
        ev = {
            "property_id": self.prop, "tier": self.tier, "seed": self.seed, "level": "proof",
            "coverage": cov, "assumptions": list(getattr(mod, "ASSUMPTIONS", [])),
            "wall_s": round(wall, 2), "violations": len(self.violations),
        }
        if self.notes:
            ev["coverage"]["notes"] = self.notes
        with open(os.path.join(EVIDENCE, "%s.json" % self.prop), "w") as f:
            json.dump(ev, f, indent=1)
        for kf in self.known_hits:
            print("KNOWN-FINDING: property=%s %s" % (self.prop, kf["what"]))
        for v in self.violations:
            print("VIOLATION property=%s replay=%s%s" % (self.prop, v["replay"], " no-failing-input-found" if v["no_input"] else ""))
            self.log("  ", v["what"])
        self.log("obligations %d/%d, evaluations %s, distinct_nontrivial %s, violations %d, known %d, %.1fs"
                 % (n_ok, n_obl, cov.get("evaluations"), cov.get("distinct_nontrivial"), len(self.violations), len(self.known_hits), wall))
        return 1 if self.violations else 0


def run_property(prop, tier, seed, replay=None):
    import importlib
    mod = importlib.import_module("vlib.props.%s" % prop)
    ctx = Ctx(prop, tier, seed, mod)
    proofs_ok = ctx.proof_obligations()
    built = ctx.cargo_build(mod.HARNESS_BINS) if getattr(mod, "HARNESS_BINS", None) else True
    found_input = False
    if built:
        before = len(ctx.violations)
        mod.run(ctx, replay)
        found_input = len(ctx.violations) > before or bool(ctx.known_hits)
    else:
        ctx.violation("correspondence harness does not build against the current tree", "harness-build",
                      "The harness (bins %s) no longer compiles against /repo's working tree, so the correspondence between "
                      "the Lean model and the code cannot be checked.\n\n%s" % (mod.HARNESS_BINS, getattr(ctx, "cargo_log", "")[-6000:]),
                      name="harness-build.txt", no_input=True)
    if not proofs_ok and not found_input:
        failed = [o for o in ctx.obligations if not o[1]]
        ctx.violation("proof obligation no longer checks", "proof:" + ",".join(o[0] for o in failed),
                      "Proof obligations that no longer check:\n" + "\n".join("%s: %s" % (o[0], o[2]) for o in failed)
                      + "\n\n" + getattr(ctx, "build_log", "")[-6000:],
                      name="proof-obligations.txt", no_input=True)
    return ctx.finish()
