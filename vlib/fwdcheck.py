"""Forwarded port requests (`chmux::forward`, `Received::Requests`) on two real chmux endpoints:
`mux gen link-fwdports` scripts piped through the `link` model driver; predicate c05
(`forward_requests_paired` on the real frames and API results: ids preserved in order, every origin
connect resolves as the request with its id was answered, data sent into a half comes out of the other
half with the same id)."""
import hashlib, os, re

MARK = "# forwarder port-request script"


def _split(trace):
    cur, buf, traces = None, [], {}
    with open(trace) as f:
        for line in f:
            if line.startswith("trace "):
                if cur is not None:
                    traces[cur] = buf
                cur, buf = line.split()[1], []
            else:
                buf.append(line)
    if cur is not None:
        traces[cur] = buf
    return traces


def run_fwd_ports(ctx, replay=None):
    quick = ctx.tier == "quick"
    jobs = []
    if replay:
        jobs.append(("fwdports-replay", ["run", replay], None))
    else:
        parts = 2 if quick else 8
        n = 400 if quick else 8000
        for i in range(parts):
            jobs.append(("fwdports%d" % i, ["gen", "link-fwdports", n // parts], ctx.seed * 1000 + 700 + i))
    stats = {"fwd_scripts": 0, "fwd_batches": 0, "fwd_requests": 0, "fwd_accepted": 0, "fwd_rejected": 0,
             "fwd_custom_id_batches": 0, "fwd_connects_resolved": 0, "fwd_labels_through_halves": 0, "fwd_pred_fail": 0}
    total, nontrivial, hashes, fails = 0, 0, set(), []
    for name, args, seed in jobs:
        rc, err, trace = ctx.harness("mux", args, out_path=os.path.join(ctx.workdir, "%s.trace" % name), seed=seed)
        if rc != 0:
            ctx.violation("mux harness crashed: " + err[-300:], "mux-harness-crash", err[-4000:], name="mux-crash.txt", no_input=True)
            continue
        drc, lines = ctx.driver("link", trace)
        if drc != 0:
            ctx.violation("link driver failed", "link-driver-failure", "\n".join(lines[-30:]), no_input=True)
            continue
        traces = _split(trace)
        for tname, tl in traces.items():
            total += 1
            stats["fwd_scripts"] += 1
            batches = [l for l in tl if l.startswith("op pconnect")]
            stats["fwd_batches"] += len(batches)
            stats["fwd_custom_id_batches"] += sum(1 for l in batches if "ids=custom" in l)
            for l in tl:
                m = re.match(r"ret \S+ requests (\S+)", l)
                if m and m.group(1) != "-":
                    stats["fwd_requests"] += len(m.group(1).split(","))
            stats["fwd_accepted"] += sum(1 for l in tl if l.startswith("op reqaccept"))
            stats["fwd_rejected"] += sum(1 for l in tl if l.startswith("op reqreject"))
            stats["fwd_connects_resolved"] += sum(1 for l in tl if re.match(r"ret pc\d+\.\d+ (ok|err)", l))
            stats["fwd_labels_through_halves"] += sum(1 for l in tl if re.match(r"ret [vw]\d+x\d+ data ", l))
            # non-trivial: at least one batch of >= 2 requests was answered and a label came out of a half
            if any(re.match(r"ret [vw]\d+x\d+ data ", l) for l in tl) or any(l.startswith("op reqreject") for l in tl):
                canon = "".join(re.sub(r"\d{5,}", "#", l) for l in tl if l.startswith(("op ", "ret pc", "ret v", "ret w")))
                h = hashlib.sha1(canon.encode()).hexdigest()
                if h not in hashes:
                    hashes.add(h)
                    nontrivial += 1
        for line in lines:
            m = re.match(r"END (\S+) .* c05=(\w+)", line)
            if m and m.group(2) != "ok":
                tname = m.group(1)
                detail = [l for l in lines if l.startswith(("FAIL %s " % tname, "DIFF %s " % tname))]
                stats["fwd_pred_fail"] += 1
                fails.append((tname, detail, traces.get(tname, [])))
    for tname, detail, tl in fails[:5]:
        first = next((d for d in detail if d.startswith("FAIL") and " c05 " in d), detail[0] if detail else "")
        what = re.sub(r"line=\d+ ", "", first.split(" ", 3)[3] if len(first.split(" ", 3)) > 3 else first)
        sig = ("c05 forward " + re.sub(r"[0-9a-f]{4,}|\d+", "#", what))[:170]
        script = [l[3:] for l in tl if l.startswith("op ")]
        ctx.violation("c05 fails on the real forwarder run %s: %s" % (tname, what), sig,
                      "%s\n# property predicate c05 (forward_requests_paired) failed on a real run of chmux::forward; "
                      "replay with: ./check C05 --replay <this file>\n# %s\n%s\n# --- driver output ---\n# %s\n# --- full trace ---\n# %s"
                      % (MARK, what, "".join(script), "\n# ".join(detail), "# ".join(tl)))
    return {"evaluations": total, "distinct_nontrivial": nontrivial, "input_distribution": stats}
