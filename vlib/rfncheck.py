"""Correspondence run for remote functions (remoc::rfn::{RFn, RFnMut, RFnOnce}) shared by C12 and C19
(M_rfn): corpus scripts + generated exact-mode (one stimulus per quiescent point, hand-driven gates) and
free-mode (bursts, yield_now suspension points, single-poll scheduling) scripts against the real wrappers,
piped through the `rfn` model driver (replay on M_rfn + property predicates on the real history)."""
import glob, hashlib, os, re

from vlib.rtccheck import split_cases, script_of

ROOT = os.path.dirname(os.path.dirname(os.path.abspath(__file__)))


def features(lines):
    active, overlap, values, errors, abandons, late, kills, provdrops, segs = set(), 0, 0, 0, 0, 0, 0, 0, 0
    aborted = set()
    for l in lines:
        w = l.split()
        if len(w) < 2 or w[0] != "ev":
            if l.startswith("op kill"):
                kills += 1
            elif l.startswith("op dropprov"):
                provdrops += 1
            continue
        if w[1] == "inv":
            active.add(w[2])
            overlap = max(overlap, len(active))
        elif w[1] == "ret":
            active.discard(w[2])
            if w[3] == "ok":
                values += 1
            else:
                errors += 1
        elif w[1] == "abandon":
            active.discard(w[2])
            aborted.add(w[2])
            abandons += 1
        elif w[1] == "seg":
            segs += 1
            if w[2] in aborted:
                late += 1
    return {"overlap": overlap, "values": values, "errors": errors, "abandons": abandons, "late": late,
            "kills": kills, "provdrops": provdrops, "segs": segs}


def run_rfn(ctx, prop, replay=None, corpus=True):
    """prop: 'c12' or 'c19'; returns a coverage dict (merged by the caller)"""
    quick = ctx.tier == "quick"
    jobs = []
    if replay:
        jobs.append(("replay", ["run", replay], None))
    else:
        files = []
        for d in ("C12", "C19"):
            files += sorted(glob.glob(os.path.join(ROOT, "corpus", d, "*.rfn")))
        if files and corpus:
            jobs.append(("corpus", ["run"] + files, None))
        n_exact = 1500 if quick else 60000
        n_free = 1500 if quick else 60000
        parts = 1 if quick else 8
        for i in range(parts):
            jobs.append(("exact%d" % i, ["gen", "rfn-exact", n_exact // parts], ctx.seed * 1000 + 700 + i))
            jobs.append(("free%d" % i, ["gen", "rfn-free", n_free // parts], ctx.seed * 1000 + 800 + i))
    total, nontrivial, hashes, samples = 0, 0, set(), []
    stats = {"accept_ok": 0, "accept_mismatch": 0, "accept_skipped": 0, "pred_fail_cases": 0}
    gen_stats = {}
    fails, mismatches = [], []
    variant_fixed = 0
    for name, args, seed in jobs:
        rc, err, trace = ctx.harness("rfn", args, out_path=os.path.join(ctx.workdir, "%s-rfn-%s.trace" % (prop, name)), seed=seed)
        if rc != 0 and "LIVELOCK" in err:
            case = err.split("LIVELOCK", 1)[1].split("\n", 1)[1] if "\n" in err.split("LIVELOCK", 1)[1] else ""
            case = "\n".join(l for l in case.split("\n") if not l.startswith("STAT "))
            ctx.violation("%s fails on a real run of remoc::rfn: the process never becomes quiescent (a task keeps running without "
                          "making progress)" % prop, "%s rfn livelock" % prop,
                          "# the rfn harness made no progress for 40 s of real time while running this case; replay: harness/target/debug/rfn run <this file>\n" + case)
            continue
        if rc != 0:
            ctx.violation("rfn harness crashed: " + err[-300:], "rfn-harness-crash", err[-4000:], name="rfn-crash.txt", no_input=True)
            continue
        for k, v in ctx.stat_lines(err).items():
            gen_stats[k] = gen_stats.get(k, 0) + v
        # the tree carries the repair of finding F-RFN-1 (the providers race the function against result_tx.closed()):
        # replay against M_rfn with cancel = true; the behaviour of cancel = false is a regression
        rc, lines = ctx.driver("rfn", trace, args=["fixed"])
        if rc != 0:
            ctx.violation("rfn driver failed", "rfn-driver-failure", "\n".join(lines[-30:]), no_input=True)
            continue
        variant_fixed += 1
        cases = split_cases(trace)
        detail = {}
        for line in lines:
            if line.startswith(("DIFF ", "FAIL ")):
                detail.setdefault(line.split()[1], []).append(line)
        for line in lines:
            if not line.startswith("END "):
                continue
            m = re.match(r"END (\S+) events=(\d+) accept=(\w+) c12=(\w+) c19=(\w+) calls=(\d+)(.*)", line)
            if not m:
                continue
            cname, accept = m.group(1), m.group(3)
            res = {"c12": m.group(4), "c19": m.group(5)}
            total += 1
            for kv in m.group(7).split():
                k, _, v = kv.partition("=")
                if v.isdigit():
                    stats[k] = stats.get(k, 0) + int(v)
            stats["accept_" + ("ok" if accept == "ok" else "skipped" if accept == "skipped" else "mismatch")] += 1
            cl = cases.get(cname, [])
            ft = features(cl)
            canon = "".join(l for l in cl if l.startswith(("case ", "op "))) + \
                "".join(sorted(l for l in cl if l.startswith(("ev ret", "ev drop", "ev hang"))))
            canon = re.sub(r"^case \S+", "case", canon)
            h = hashlib.sha1(canon.encode()).hexdigest()
            if prop == "c12":
                interesting = ft["overlap"] >= 2 and ft["values"] >= 1 and ft["segs"] >= 2
            else:
                interesting = ft["abandons"] + ft["errors"] + ft["kills"] + ft["provdrops"] >= 1
            if interesting and h not in hashes:
                hashes.add(h)
                nontrivial += 1
                if len(samples) < 2 and name != "corpus" and nontrivial % 41 == 1:
                    samples.append({"case": cname, "script": script_of(cl).split("\n")[:40]})
            if res[prop] != "ok":
                stats["pred_fail_cases"] += 1
                fails.append((cname, [d for d in detail.get(cname, []) if d.startswith("FAIL") and (" %s " % prop) in d], cl))
            elif accept == "mismatch":
                mismatches.append((cname, detail.get(cname, []), cl))
    n_before = len(ctx.violations)
    seen = set()
    for cname, det, cl in fails:
        for d in det:
            what = re.sub(r"line=\d+ ", "", d.split(" ", 3)[3] if len(d.split(" ", 3)) > 3 else d)
            sig = "%s %s" % (prop, re.sub(r"\d+", "#", what.split(" (")[0]))[:200]
            if sig in seen:
                continue
            seen.add(sig)
            ctx.violation("%s fails on the real run %s: %s" % (prop, cname, what), sig,
                          "# property predicate %s failed on a real run of remoc::rfn\n"
                          "# %s\n# replay: ./check %s --replay <this file>\n%s# --- driver output ---\n# %s\n# --- full trace ---\n# %s"
                          % (prop, what, prop.upper(), script_of(cl), "\n# ".join(det), "# ".join(cl)))
    if mismatches and len(ctx.violations) == n_before:
        cname, det, cl = mismatches[0]
        ctx.violation("the real remote functions no longer behave like M_rfn on %d case(s) (first: %s) but the %s predicate "
                      "holds on every real run explored" % (len(mismatches), cname, prop), "rfn-accept-mismatch",
                      "# correspondence M_rfn <-> remoc::rfn::{rfn_const,rfn_mut,rfn_once} broken: the rfn theorems of %s are about the model,\n"
                      "# the code no longer matches it; no input was found on which the property predicate itself fails\n%s"
                      "# --- driver output ---\n# %s\n# --- full trace ---\n# %s"
                      % (prop.upper(), script_of(cl), "\n# ".join(det), "# ".join(cl)),
                      name="correspondence-M_rfn.txt", no_input=True)
    if variant_fixed:
        ctx.notes.append("rfn runs accepted by M_rfn with cancel = true (abandoned executions are cancelled: F-RFN-1 repaired in this tree)")
    return {
        "evaluations": total,
        "distinct_nontrivial": nontrivial,
        "samples": samples,
        "input_distribution": dict({"rfn_" + k: v for k, v in gen_stats.items()},
                                   **{"rfn_driver_" + k: v for k, v in stats.items()}),
    }


def merge_coverage(ctx, extra):
    """add the rfn stage's numbers to what the rtc stage put into ctx.coverage"""
    cov = ctx.coverage
    cov["evaluations"] = cov.get("evaluations", 0) + extra["evaluations"]
    cov["distinct_nontrivial"] = cov.get("distinct_nontrivial", 0) + extra["distinct_nontrivial"]
    if "traces_validated_against_impl" in cov:
        cov["traces_validated_against_impl"] += extra["evaluations"]
    cov["samples"] = list(cov.get("samples", [])) + extra["samples"]
    dist = dict(cov.get("input_distribution", {}))
    dist.update(extra["input_distribution"])
    cov["input_distribution"] = dist
