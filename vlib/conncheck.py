"""Shared correspondence run for the connection-level properties C07 and C10 (M_table):
settle-separated scripts of connects/accepts/requests/drops on two real chmux endpoints, replayed
on the two dispatcher models and checked with predicates on the real observations."""
import glob, hashlib, os, re

PRED = {"C07": "c07", "C10": "c10"}


def run_conn(ctx, replay=None):
    prop, pred = ctx.prop, PRED[ctx.prop]
    quick = ctx.tier == "quick"
    root = os.path.dirname(os.path.dirname(os.path.abspath(__file__)))
    jobs = []
    if replay:
        jobs.append(("replay", ["run", replay], None))
    else:
        files = sorted(glob.glob(os.path.join(root, "corpus", prop, "*.ops")))
        if files:
            jobs.append(("corpus", ["run"] + files, None))
        n1 = 1600 if quick else 40000
        n2 = 400 if quick else 10000
        parts = 4 if quick else 16
        for i in range(parts):
            jobs.append(("conn%d" % i, ["gen", "conn", n1 // parts], ctx.seed * 1000 + 700 + i))
            jobs.append(("cycles%d" % i, ["gen", "conn-cycles", n2 // parts], ctx.seed * 1000 + 800 + i))
    total, nontrivial, hashes, samples = 0, 0, set(), []
    stats = {"ports_established": 0, "connect_err_rejected": 0, "connect_err_remote_exhausted": 0, "connect_err_too_many": 0,
             "connect_err_local_exhausted": 0, "labels_checked": 0, "requests_inspected": 0, "port_batches": 0, "cancelled": 0,
             "replay_ok": 0, "replay_mismatch": 0}
    fails, mismatches = [], []
    for name, args, seed in jobs:
        rc, err, trace = ctx.harness("mux", args, out_path=os.path.join(ctx.workdir, "%s.trace" % name), seed=seed)
        if rc != 0:
            ctx.violation("mux harness crashed: " + err[-300:], "mux-harness-crash", err[-4000:], name="mux-crash.txt", no_input=True)
            continue
        rc, lines = ctx.driver("conn", trace)
        if rc != 0:
            ctx.violation("conn driver failed", "conn-driver-failure", "\n".join(lines[-30:]), no_input=True)
            continue
        cur, buf, traces = None, [], {}
        with open(trace) as f:
            for line in f:
                if line.startswith("trace "):
                    if cur is not None:
                        traces[cur] = buf
                    cur, buf = line.split()[1], []
                else:
                    buf.append(line)
        if cur is not None:
            traces[cur] = buf
        for tname, tl in traces.items():
            est = sum(1 for l in tl if l.startswith("port "))
            stats["ports_established"] += est
            stats["connect_err_rejected"] += sum(1 for l in tl if re.match(r"ret c\d+ err rejected", l))
            stats["connect_err_remote_exhausted"] += sum(1 for l in tl if re.match(r"ret c\d+ err remote-ports", l))
            stats["connect_err_too_many"] += sum(1 for l in tl if re.match(r"ret c\d+ err too-many", l))
            stats["connect_err_local_exhausted"] += sum(1 for l in tl if re.match(r"ret c\d+ err local-ports", l))
            stats["labels_checked"] += sum(1 for l in tl if re.match(r"ret lb\w+\.r\.\S+ data", l))
            stats["requests_inspected"] += sum(1 for l in tl if re.match(r"ret i\d+ req", l))
            stats["port_batches"] += sum(1 for l in tl if re.match(r"ret pc\d+ ok", l))
            stats["cancelled"] += sum(1 for l in tl if l.startswith("cancelled "))
            canon = "".join(l for l in tl if l.startswith("op "))
            h = hashlib.sha1(canon.encode()).hexdigest()
            if h not in hashes and est >= 2:
                hashes.add(h)
                nontrivial += 1
                if len(samples) < 3 and name != "corpus":
                    samples.append({"trace": tname, "script": [l.strip()[3:] for l in tl if l.startswith("op ")][:40]})
        for line in lines:
            m = re.match(r"END (\S+) events=(\d+) replay=(\w+) c07=(\w+) c10=(\w+)", line)
            if not m:
                continue
            total += 1
            tname, rep = m.group(1), m.group(3)
            res = {"c07": m.group(4), "c10": m.group(5)}
            stats["replay_ok" if rep == "ok" else "replay_mismatch"] += 1
            detail = [l for l in lines if l.startswith(("DIFF %s " % tname, "FAIL %s " % tname))]
            if res[pred] != "ok":
                fails.append((tname, detail, traces.get(tname, [])))
            elif rep != "ok":
                mismatches.append((tname, detail, traces.get(tname, [])))
    for tname, detail, tl in fails[:5]:
        first = next((d for d in detail if d.startswith("FAIL") and (" %s " % pred) in d), detail[0] if detail else "")
        what = re.sub(r"line=\d+ ", "", first.split(" ", 3)[3] if len(first.split(" ", 3)) > 3 else first)
        sig = "%s %s" % (pred, re.sub(r"[0-9a-f]{6,}|\d+", "#", what))[:160]
        script = [l[3:] for l in tl if l.startswith("op ")]
        ctx.violation("%s fails on the real trace %s: %s" % (pred, tname, what), sig,
                      "# %s predicate failed on a real run; replay: ./check %s --replay <this file>\n# %s\n%s\n# --- driver output ---\n# %s\n"
                      "# --- full trace ---\n# %s" % (pred, prop, what, "".join(script), "\n# ".join(detail), "# ".join(tl)))
    if mismatches and not fails:
        tname, detail, tl = mismatches[0]
        script = [l[3:] for l in tl if l.startswith("op ")]
        ctx.violation("the real dispatchers no longer behave like M_table on %d trace(s) (first: %s: %s) but the %s predicate holds on every "
                      "real trace explored" % (len(mismatches), tname, detail[0] if detail else "", pred), "replay-mismatch",
                      "# correspondence M_table <-> chmux dispatcher broken\n%s\n# --- driver output ---\n# %s\n# --- trace ---\n# %s"
                      % ("".join(script), "\n# ".join(detail), "# ".join(tl)), name="correspondence-M_table.txt", no_input=True)
    ctx.coverage.update({"evaluations": total, "distinct_nontrivial": nontrivial, "traces_validated_against_impl": total,
                         "samples": samples, "input_distribution": stats})
