"""Shared correspondence run for the observable-collection properties C13 C14 (M_robs):
corpus scripts + generated scenarios on the real collections, piped through the `robs` model driver."""
import glob, hashlib, os, re

VERIF = os.path.dirname(os.path.dirname(os.path.abspath(__file__)))
PLAIN = re.compile(r"^ev (Push|PushBack|InitialComplete|Done)\b")


def split_cases(path):
    """{case id: (collection, [lines])} in file order"""
    cases, cur, buf, coll = [], None, [], None
    with open(path) as f:
        for line in f:
            if line.startswith("case "):
                w = line.split()
                cur, coll, buf = w[1], w[2], []
            elif line.startswith("end"):
                if cur is not None:
                    cases.append((cur, coll, buf))
                cur = None
            elif cur is not None:
                buf.append(line.rstrip("\n"))
    return cases


def script_of(coll, lines):
    """a script (input of `robs <mode> run`) that repeats the case"""
    out = ["coll %s" % coll]
    if any(l.startswith("cmd ") for l in lines):     # c14 traces echo their script
        return "\n".join(out + [l[4:] for l in lines if l.startswith("cmd ")]) + "\n"
    for l in lines:
        if l.startswith("init "):
            out.append(l)
        elif l.startswith("sub "):
            w = l.split()
            src = [t for t in w if t.startswith("src=")]
            rest = [t for t in w[2:] if not t.startswith("src=") and t != "race"]
            out.append((("sub2r %s " if "race" in w else "sub2 %s ") % src[0][4:] if src else "sub ") + " ".join(rest))
        elif l == "op done":
            out.append("done")
        elif l.startswith("op "):
            out.append(l)
    return "\n".join(out) + "\n"


def run_robs(ctx, mode, replay=None):
    prop = ctx.prop
    quick = ctx.tier == "quick"
    jobs = []
    if replay:
        jobs.append(("replay", [mode, "run", replay], None))
    else:
        files = sorted(glob.glob(os.path.join(VERIF, "corpus", prop, "*.ops")))
        if files:
            jobs.append(("corpus", [mode, "run"] + files, None))
        per_coll = (1200 if quick else 96000) if mode == "c13" else (500 if quick else 40000)
        parts = 4 if quick else 16
        for i in range(parts):
            jobs.append(("gen%d" % i, [mode, "gen", per_coll // parts], ctx.seed * 1000 + i))
    total, nontrivial, hashes, samples = 0, 0, set(), []
    stats = {}
    fails, diffs, variants = [], [], set()
    for name, args, seed in jobs:
        rc, err, trace = ctx.harness("robs", args, out_path=os.path.join(ctx.workdir, "%s.trace" % name), seed=seed)
        if rc != 0:
            ctx.violation("robs harness crashed: " + err[-300:], "robs-harness-crash", err[-4000:], name="robs-crash.txt", no_input=True)
            continue
        for k, v in ctx.stat_lines(err).items():
            stats[k] = stats.get(k, 0) + v if isinstance(v, int) else v
        rc, lines = ctx.driver("robs", trace)
        if rc != 0:
            ctx.violation("robs driver failed", "robs-driver-failure", "\n".join(lines[-30:]), no_input=True)
            continue
        cases = split_cases(trace)
        by_id = {}
        for cid, coll, body in cases:
            total += 1
            by_id[cid] = (coll, body)
            first_sub = next((i for i, l in enumerate(body) if l.startswith("sub ")), None)
            interesting = first_sub is not None and any(
                l.startswith("ev ") and (coll == "list" or not PLAIN.match(l)) for l in body[first_sub:])
            if mode == "c14":
                # a fault became visible: an error result of recv()/borrow(), or a list subscriber under back-pressure
                interesting = first_sub is not None and (
                    any(l.startswith(("recv ", "borrow ")) and "err" in l and "err=-" not in l for l in body)
                    or (coll == "list" and any(l.startswith("recv ") for l in body)))
            h = hashlib.sha1("\n".join(body).encode()).hexdigest()
            if interesting and h not in hashes:
                hashes.add(h)
                nontrivial += 1
                if len(samples) < 4 and name != "corpus" and nontrivial % 211 == 1:
                    samples.append({"case": cid, "script": script_of(coll, body).split("\n")[:40]})
        for line in lines:
            if line.startswith("FAIL "):
                w = line.split(" ", 3)
                fails.append((w[1], w[2], w[3], by_id.get(w[1])))
            elif line.startswith("DIFF "):
                w = line.split(" ", 2)
                diffs.append((w[1], w[2] if len(w) > 2 else "", by_id.get(w[1])))
            elif line.startswith("VARIANT "):
                variants.add(line.split(" ", 2)[2].split(":", 1)[1].strip())
    # verdicts: property predicate violated on a real run
    def known(sig):
        return any(kf["property"] == prop and re.search(kf["signature"], sig) for kf in ctx.known.get("findings", []))
    new_fails = 0
    for cid, coll, what, case in fails:
        kind = what.split(" ")[0]
        m = re.search(r"cause=(\S+)", what)
        cause = m.group(1) if m else "?"
        sig = "%s %s %s cause=%s" % (mode, coll, kind, cause)
        if not known(sig):
            new_fails += 1
        script = script_of(case[0], case[1]) if case else ""
        ctx.violation("%s fails on the real run %s: %s" % (prop, cid, what), sig,
                      "# property %s violated by the real code; replay with: ./check %s --replay <this file>\n"
                      "# case %s: %s\n%s\n# --- full trace of the case ---\n# %s\n"
                      % (prop, prop, cid, what, script, "\n# ".join(case[1]) if case else ""))
    if diffs and not new_fails:
        cid, what, case = diffs[0]
        script = script_of(case[0], case[1]) if case else ""
        ctx.violation("the real collections no longer behave like M_robs on %d point(s) (first: case %s: %s) but the %s "
                      "predicate holds on every real run explored" % (len(diffs), cid, what, prop),
                      "replay-mismatch",
                      "# correspondence M_robs <-> remoc::robs broken (the theorems of %s are about the model; the code no longer "
                      "matches it)\n# no input was found on which the property predicate itself fails\n# first disagreements:\n# %s\n%s\n"
                      % (prop, "\n# ".join("%s: %s" % (d[0], d[1]) for d in diffs[:10]), script),
                      name="correspondence-M_robs.txt", no_input=True)
    elif diffs:
        ctx.notes.append("model/implementation disagreements besides the predicate failures: %d (first: %s %s)"
                         % (len(diffs), diffs[0][0], diffs[0][1][:200]))
    for v in sorted(variants):
        ctx.notes.append("variant: " + v)
    ctx.coverage.update({
        "evaluations": total,
        "distinct_nontrivial": nontrivial,
        "traces_validated_against_impl": total,
        "samples": samples,
        "input_distribution": stats,
    })
