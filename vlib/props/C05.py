"""C05 — channel halves embedded in values are wired one-to-one to their counterparts (M_wiring)."""
import glob, hashlib, os, re

LEAN_MODULE = "RemocModel.Props.C05"
LEAN_EXES = ["wiring", "link"]
HARNESS_BINS = ["wiring", "mux"]
THEOREMS = [
    "Remoc.Wiring.wiring_one_hop",
    "Remoc.Wiring.wiring_exclusive",
    "Remoc.Wiring.forward_preserves_wiring",
    "Remoc.Wiring.reserialize_hop",
    "Remoc.Wiring.wiring_bijective",
    "Remoc.Wiring.interlock_single_connection",
    "Remoc.Wiring.interlock_pinned_ineffective",
    "Remoc.Wiring.interlock_failed_send_restores",
    "Remoc.Wiring.unconnectable_is_error",
    "Remoc.Wiring.connInv_step",
    "Remoc.Link.forward_requests_paired",
    "Remoc.Link.fport_step",
    "Remoc.Link.forward_ids_on_wire",
    "Remoc.Link.wire_step",
    "Remoc.Wiring.forward_model_hop",
    "Remoc.Wiring.forward_preserves_wiring_of_model",
]
RULE = ("real values with 0-12 channel halves (mpsc, oneshot, watch sender/receiver halves, broadcast receivers, bin and lr halves) "
        "at Vec / Option / tuple / enum / nested-struct / HashMap positions, sent over a chain of 1-3 real connections (Connect::io "
        "over tokio::io::duplex; chunk_size 10..64 with receive buffers 8..200, max_ports = exactly what is needed + 0..3), some "
        "mpsc receivers travelling with an item already queued, some values streamed (max_data_size 64/256); every half has a unique "
        "label that is sent into the channel after the transfer and must come out at exactly its counterpart, and nothing else may "
        "ever come out (receivers are drained after all senders are gone); fault scenarios: receiver endpoint one port short, sender "
        "endpoint one port short, value never received, connection cut - both ends must observe an error (or the halves are handed "
        "back and work locally), no operation may hang (paused clock); retry scenario for bin / lr halves: a first send containing the "
        "half that stays fails after serialization (sender endpoint out of ports, or max_item_size) and hands it back, then the OTHER "
        "half travels in the value - it must be wired to the handed-back counterpart like an ordinary local-remote half. A case is non-trivial if at least 2 halves were exercised or a "
        "fault scenario ran; distinct = distinct (shape, scenario, results) sequence. Forwarded port requests on the chmux level (coverage.forwarded_port_requests): batches of 2-4 port "
        "requests (custom ids in 3 of 4) sent on a port that a real chmux::forward relays to a second port; the ids in the PortData frames the forwarding endpoint puts on the wire "
        "must be those it received, in order (reassembled per batch); the destination accepts / rejects / rejects-with-no-ports the requests in a random order and every origin connect must "
        "resolve exactly as the request with its id was answered, never before; a distinct label is sent into every half in both directions and must come out of the *other* half with the "
        "same id; non-trivial = a label came out of a forwarded half or a request was rejected.")
TRUSTED_BASE = [
    "M_wiring (lean/RemocModel/Base/Wiring.lean): values as lists of halves in serialization order, id-keyed matching, forward hops "
    "with preserved ids, re-serialization hops with relays, interlock, resolution of one connect request; that chmux pairs an accepted "
    "request with the Connect of the requesting port and never allocates a port number that is in use is C10 / C07",
    "the port numbers / ids actually used on the wire are not observed by the wiring harness (only the resulting connectivity is); the mux scripts `link-fwdports` observe them for chmux::forward",
    "M_forward, port-request branch (lean/RemocModel/Link/Forward.lean): allocator answers and connect answers are environment labels; that Sender::connect returns its Connects in the order of the requests is read from sender.rs",
    "harness (harness/src/bin/wiring.rs) and driver (lean/Driver/Wiring.lean)",
]
ASSUMPTIONS = ["codec round trip of the port numbers carried inside the transported halves"]
LEVEL_TEXT = ("Lean 4 theorems for all values (any number / mix / order of halves), all allocations of pairwise distinct ports, all "
              "orders of request arrival, all hop counts: the received half carrying p is connected to exactly the half serialized "
              "with p (one hop, chmux::forward chains with preserved ids, re-serialization chains with relays), no request serves two "
              "halves; repaired interlock admits one local-remote connection; every decided connect request has resolved both ends "
              "(connected / error / never existed) at quiescence. The chmux::forward hop is no longer assumed: in every reachable state of the forwarder model (as coded) a forwarded batch carries the received ids in order on "
              "pairwise distinct fresh ports, the k-th spawned task owns request k and awaits connect k, accepts only if that connect was accepted and rejects with the no-ports classification of that connect's failure "
              "(forward_requests_paired; fails, kernel-checked, for the reversed pairing); the hop of a recorded batch equals the wiring model's forwardHop (forward_model_hop) and forward_preserves_wiring_of_model "
              "derives the chain theorem from batches recorded by the forwarder model. Tied to the code by label transfers through every half of real values "
              "over 1-3 real connections. Defect FB2 (interlock marked the wrong half; repaired in /repo 65d6d78, `interlock_pinned_ineffective` is the theorem about the pre-repair variant) and finding FB3 are reproduced by the harness.")
LEVEL_NOTE = ("Trusted: Lean kernel + {propext, Quot.sound}; hand-written M_wiring; C10/C07 for the port table. The correspondence "
              "observes connectivity, not the ids on the wire.")
TECHNIQUE = "Lean 4 proofs over a functional wiring model + label-transfer check of real values over real connections"
DESIGN_REF = "DESIGN.md section 5, C05"

VERIF = os.path.dirname(os.path.dirname(os.path.dirname(os.path.abspath(__file__))))


def _split_cases(trace_path):
    cases, spec, body, name = {}, [], [], None
    with open(trace_path, errors="replace") as f:
        for line in f:
            if line.startswith("spec "):
                if line.startswith("spec case "):
                    spec, body = [], []
                    name = line.split()[2]
                    cases[name] = (spec, body)
                spec.append(line[5:])
            elif name is not None:
                body.append(line)
    return cases


def run(ctx, replay=None):
    from vlib.fwdcheck import run_fwd_ports, MARK
    quick = ctx.tier == "quick"
    jobs = []
    if replay and MARK in open(replay).read(4000):
        ctx.coverage.update(run_fwd_ports(ctx, replay))
        return
    if replay:
        jobs.append(("replay", ["run", replay], None))
    else:
        jobs.append(("fixed", ["fixed"], None))
        files = sorted(glob.glob(os.path.join(VERIF, "corpus", "C05", "*.spec")))
        if files:
            jobs.append(("corpus", ["run"] + files, None))
        parts = 4 if quick else 16
        n = 1200 if quick else 12000
        for i in range(parts):
            jobs.append(("gen%d" % i, ["gen", n // parts], ctx.seed * 1000 + i))
    total, nontrivial, hashes, samples = 0, 0, set(), []
    stats = {"cases": 0, "labels_connected": 0, "labels_unconnectable": 0, "labels_retried_after_failed_send": 0, "pred_fail": 0, "replay_diff": 0}
    dist = {}
    fails, diffs = [], []
    for name, args, seed in jobs:
        rc, err, trace = ctx.harness("wiring", args, out_path=os.path.join(ctx.workdir, "wiring-%s.trace" % name), seed=seed, timeout=1500)
        for k, v in ctx.stat_lines(err).items():
            if isinstance(v, int):
                dist[k] = dist.get(k, 0) + v
        if rc not in (0, 3):
            ctx.violation("wiring harness crashed: " + err[-300:], "wiring-harness-crash", err[-4000:], name="wiring-crash.txt", no_input=True)
            continue
        drc, lines = ctx.driver("wiring", trace)
        if drc != 0 or not any(l.startswith("DONE") for l in lines):
            ctx.violation("wiring driver failed", "wiring-driver-failure", "\n".join(lines[-30:]), no_input=True)
            continue
        cases = _split_cases(trace)
        per_case = {}
        for l in lines:
            if l.startswith(("FAIL ", "DIFF ")):
                per_case.setdefault(l.split()[1], []).append(l)
        for l in lines:
            if not l.startswith("END "):
                continue
            w = l.split()
            cname = w[1]
            m = dict(x.split("=", 1) for x in w[2:] if "=" in x)
            if m.get("skipped"):
                continue
            total += 1
            stats["cases"] += 1
            stats["labels_connected"] += int(m.get("connected", 0))
            stats["labels_unconnectable"] += int(m.get("unconnectable", 0))
            stats["labels_retried_after_failed_send"] += int(m.get("retried", 0))
            spec, body = cases.get(cname, ([], []))
            if int(m.get("connected", 0)) + int(m.get("unconnectable", 0)) >= 2 or m.get("scenario") != "normal":
                h = hashlib.sha1(("".join(spec[1:]) + "".join(b for b in body if b.startswith(("xfer", "drain", "value")))).encode()).hexdigest()
                if h not in hashes:
                    hashes.add(h)
                    nontrivial += 1
                    if len(samples) < 3 and name.startswith("gen"):
                        samples.append({"case": cname, "spec": [x.strip() for x in spec][:16]})
            det = per_case.get(cname, [])
            pf = [d for d in det if d.startswith("FAIL ")]
            df = [d for d in det if d.startswith("DIFF ")]
            if pf:
                stats["pred_fail"] += 1
                fails.append((cname, pf, spec, body, det))
            elif df:
                stats["replay_diff"] += 1
                diffs.append((cname, df, spec, body))
    for cname, pf, spec, body, det in fails:
        for d in pf[:3]:
            msg = d.split(" ", 3)[3] if len(d.split(" ", 3)) > 3 else d
            sig = ("c05 " + re.sub(r"\(sent=[^)]*\)", "", re.sub(r"[0-9a-f]{6,}|\d+", "#", msg)))[:170]
            ctx.violation("c05 fails on the real run %s: %s" % (cname, msg), sig,
                          "# property predicate c05 failed on a real run of the wiring harness\n"
                          "# replay: ./check C05 --replay <this file>   (or harness/target/debug/wiring run <this file> | lean/.lake/build/bin/wiring)\n"
                          "# %s\n%s# --- driver output ---\n# %s\n# --- trace ---\n# %s"
                          % (msg, "".join(spec), "\n# ".join(det), "# ".join(body)))
    if diffs and not fails:
        cname, df, spec, body = diffs[0]
        ctx.violation("the real channels no longer behave like M_wiring on %d case(s) (first: %s: %s) but the c05 predicate holds on "
                      "every real run explored" % (len(diffs), cname, df[0][:200]), "replay-mismatch M_wiring",
                      "# correspondence M_wiring <-> rch broken (outcome classes of the ends differ from the model)\n%s# --- driver output ---\n# %s\n# --- trace ---\n# %s"
                      % ("".join(spec), "\n# ".join(df), "# ".join(body)), name="correspondence-M_wiring.txt", no_input=True)
    stats.update(dist)
    ctx.coverage.update({"evaluations": total, "distinct_nontrivial": nontrivial, "traces_validated_against_impl": total,
                         "samples": samples, "input_distribution": stats})
    if not replay:
        # forwarded port requests on the chmux level (ids on the wire, accept/reject pairing, labels through the halves)
        fw = run_fwd_ports(ctx)
        ctx.coverage["forwarded_port_requests"] = fw
        ctx.coverage["evaluations"] += fw["evaluations"]
        ctx.coverage["distinct_nontrivial"] += fw["distinct_nontrivial"]
        ctx.coverage["traces_validated_against_impl"] += fw["evaluations"]
