"""C03 — flow-control liveness (M_link)."""
from vlib.linkcheck import run_link

LEAN_MODULE = "RemocModel.Props.C03"
LEAN_EXES = ["link"]
HARNESS_BINS = ["mux"]
THEOREMS = [
    "Remoc.Link.threshold_gives_four",
    "Remoc.Link.toReturn_reachable",
    "Remoc.Link.quiescent_no_pending",
    "Remoc.Link.emit_progress",
    "Remoc.Link.ports_frame_nonempty",
    "Remoc.Link.credit_conservation",
    "Remoc.Link.shared_queue_drains",
    "Remoc.Link.non_interference",
    "Remoc.Link.no_slot_without_credit",
    "Remoc.Link.declined_chunk_returns_credit",
]
RULE = ("same runs as C01 plus the corpus witnesses of F2/F3; predicates on the real trace at every quiescent point of a healthy "
        "transport (both sinks open, wires drained): no send/port batch pending while the receiver is waiting with nothing buffered; "
        "with no operation in progress the real credit pool equals limit - cost sent + credit delivered back (no leak, after any "
        "history of cancels); no empty port batch frame; livelock guard (frame budget). Receive buffers include 4..13 and non-"
        "multiples of four, queues of length 1. Non-trivial: multi-frame message or cancellation on the wire.")
TRUSTED_BASE = [
    "M_link; liveness is 'no pending operation at quiescence' + strictly decreasing measure per emitted frame",
    "wake-up of a task waiting for credits and scheduler fairness are outside the model (checked only by the harness's quiescence detector)",
    "non-interference is proved on a two-port model sharing only the bounded event queue (Link/Shared.lean); the transport queues and the wire are FIFOs drained by the dispatcher helper tasks",
]
ASSUMPTIONS = ["single-threaded paused runtime: sleep(1ns) returns at quiescence", "no_credit_leak is proved for receivers that drain a chunked message with recv_chunk; a receiver that calls recv_any again instead is exercised by the correspondence run (`recvskip`), outside the LTS", "the receiving application keeps calling recv (credits queued behind a full event queue are flushed by the next receive call)"]
LEVEL_TEXT = ("Lean 4 theorems over M_link: the return threshold always leaves >= 4 credits reachable (all buffers >= 4), in every "
              "reachable quiescent state with the receiver drained and the port open no send/connect is pending (after any history "
              "of cancels), every emitted frame strictly decreases what remains (no livelock; port batches never empty), credit "
              "conservation (no leak). Tied to the code by exact replay and quiescence/leak predicates on real traces.")
LEVEL_NOTE = ("Partial: lost wake-ups inside Tokio and starvation cannot be exhibited by the model; port non-interference is "
              "explored, not proved. Trusted: Lean kernel, M_link, harness/driver, credit probes.")
TECHNIQUE = "Lean 4 proofs (invariant + quiescence argument + measure) over an LTS model + trace replay and liveness predicates on the real crate"
DESIGN_REF = "DESIGN.md section 5, C03"


def run(ctx, replay=None):
    run_link(ctx, replay)
