"""C11 — close and drop reach the other half, correctly classified, losing no sent data (M_link)."""
from vlib.linkcheck import run_link

LEAN_MODULE = "RemocModel.Props.C11"
LEAN_EXES = ["link", "base"]
HARNESS_BINS = ["mux", "base"]
THEOREMS = [
    "Remoc.Link.eos_after_all_data",
    "Remoc.Link.close_loses_nothing",
    "Remoc.Link.close_classified",
    "Remoc.Link.closed_blocks_requests",
    "Remoc.Link.closed_enables_fail",
    "Remoc.Link.close_keeps_completed",
    "Remoc.Link.finv_step",
    "Remoc.Link.relay_forwarded_prefix",
    "Remoc.Link.relay_exact",
    "Remoc.Link.relay_complete",
    "Remoc.Link.rinvariant_step",
    "Remoc.Link.lr_closed_classified",
    "Remoc.Link.lr_classification_exact",
    # typed channels with a local queue (M_close)
    "Remoc.Close.mpsc_queued_suffix_dropped",
    "Remoc.Close.mpsc_end_drops_exactly_queue",
    "Remoc.Close.mpsc_queued_suffix_per_sender",
    "Remoc.Close.mpsc_close_classified",
    "Remoc.Close.mpsc_first_cause_wins",
    "Remoc.Close.mpsc_local_first_cause_wins",
    "Remoc.Close.mpsc_close_observable_at_quiescence",
    "Remoc.Close.mpsc_close_keeps_transmitted",
    "Remoc.Close.mpsc_close_keeps_transmitted_before",
    "Remoc.Close.mpsc_eos_after_all_senders",
    "Remoc.Close.mpsc_local_queued_suffix",
    "Remoc.Close.oneshot_closed_classified",
    "Remoc.Close.oneshot_close_observable_at_quiescence",
    "Remoc.Close.allinv2_reachable",
    "Remoc.Link.override_keeps_sending",
    "Remoc.Link.forward_chunks_exact",
    "Remoc.Link.forward_cancelled_never_completed",
    "Remoc.Link.forward_eos_after_all",
    "Remoc.Link.forward_close_classified",
    "Remoc.Link.forward_close_propagates",
    "Remoc.Link.fcore_step",
    "Remoc.Link.fclose_step",
    "Remoc.Link.fjoint_step",
]
RULE = ("port level, exact mode: streams of whole sends / try-sends / chunk streams with a receiver close, receiver drop, sender "
        "drop or close-then-drop at every position (also with a chunked message open), the notification delivered to the sender "
        "immediately or later, further sends afterwards, the receiver draining to end-of-stream; replayed step by step on M_link "
        "(incl. error classification of failed sends and is_closed). Predicates on the real run: end-of-stream is reported only "
        "after every completed send was delivered; a send that fails as closed reports gracefully=1 iff ReceiveClose (not "
        "ReceiveFinish) reached the sender first; no send started after the sender learned of the close succeeds; completed sends "
        "are all delivered at the drain marker. Non-trivial: the trace contains a close or drop. Half-by-half teardown of a port "
        "in every order with a liveness probe on a second port: a dispatcher that ends with an error on a healthy transport is a "
        "failure. Port forwarder (chmux::forward): stepped scripts (both wires delivered one item at a time) with whole messages, messages above the "
        "forwarder's max_data_size, chunk streams finished / dropped / cancelled mid-way, port batches, a graceful close or drop of the destination "
        "receiver at any position and upstream end-of-stream are replayed frame by frame and credit by credit against M_forward; monitor scripts "
        "(single-poll scheduling) cancel upstream chunk streams between any two polls. Predicates on the real frames: the messages completed "
        "downstream (ideal reassembly of the frames the forwarding endpoint put on the wire) are a prefix of the ideal reassembly of the upstream "
        "frames delivered to it, and equal when SendFinish follows an Ok return; the forwarder closes its source port only after a close notification "
        "for its destination, and has done so at a quiescent point at which it is between two messages with credits available; it never fails with "
        "'closed gracefully' (override), and with 'closed' only after ReceiveFinish. Typed channels: coverage.typed -- " + __import__("vlib.typedcheck", fromlist=["C11_TYPED_RULE"]).C11_TYPED_RULE)
TRUSTED_BASE = [
    "M_link (close / dropReceiver / dropSender labels, the notification FIFO `back`, SendFinish in the data FIFO)",
    "credit returns deferred by a full event queue may be overtaken by a close notification: the driver reorders the model's FIFO accordingly",
    "harness world and lean/Driver/Link.lean",
    "M_close (RemocModel/Base/Close.lean, CloseStep.lean): one mpsc/oneshot link (n sender clones, local queue, send_impl, port, back channel, recv_impl), the receiver with local clones, other links as environment; values are abstract (id, issuing clone, whether the base send of the value fails on its own); the base channel underneath is the FIFO `wire` (justified by C01/C04); select! is modelled without its bias (more schedules than the code has); after a connection failure frames in flight may still be taken; a receiver forwarded onwards a second time appears only as the environment label rNotifyErr; reserve()/Permit, try_send of mpsc and blocked local sends are not modelled",
    "lean/RemocModel/Base/CloseReplay.lean + lean/Driver/Base.lean: reconstruction of a link's schedule from the observations (number of Ok handles = number of values transmitted before send_impl learnt of the event)",
    "M_forward (lean/RemocModel/Link/Forward.lean): the loop of chmux::forward over two M_link instances, one label per await-free block; "
    "the graceful-close override is a constant of the downstream link (Cfg.ovr) for the life time of the loop; allocator and connect answers are environment labels; "
    "recursively spawned forwarders (one pair per accepted request) are further instances of the same model",
    "a forwarder that finds upstream data and the close of its destination ready at the same time handles them in the order tokio::select! picks at random: the driver accepts both orders",
    "loss of the upstream connection alone (two connections) cannot be produced in the two-endpoint mux world: the model has the label (upLost) and the theorem, the code path is exercised by the C20 lazy-blob harness (cut at a hop during a chunk-streamed fetch)",
]
ASSUMPTIONS = ["single-threaded paused runtime"]
LEVEL_TEXT = ("Lean 4 theorems over M_link for every schedule with close/drop at any position: end-of-stream is reported only "
              "after every emitted frame was consumed, hence after every completed send was obtained; C01's exactness and "
              "completeness hold regardless of close/drop; ReceiveClose closes the sender gracefully, ReceiveFinish non-gracefully, "
              "the first wins; once closed no credits can be obtained and pending/later operations fail, except that a sender with the graceful-close override keeps sending after a graceful close. Across the port forwarder "
              "chmux::forward, modelled at chunk granularity over two M_link instances (every schedule of origin, forwarding loop and destination, any chunking, "
              "cancels at every await, closes/drops on either link, loss of either connection in any phase): the messages the forwarder completed downstream are byte-exactly a prefix of the ideal reassembly "
              "of the upstream frames it consumed and equal to it between two messages; a cancelled or failed upstream chunk stream completes nothing downstream; the destination obtains a prefix of the origin's completed "
              "sends and all of them at quiescence; Ok is returned only at upstream end-of-stream with everything relayed; the destination sees end-of-stream only after the forwarder returned; the upstream receiver is closed only "
              "after the downstream sender learned of a close, the Closed branch is enabled whenever the forwarder is between two messages, ForwardError::Send only after a non-graceful close or loss of the downstream connection, "
              "ForwardError::Recv only after loss of the upstream connection or an over-long port batch. (The message-granular relay model and its three theorems are kept.) Tied to the code by exact "
              "replay of close/drop and forwarder scenarios on the models and classification/end-of-stream/forwarding predicates on the real runs.")
LEVEL_TEXT += (" Queued typed channels (rch::mpsc incl. several sender clones local and remote, rch::oneshot) have their own LTS "
               "M_close; for every schedule: the values accepted on a link are the resolved ones, the one in transmission and the "
               "queued ones in this order, resolved results never show Dropped before Ok/send error, exactly the transmitted ones "
               "resolve Ok, nothing is dropped while send_impl runs and the step that ends it drops exactly the queue "
               "(mpsc_queued_suffix_dropped, mpsc_end_drops_exactly_queue, per clone: mpsc_queued_suffix_per_sender); closed_reason() "
               "of every clone is Closed only after close(), Dropped only after the receiver was dropped, Failed only after a "
               "connection / forwarding / transmission failure, exact for local clones (mpsc_close_classified), never changes once "
               "send_impl ended (mpsc_first_cause_wins) and holds in every quiescent state after the event "
               "(mpsc_close_observable_at_quiescence); the receiver obtains a prefix of the transmitted values and all of them before "
               "a clean end-of-stream, which comes only after every sender reference is gone or closed "
               "(mpsc_close_keeps_transmitted[_before], mpsc_eos_after_all_senders); oneshot: at most one value, same classification, "
               "handle Ok iff transmitted (oneshot_closed_classified). rch::lr and rch::base have no queue: their statements are the "
               "M_link theorems (close_classified read through lrReason; lr_classification_exact: the reason is Closed only after close(), Dropped only after a drop without close, and exactly what the receiving side did first once the back direction is drained).")
LEVEL_NOTE = ("Typed channels: mpsc/oneshot by theorems over M_close tied to the code by predicates on real runs and a per-link replay "
              "whose schedule is reconstructed from the observations (not a step-by-step trace of send_impl/recv_impl); base, lr, "
              "bin by correspondence runs and the M_link theorems. Known model/code subtleties stated in the theorems rather than "
              "hidden: an item-specific send failure makes closed_reason() Failed and lets the link end (F10); a receiver that is "
              "closed and then dropped while recv_impl is blocked behind a full queue is reported as Dropped; the error returned "
              "by send() on a local clone after the receiver was dropped is SendError::Closed. 'Eventually observable' assumes a "
              "healthy transport and scheduler fairness.")
LEVEL_NOTE += (" After an error return of chmux::forward the forwarding task drops its sender and the destination sees a clean "
               "end-of-stream (model run fwdLostRun; for bin channels this is finding FB3): forward_eos_after_all (3) is stated for the Ok return only.")
TECHNIQUE = "Lean 4 invariant proofs over an LTS model + exact trace replay and close/drop predicates against the real crate"
DESIGN_REF = "DESIGN.md section 5, C11"


def run(ctx, replay=None):
    from vlib.typedcheck import run_c11_typed
    if replay:
        typed = "typed-channel harness" in open(replay).read(2000)
        if typed:
            ctx.coverage.update(run_c11_typed(ctx, replay))
        else:
            run_link(ctx, replay, corpus_dirs=("C11",))
        return
    run_link(ctx, None, corpus_dirs=("C11",))
    cov = run_c11_typed(ctx)
    ctx.coverage["typed"] = cov
    ctx.coverage["evaluations"] = ctx.coverage.get("evaluations", 0) + cov["evaluations"]
    ctx.coverage["distinct_nontrivial"] = ctx.coverage.get("distinct_nontrivial", 0) + cov["distinct_nontrivial"]
