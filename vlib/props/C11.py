"""C11 — close and drop reach the other half, correctly classified, losing no sent data (M_link)."""
from vlib.linkcheck import run_link

LEAN_MODULE = "RemocModel.Props.C11"
LEAN_EXES = ["link", "base"]
HARNESS_BINS = ["mux", "base"]
THEOREMS = [
    "Remoc.Link.eos_after_all_data",
    "Remoc.Link.close_loses_nothing",
    "Remoc.Link.close_classified",
    "Remoc.Link.closed_blocks_requests",
    "Remoc.Link.closed_enables_fail",
    "Remoc.Link.close_keeps_completed",
    "Remoc.Link.finv_step",
    "Remoc.Link.relay_forwarded_prefix",
    "Remoc.Link.relay_exact",
    "Remoc.Link.relay_complete",
    "Remoc.Link.rinvariant_step",
    "Remoc.Link.lr_closed_classified",
    "Remoc.Link.lr_classification_exact",
    # typed channels with a local queue (M_close)
    "Remoc.Close.mpsc_queued_suffix_dropped",
    "Remoc.Close.mpsc_end_drops_exactly_queue",
    "Remoc.Close.mpsc_queued_suffix_per_sender",
    "Remoc.Close.mpsc_close_classified",
    "Remoc.Close.mpsc_first_cause_wins",
    "Remoc.Close.mpsc_local_first_cause_wins",
    "Remoc.Close.mpsc_close_observable_at_quiescence",
    "Remoc.Close.mpsc_close_keeps_transmitted",
    "Remoc.Close.mpsc_close_keeps_transmitted_before",
    "Remoc.Close.mpsc_eos_after_all_senders",
    "Remoc.Close.mpsc_local_queued_suffix",
    "Remoc.Close.oneshot_closed_classified",
    "Remoc.Close.oneshot_close_observable_at_quiescence",
    "Remoc.Close.allinv2_reachable",
]
RULE = ("port level, exact mode: streams of whole sends / try-sends / chunk streams with a receiver close, receiver drop, sender "
        "drop or close-then-drop at every position (also with a chunked message open), the notification delivered to the sender "
        "immediately or later, further sends afterwards, the receiver draining to end-of-stream; replayed step by step on M_link "
        "(incl. error classification of failed sends and is_closed). Predicates on the real run: end-of-stream is reported only "
        "after every completed send was delivered; a send that fails as closed reports gracefully=1 iff ReceiveClose (not "
        "ReceiveFinish) reached the sender first; no send started after the sender learned of the close succeeds; completed sends "
        "are all delivered at the drain marker. Non-trivial: the trace contains a close or drop. Half-by-half teardown of a port "
        "in every order with a liveness probe on a second port: a dispatcher that ends with an error on a healthy transport is a "
        "failure. Typed channels: coverage.typed -- " + __import__("vlib.typedcheck", fromlist=["C11_TYPED_RULE"]).C11_TYPED_RULE)
TRUSTED_BASE = [
    "M_link (close / dropReceiver / dropSender labels, the notification FIFO `back`, SendFinish in the data FIFO)",
    "credit returns deferred by a full event queue may be overtaken by a close notification: the driver reorders the model's FIFO accordingly",
    "harness world and lean/Driver/Link.lean",
    "M_close (RemocModel/Base/Close.lean, CloseStep.lean): one mpsc/oneshot link (n sender clones, local queue, send_impl, port, back channel, recv_impl), the receiver with local clones, other links as environment; values are abstract (id, issuing clone, whether the base send of the value fails on its own); the base channel underneath is the FIFO `wire` (justified by C01/C04); select! is modelled without its bias (more schedules than the code has); after a connection failure frames in flight may still be taken; a receiver forwarded onwards a second time appears only as the environment label rNotifyErr; reserve()/Permit, try_send of mpsc and blocked local sends are not modelled",
    "lean/RemocModel/Base/CloseReplay.lean + lean/Driver/Base.lean: reconstruction of a link's schedule from the observations (number of Ok handles = number of values transmitted before send_impl learnt of the event)",
    "the relay model forwards whole messages (`relayStart` = Sender::send of a received message); chmux::forward relays large messages chunk by chunk and forwards port requests by opening new ports: those two paths are tied to the code by the link-forward scripts (predicates) and the C05 wiring harness only",
]
ASSUMPTIONS = ["single-threaded paused runtime; override_graceful_close is not modelled"]
LEVEL_TEXT = ("Lean 4 theorems over M_link for every schedule with close/drop at any position: end-of-stream is reported only "
              "after every emitted frame was consumed, hence after every completed send was obtained; C01's exactness and "
              "completeness hold regardless of close/drop; ReceiveClose closes the sender gracefully, ReceiveFinish non-gracefully, "
              "the first wins; once closed no credits can be obtained and pending/later operations fail. Across a port forwarder "
              "(chmux::forward at message granularity, composed of two M_link instances): what the forwarder completed downstream is a "
              "prefix of what it received, the destination obtains a prefix of the origin's completed sends and all of them at quiescence. Tied to the code by exact "
              "replay of close/drop scenarios on the model and classification/end-of-stream predicates on the real runs.")
LEVEL_TEXT += (" Queued typed channels (rch::mpsc incl. several sender clones local and remote, rch::oneshot) have their own LTS "
               "M_close; for every schedule: the values accepted on a link are the resolved ones, the one in transmission and the "
               "queued ones in this order, resolved results never show Dropped before Ok/send error, exactly the transmitted ones "
               "resolve Ok, nothing is dropped while send_impl runs and the step that ends it drops exactly the queue "
               "(mpsc_queued_suffix_dropped, mpsc_end_drops_exactly_queue, per clone: mpsc_queued_suffix_per_sender); closed_reason() "
               "of every clone is Closed only after close(), Dropped only after the receiver was dropped, Failed only after a "
               "connection / forwarding / transmission failure, exact for local clones (mpsc_close_classified), never changes once "
               "send_impl ended (mpsc_first_cause_wins) and holds in every quiescent state after the event "
               "(mpsc_close_observable_at_quiescence); the receiver obtains a prefix of the transmitted values and all of them before "
               "a clean end-of-stream, which comes only after every sender reference is gone or closed "
               "(mpsc_close_keeps_transmitted[_before], mpsc_eos_after_all_senders); oneshot: at most one value, same classification, "
               "handle Ok iff transmitted (oneshot_closed_classified). rch::lr and rch::base have no queue: their statements are the "
               "M_link theorems (close_classified read through lrReason; lr_classification_exact: the reason is Closed only after close(), Dropped only after a drop without close, and exactly what the receiving side did first once the back direction is drained).")
LEVEL_NOTE = ("Typed channels: mpsc/oneshot by theorems over M_close tied to the code by predicates on real runs and a per-link replay "
              "whose schedule is reconstructed from the observations (not a step-by-step trace of send_impl/recv_impl); base, lr, "
              "bin by correspondence runs and the M_link theorems. Known model/code subtleties stated in the theorems rather than "
              "hidden: an item-specific send failure makes closed_reason() Failed and lets the link end (F10); a receiver that is "
              "closed and then dropped while recv_impl is blocked behind a full queue is reported as Dropped; the error returned "
              "by send() on a local clone after the receiver was dropped is SendError::Closed. 'Eventually observable' assumes a "
              "healthy transport and scheduler fairness.")
TECHNIQUE = "Lean 4 invariant proofs over an LTS model + exact trace replay and close/drop predicates against the real crate"
DESIGN_REF = "DESIGN.md section 5, C11"


def run(ctx, replay=None):
    from vlib.typedcheck import run_c11_typed
    if replay:
        typed = "typed-channel harness" in open(replay).read(2000)
        if typed:
            ctx.coverage.update(run_c11_typed(ctx, replay))
        else:
            run_link(ctx, replay, corpus_dirs=("C11",))
        return
    run_link(ctx, None, corpus_dirs=("C11",))
    cov = run_c11_typed(ctx)
    ctx.coverage["typed"] = cov
    ctx.coverage["evaluations"] = ctx.coverage.get("evaluations", 0) + cov["evaluations"]
    ctx.coverage["distinct_nontrivial"] = ctx.coverage.get("distinct_nontrivial", 0) + cov["distinct_nontrivial"]
