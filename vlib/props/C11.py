"""C11 — close and drop reach the other half, correctly classified, losing no sent data (M_link)."""
from vlib.linkcheck import run_link

LEAN_MODULE = "RemocModel.Props.C11"
LEAN_EXES = ["link", "base"]
HARNESS_BINS = ["mux", "base"]
THEOREMS = [
    "Remoc.Link.eos_after_all_data",
    "Remoc.Link.close_loses_nothing",
    "Remoc.Link.close_classified",
    "Remoc.Link.closed_blocks_requests",
    "Remoc.Link.closed_enables_fail",
    "Remoc.Link.close_keeps_completed",
    "Remoc.Link.finv_step",
    "Remoc.Link.relay_forwarded_prefix",
    "Remoc.Link.relay_exact",
    "Remoc.Link.relay_complete",
    "Remoc.Link.rinvariant_step",
]
RULE = ("port level, exact mode: streams of whole sends / try-sends / chunk streams with a receiver close, receiver drop, sender "
        "drop or close-then-drop at every position (also with a chunked message open), the notification delivered to the sender "
        "immediately or later, further sends afterwards, the receiver draining to end-of-stream; replayed step by step on M_link "
        "(incl. error classification of failed sends and is_closed). Predicates on the real run: end-of-stream is reported only "
        "after every completed send was delivered; a send that fails as closed reports gracefully=1 iff ReceiveClose (not "
        "ReceiveFinish) reached the sender first; no send started after the sender learned of the close succeeds; completed sends "
        "are all delivered at the drain marker. Non-trivial: the trace contains a close or drop. Half-by-half teardown of a port "
        "in every order with a liveness probe on a second port: a dispatcher that ends with an error on a healthy transport is a "
        "failure. Typed channels: coverage.typed -- " + __import__("vlib.typedcheck", fromlist=["C11_TYPED_RULE"]).C11_TYPED_RULE)
TRUSTED_BASE = [
    "M_link (close / dropReceiver / dropSender labels, the notification FIFO `back`, SendFinish in the data FIFO)",
    "credit returns deferred by a full event queue may be overtaken by a close notification: the driver reorders the model's FIFO accordingly",
    "harness world and lean/Driver/Link.lean",
    "the relay model forwards whole messages (`relayStart` = Sender::send of a received message); chmux::forward relays large messages chunk by chunk and forwards port requests by opening new ports: those two paths are tied to the code by the link-forward scripts (predicates) and the C05 wiring harness only",
]
ASSUMPTIONS = ["single-threaded paused runtime; override_graceful_close is not modelled"]
LEVEL_TEXT = ("Lean 4 theorems over M_link for every schedule with close/drop at any position: end-of-stream is reported only "
              "after every emitted frame was consumed, hence after every completed send was obtained; C01's exactness and "
              "completeness hold regardless of close/drop; ReceiveClose closes the sender gracefully, ReceiveFinish non-gracefully, "
              "the first wins; once closed no credits can be obtained and pending/later operations fail. Across a port forwarder "
              "(chmux::forward at message granularity, composed of two M_link instances): what the forwarder completed downstream is a "
              "prefix of what it received, the destination obtains a prefix of the origin's completed sends and all of them at quiescence. Tied to the code by exact "
              "replay of close/drop scenarios on the model and classification/end-of-stream predicates on the real runs.")
LEVEL_NOTE = ("Typed channels are covered by correspondence runs only (no theorems); 'eventually observable' assumes a healthy "
              "transport and scheduler fairness.")
TECHNIQUE = "Lean 4 invariant proofs over an LTS model + exact trace replay and close/drop predicates against the real crate"
DESIGN_REF = "DESIGN.md section 5, C11"


def run(ctx, replay=None):
    from vlib.typedcheck import run_c11_typed
    if replay:
        typed = "typed-channel harness" in open(replay).read(2000)
        if typed:
            ctx.coverage.update(run_c11_typed(ctx, replay))
        else:
            run_link(ctx, replay, corpus_dirs=("C11",))
        return
    run_link(ctx, None, corpus_dirs=("C11",))
    cov = run_c11_typed(ctx)
    ctx.coverage["typed"] = cov
    ctx.coverage["evaluations"] = ctx.coverage.get("evaluations", 0) + cov["evaluations"]
    ctx.coverage["distinct_nontrivial"] = ctx.coverage.get("distinct_nontrivial", 0) + cov["distinct_nontrivial"]
