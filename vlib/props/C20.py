"""C20 — handles and lazy values: confinement, type safety, fidelity, release (M_handle, M_lazy)."""
import glob, hashlib, os, re

LEAN_MODULE = "RemocModel.Props.C20"
LEAN_EXES = ["handle"]
HARNESS_BINS = ["handle"]
THEOREMS = [
    "Remoc.Handle.confinement",
    "Remoc.Handle.access_result",
    "Remoc.Handle.foreign_endpoint_unknown",
    "Remoc.Handle.wrong_type_or_taken_is_error",
    "Remoc.Handle.taken_after_into_inner",
    "Remoc.Handle.ids_fresh",
    "Remoc.Handle.storage_ids_unique",
    "Remoc.Handle.no_foreign_value",
    "Remoc.Handle.deliver_attaches_own_object",
    "Remoc.Handle.return_home_removes_entry",
    "Remoc.Handle.released_all_gone",
    "Remoc.Handle.released_provider_dropped_partial",
    "Remoc.Handle.released_connection_cut",
    "Remoc.Handle.gone_forever",
    "Remoc.Handle.settle_reaches_quiescence",
    "Remoc.Lazy.message_atomic",
    "Remoc.Lazy.lazy_fidelity",
    "Remoc.Lazy.lazy_length",
    "Remoc.Lazy.blob_cut_short_is_error",
    "Remoc.Lazy.item_cut_short_is_error",
    "Remoc.Lazy.uncut_fetch_succeeds",
    "Remoc.Lazy.first_fetch_succeeds",
]
RULE = ("handle cases: real robj::handle::Handle<Tracked<TAG>> (3 distinct value types with nonce + drop counter, handles travel as "
        "Handle<Proxy> and are cast for an access) on 2-3 logical endpoints joined by 1-3 real connections (Connect::io over "
        "tokio::io::duplex, parallel connections between the same endpoints included); random op sequences create / provided / "
        "clone / send over a base channel (deserialized later, FIFO, other ops in between) or an rch::mpsc channel / receive / "
        "drop a receiver with queued messages / into_inner, as_ref, as_mut at the right and at wrong types on the creating and on "
        "foreign endpoints / drop handle / drop or keep provider / cut connection, then a final look at every live handle and "
        "(4 of 5 cases) dropping everything in random order.  After every op the system settles and all drop counters are read. "
        "Each op is replayed on M_handle (result, state LocalReceived/Remote of a received handle, UUID<->model id bijection, "
        "drop counters must coincide) and the predicates are evaluated on the real results with model-free bookkeeping.  "
        "lazy cases: Lazy<Vec<u8>> / LazyBlob with sizes around chunk_size and receive_buffer (chunk 16..256, buffer 16..4096, "
        "duplex 64..65536), 0-2 forwards over base / mpsc channels, provider drop, fetch (twice: cache), fetch with the connection of "
        "a chosen hop cut after k bytes towards the consumer (byte-counting adapter), forward after fetch.  "
        "A handle case is non-trivial if a handle came home re-attached, an access was made on a foreign endpoint / at a wrong type / "
        "after the value was taken, a provider was dropped, a connection cut or queued messages lost; a lazy case if it has at least "
        "one forward, a cut or a provider drop.  distinct = distinct case text (ops and results).")
TRUSTED_BASE = [
    "M_handle (lean/RemocModel/Handle/Model.lean): hand-written LTS of robj/handle.rs + chmux/any_storage.rs; UUIDs are a global "
    "counter (collision-freedom of Uuid::new_v4 is assumed, the code additionally retries on a collision inside one storage); the "
    "RwLock around the cell is not modelled (accesses are atomic); the dropped-notification channel is abstracted to the set of "
    "holders with an intact chain of connections",
    "M_lazy (lean/RemocModel/Handle/Lazy.lean): frames first/last/body, receiver hands out complete messages only (the fact C01 "
    "proves on M_link is restated and proved on this abstraction), forwarders emit the last frame only after receiving it",
    "harness (harness/src/bin/handle.rs: cut / byte-budget adapter, paused-clock settle) and driver (lean/Driver/Handle.lean)",
]
ASSUMPTIONS = [
    "single-threaded paused Tokio runtime: sleep(1ns) returns at quiescence, timeout(1h) fires iff an operation can never complete",
    "UUID v4 values do not collide across storages",
    "scheduler fairness for 'eventually released' (the theorems speak about quiescent states)",
]
LEVEL_TEXT = ("Lean 4 theorems over M_handle for all label lists and all topologies: an access returns a value only through a handle "
              "attached on the creating endpoint (created clone, or returned over the registering connection and found in that "
              "connection's storage), at the stored type, before the value was taken, and the value is that of the handle's origin "
              "object (ids fresh from the counter invariant, unique across storages); every other case is Unknown / MismatchedType; "
              "at quiescence no storage entry and no cell reference is left once every handle and in-flight copy is gone, no storage "
              "entry once the provider is dropped or the connection failed; gone is forever; settle reaches quiescence.  Over M_lazy: "
              "message atomicity of a chunked transfer, every fetch result under any forwards/cuts/provider drops is the provided data "
              "or an error, cut short => error, undisturbed => success.  Tied to the code by exact replay of real op sequences on "
              "the model and by predicates on the real results.")
LEVEL_NOTE = ("Trusted: Lean kernel, the hand-written models, harness and driver.  The models follow the code as found; two points "
              "where it departs from the property as worded are listed known findings with witnesses: F-C20-1 (dropping the provider "
              "empties the storages but a handle attached on the creating endpoint keeps the value alive and usable; theorem "
              "released_provider_dropped_partial) and F-C20-2 (a LazyBlob that was never sent cannot be fetched locally).  Observations "
              "consistent with the property: a handle that came home removes the storage entry, later copies stay Remote; into_inner at a "
              "wrong type destroys the value; a lost or cut-off copy counts like a dropped one (final errors on the notification "
              "channel are held back); LazyBlob::fetch uses the advertised length only as an upper limit, completeness rests on "
              "message atomicity.")
TECHNIQUE = "Lean 4 invariant proofs over LTS / functional models + exact op-sequence replay and predicate check against the real crate"
DESIGN_REF = "DESIGN.md section 5, C20"

VERIF = os.path.dirname(os.path.dirname(os.path.dirname(os.path.abspath(__file__))))


def _cases(path):
    """Split a trace into {case name: [lines]} (order preserved)."""
    cases, cur, buf = [], None, []
    with open(path) as f:
        for line in f:
            if line.startswith("case "):
                if cur is not None:
                    cases.append((cur, buf))
                cur, buf = line.split()[1], [line]
            elif cur is not None:
                buf.append(line)
    if cur is not None:
        cases.append((cur, buf))
    return cases


def _short(line, n=160):
    line = line.rstrip("\n")
    return line if len(line) <= n else line[:n] + "..."


def run(ctx, replay=None):
    quick = ctx.tier == "quick"
    jobs = []
    if replay:
        jobs.append(("replay", ["run", replay], None))
    else:
        files = sorted(glob.glob(os.path.join(VERIF, "corpus", "C20", "*.ops")))
        if files:
            jobs.append(("corpus", ["run"] + files, None))
        parts = 4 if quick else 16
        nh, nl = (600, 400) if quick else (5000, 3000)
        for i in range(parts):
            jobs.append(("gen%d" % i, ["gen", nh, nl], ctx.seed * 1000 + i))
    total, nontrivial, hashes, samples, stats = 0, 0, set(), [], {}
    fails, diffs = [], []
    for name, args, seed in jobs:
        rc, err, trace = ctx.harness("handle", args, out_path=os.path.join(ctx.workdir, "%s.trace" % name), seed=seed, timeout=1500)
        for k, v in ctx.stat_lines(err).items():
            stats[k] = stats.get(k, 0) + v
        if rc != 0:
            ctx.violation("handle harness crashed or hung (rc=%d): %s" % (rc, err[-300:]), "handle-harness-crash",
                          err[-4000:], name="handle-crash.txt", no_input=True)
            continue
        rc, lines = ctx.driver("handle", trace)
        end = [l for l in lines if l.startswith("END ")]
        if rc != 0 or not end:
            ctx.violation("handle driver failed", "handle-driver-failure", "\n".join(lines[-30:]), no_input=True)
            continue
        cases = _cases(trace)
        by_name = dict(cases)
        # which cases the driver counted as non-trivial is recomputed here on the text with the same rule
        for cname, cl in cases:
            total += 1
            # canonical text: the kind of a fetch error depends on which task notices a cut first (tokio::select! is randomised)
            text = re.sub(r"= err \w+", "= err", "".join(cl))
            h = hashlib.sha1(text.encode()).hexdigest()
            if cl[0].split()[2] == "handle":
                nt = any((l.startswith("recv ") and " received " in l) or l.startswith(("dropprov", "cut ", "loseq"))
                         or (l.startswith("access ") and (l.rstrip().endswith("unknown") or l.rstrip().endswith("mismatch")))
                         for l in cl)
            else:
                nt = any(l.startswith(("lfwd", "ldropprov")) or (l.startswith("lfetch") and not l.startswith("lfetch - -")) for l in cl)
            if nt and h not in hashes:
                hashes.add(h)
                nontrivial += 1
                if len(samples) < 4 and name != "corpus" and nontrivial % 37 == 1:
                    samples.append({"case": _short(cl[0]), "ops": [_short(l, 100) for l in cl[1:] if not l.startswith("drops")][:30]})
        for l in lines:
            m = re.match(r"(FAIL|DIFF) case=(\S+) line=(\d+) (.*?) :: (.*)", l)
            if not m:
                continue
            kind, cname, _, what, opline = m.groups()
            (fails if kind == "FAIL" else diffs).append((cname, what, opline, by_name.get(cname, []), l))
    # verdicts: predicate failures first (concrete failing input; listed known findings are filtered by ctx.violation),
    # else correspondence
    before = len(ctx.violations)
    seen = set()
    for cname, what, opline, cl, raw in fails:
        sig = "c20 " + re.sub(r"\d+", "#", what)
        if sig in seen:
            continue
        seen.add(sig)
        ctx.violation("C20 predicate fails on real run %s: %s at `%s`" % (cname, what, _short(opline, 80)), sig,
                      "# property predicate failed on the real code: %s\n# at: %s\n# replay: ./check C20 --replay <this file>   "
                      "(harness/target/debug/handle run <this file> | lean/.lake/build/bin/handle)\n%s"
                      % (what, _short(opline, 200), "".join(cl)))
        if len(ctx.violations) - before >= 6:
            break
    if diffs and len(ctx.violations) == before:
        cname, what, opline, cl, raw = diffs[0]
        classes = sorted({re.sub(r"\d+", "#", d[1].split(" model=")[0]) for d in diffs})
        ctx.violation("the real code no longer behaves like M_handle / M_lazy on %d step(s) in %d case(s) (first: %s, %s) "
                      "but no property predicate failed on any real run" % (len(diffs), len({d[0] for d in diffs}), cname, what),
                      "c20-correspondence " + ",".join(classes)[:120],
                      "# correspondence M_handle / M_lazy <-> remoc broken: the theorems of C20 are about the model and the code no "
                      "longer matches it\n# classes of disagreement: %s\n# first disagreement: %s\n# no input was found on which a "
                      "property predicate itself fails\n%s" % (", ".join(classes), _short(raw, 300), "".join(cl)),
                      name="correspondence-M_handle.txt", no_input=True)
    ctx.coverage.update({
        "evaluations": total,
        "distinct_nontrivial": nontrivial,
        "traces_validated_against_impl": total,
        "samples": samples,
        "input_distribution": stats,
    })
