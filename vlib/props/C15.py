"""C15 — watch channels converge to the latest value and never go backwards (M_watch)."""
import glob, hashlib, os, re

LEAN_MODULE = "RemocModel.Props.C15"
LEAN_EXES = ["watch"]
HARNESS_BINS = ["watch"]
THEOREMS = [
    "Remoc.Watch.observed_was_sent",
    "Remoc.Watch.observed_monotone",
    "Remoc.Watch.never_older_after_newer",
    "Remoc.Watch.eventually_last",
    "Remoc.Watch.receiver_reads_last",
    "Remoc.Watch.no_send_after_drop",
    "Remoc.Watch.last_value_before_drop",
    "Remoc.Watch.quiescent_cell",
    "Remoc.Watch.link_quiescent",
    "Remoc.Watch.inv_step",
]
RULE = ("(oversize cases, one per 25 ordinary ones: byte-vector values, the receiving endpoint deserialises the receiver with a 64-byte "
        "item limit the sender does not have; updates above the limit are receive errors for those updates only, at quiescence the "
        "receiver reads the last value sent and its channel has not ended) "
        "generated cases on the real rch::watch (single-threaded paused runtime): one sender, up to 8 receivers, purely local "
        "or over a chain of 1-3 real connections (Connect::io on tokio duplex); random interleavings of send / send_replace / "
        "send_modify (single and bursts of 2-5), borrow, borrow_and_update, has_changed, changed, wait_for, the ReceiverStream "
        "wrapper, clone, subscribe, sending a receiver to the neighbouring endpoint in either direction (repeatedly: up to ~10 "
        "hops), sending the sender to another endpoint, dropping receivers, dropping the sender (also directly after a send), "
        "single yields (forwarding tasks make partial progress while the harness goes on) and quiescence points at three "
        "densities. After every quiescence point every live receiver is read. Exact replay on M_watch wherever the state is "
        "determined (always for the sender's own cell; for all cells from a quiescence point until the next awaited operation), "
        "predicate everywhere: every value read was sent, per receiver (across clone/transfer) values never decrease, at every "
        "quiescence point every live receiver reads the last value sent, wait_for of a sent value completes, nothing hangs after "
        "the sender drop. A case is non-trivial if at least one value was read from a non-sender cell while forwarding was in "
        "flight (racing observation); distinct = distinct sequence of trace lines.")
TRUSTED_BASE = [
    "M_watch (lean/RemocModel/Watch/Model.lean): hand-written LTS of watch/{mod,sender,receiver}.rs over a Tokio-style watch cell "
    "(value, version, closed; per receiver a seen version; changed() looks at the version before the closed flag); one hop = "
    "forwarder (wait+mark seen+read / send over the port) + port FIFO + remote store; a failing send (no receiver) is a no-op",
    "liveness of forwarders whose downstream receivers were all dropped is not modelled (such cells are unobservable)",
    "harness (harness/src/bin/watch.rs) and driver (lean/Driver/Watch.lean)",
]
ASSUMPTIONS = ["tokio::sync::watch behaves as documented (version bumped by every store, changed() checks version before closed)",
               "chmux ports deliver in order while the connection is up (C01); scheduler fairness for 'eventually'",
               "current-thread paused runtime: sleep(1ns) returns at quiescence, timeout(1h) fires exactly when nothing can progress"]
LEVEL_TEXT = ("Lean 4 theorems over M_watch for all label lists (all update sequences, clone/subscribe/transfer of receivers and "
              "transfer of the sender at any moment, all forwarding schedules, unbounded hop count): every observed value was "
              "sent; per receiver, across clones and transfers, observed send indices never decrease; in every reachable quiescent "
              "state every cell of the forest holds the last value sent and is closed iff the sender was dropped, so every live "
              "receiver reads the last value, including one sent immediately before the sender drop. Tied to the code by exact "
              "replay where the state is determined and by the predicate on every real observation and quiescence snapshot.")
LEVEL_NOTE = ("Trusted: Lean kernel, the hand-written M_watch (Tokio watch cell and chmux port as abstract data types), "
              "harness/driver. 'Eventually' is proved as: every reachable quiescent state has converged; that the forwarding "
              "steps reach quiescence once updates stop is observed on the real system (settle returns) and assumed of the scheduler.")
TECHNIQUE = "Lean 4 invariant proofs over an LTS model + exact trace replay and predicate check against the real crate"
DESIGN_REF = "DESIGN.md section 5, C15"

VERIF = os.path.dirname(os.path.dirname(os.path.dirname(os.path.abspath(__file__))))


def _cases(trace):
    cur, out = None, {}
    with open(trace) as f:
        for line in f:
            if line.startswith("case "):
                cur = line.split()[1]
                out[cur] = [line]
            elif cur is not None:
                out[cur].append(line)
    return out


def run(ctx, replay=None):
    quick = ctx.tier == "quick"
    jobs = []
    if replay:
        jobs.append(("replay", ["run", replay], None))
    else:
        files = sorted(glob.glob(os.path.join(VERIF, "corpus", "C15", "*.trace")))
        if files:
            jobs.append(("corpus", ["run"] + files, None))
        parts = 4 if quick else 16
        n = 4000 if quick else 48000
        for i in range(parts):
            jobs.append(("gen%d" % i, ["gen", n // parts], ctx.seed * 1000 + i))
    total, nontrivial, hashes, samples = 0, 0, set(), []
    stats = {"replay_ok": 0, "replay_mismatch": 0, "pred_fail": 0, "observations": 0, "racing_observations": 0,
             "transfers": 0, "max_hops": 0, "send_failed_no_receiver": 0, "closed_results": 0}
    fails, mismatches = [], []
    for name, args, seed in jobs:
        rc, err, trace = ctx.harness("watch", args, out_path=os.path.join(ctx.workdir, "%s.trace" % name), seed=seed, timeout=1500)
        for k, v in ctx.stat_lines(err).items():
            stats[k] = stats.get(k, 0) + v
        if rc != 0:
            ctx.violation("watch harness crashed: " + err[-300:], "watch-harness-crash", err[-4000:], name="watch-crash.txt", no_input=True)
            continue
        rc2, lines = ctx.driver("watch", trace)
        if rc2 != 0 or not any(l.startswith("TOTAL") for l in lines):
            ctx.violation("watch driver failed", "watch-driver-failure", "\n".join(lines[-30:]), no_input=True)
            continue
        cases = _cases(trace)
        detail = {}
        stats["aborted_cases"] = stats.get("aborted_cases", 0) + sum(1 for l in lines if l.startswith("ABORT "))
        for l in lines:
            if l.startswith(("DIFF ", "FAIL ")):
                detail.setdefault(l.split()[1], []).append(l)
        for l in lines:
            m = re.match(r"END (\S+) events=(\d+) replay=(\w+) pred=(\w+) obs=(\d+) racing=(\d+) transfers=(\d+) hops=(\d+) conns=(\d+)", l)
            if not m:
                continue
            cname, rep, pred = m.group(1), m.group(3), m.group(4)
            obs, racing, transfers, hops = int(m.group(5)), int(m.group(6)), int(m.group(7)), int(m.group(8))
            total += 1
            stats["observations"] += obs
            stats["racing_observations"] += racing
            stats["transfers"] += transfers
            stats["max_hops"] = max(stats["max_hops"], hops)
            stats["hops_%d" % min(hops, 6)] = stats.get("hops_%d" % min(hops, 6), 0) + 1
            stats["replay_ok" if rep == "ok" else "replay_mismatch"] += 1
            tl = cases.get(cname, [])
            stats["send_failed_no_receiver"] += sum(1 for x in tl if x.startswith("send") and x.rstrip().endswith("closed"))
            stats["closed_results"] += sum(1 for x in tl if not x.startswith("send") and x.rstrip().endswith("-> closed"))
            h = hashlib.sha1("".join(tl).encode()).hexdigest()
            if racing > 0 and h not in hashes:
                hashes.add(h)
                nontrivial += 1
                if len(samples) < 3 and name != "corpus" and len(tl) < 50:
                    samples.append({"case": cname, "trace": [x.strip() for x in tl]})
            if pred != "ok":
                stats["pred_fail"] += 1
                fails.append((cname, detail.get(cname, []), tl))
            elif rep != "ok":
                mismatches.append((cname, detail.get(cname, []), tl))
    for cname, det, tl in fails[:5]:
        first = next((d for d in det if d.startswith("FAIL")), det[0] if det else "FAIL ? ? ?")
        what = first.split(" ", 3)[3] if len(first.split(" ", 3)) > 3 else first
        sig = "c15 " + re.sub(r"\d+", "#", what)[:160]
        ctx.violation("C15 predicate fails on the real run %s: %s" % (cname, what), sig,
                      "# C15 predicate failed on a real run of rch::watch; replay with: ./check C15 --replay <this file>\n"
                      "# %s\n%s# --- driver output ---\n# %s\n" % (what, "".join(tl), "\n# ".join(det)))
    if mismatches and not fails:
        cname, det, tl = mismatches[0]
        ctx.violation("the real watch channel no longer behaves like M_watch on %d case(s) (first: %s: %s) but the C15 "
                      "predicate holds on every real observation explored" % (len(mismatches), cname, det[0] if det else ""),
                      "replay-mismatch",
                      "# correspondence M_watch <-> rch::watch broken (the theorems of C15 are about the model; the code no "
                      "longer matches it)\n# no input was found on which the property predicate itself fails\n%s# --- driver output ---\n# %s\n"
                      % ("".join(tl), "\n# ".join(det)), name="correspondence-M_watch.txt", no_input=True)
    ctx.coverage.update({
        "evaluations": total,
        "distinct_nontrivial": nontrivial,
        "traces_validated_against_impl": total,
        "samples": samples,
        "input_distribution": stats,
    })
