"""C16 — broadcast: ordered delivery with an explicit lag marker at every gap (M_bcast)."""
import glob, hashlib, os, re

LEAN_MODULE = "RemocModel.Props.C16"
LEAN_EXES = ["bcast"]
HARNESS_BINS = ["bcast"]
THEOREMS = [
    "Remoc.Bcast.values_strictly_increasing",
    "Remoc.Bcast.values_were_broadcast",
    "Remoc.Bcast.gap_marked_exactly_once",
    "Remoc.Bcast.first_value_or_lag",
    "Remoc.Bcast.lagged_never_followed_by_older",
    "Remoc.Bcast.lagged_never_twice",
    "Remoc.Bcast.everFull_only_when_full",
    "Remoc.Bcast.keeps_up_receives_everything",
    "Remoc.Bcast.keeps_up_received_all",
    "Remoc.Bcast.lag_delivered_at_quiescence",
    "Remoc.Bcast.send_never_blocks",
    "Remoc.Bcast.other_subscribers_unaffected",
    "Remoc.Bcast.closed_only_after_sender_dropped",
    "Remoc.Bcast.scan_accepts_increasing",
    "Remoc.Bcast.scan_accepts_gap",
    "Remoc.Bcast.scan_accepts_lag_newer",
    "Remoc.Bcast.scan_accepts_no_double_lag",
    "Remoc.Bcast.inv_step",
]
RULE = ("generated cases on the real rch::broadcast (single-threaded paused runtime; no spawned task runs between two settle "
        "points): 1-6 subscribers with send buffers 1..3, local plain receivers, local ReceiverStream wrappers and (every third "
        "case) receivers sent to a second endpoint over Connect::io on a tokio duplex (remote buffers 1..3, chmux receive buffer "
        "4..64 bytes); random interleavings of send (from sender clones) / try_recv / recv / settle / subscribe / drop subscriber / "
        "receiver_count / drop sender under four rate profiles (slow consumers, balanced, fast consumers, bursts without settling), "
        "followed by a drain of every live subscriber to the point where its receive can never complete. Local subscribers are "
        "replayed exactly on M_bcast (every receive result, send result and fan-out count, receiver_count); for every subscriber "
        "the predicate (model's scanner: consecutive values, one Lagged per gap, real gap after every Lagged; no Lagged while the "
        "backlog stayed below the buffer; Closed only after sender drop; at the final drain everything or a trailing Lagged) is "
        "evaluated on the real sequence. A case is non-trivial if at least one Lagged was really received; distinct = distinct "
        "sequence of trace lines.")
TRUSTED_BASE = [
    "M_bcast (lean/RemocModel/Bcast/Model.lean): hand-written LTS of broadcast/sender.rs + receiver.rs over a Tokio-style bounded "
    "queue with permits (try_send fails iff no free slot or receiver dropped; send/reserve wait for a slot); the `subs` vector, "
    "`ready_rx` queue and `not_ready` counter are represented by a per-subscriber mode",
    "for remote subscribers only the local mpsc queue is modelled; the path send_impl -> chmux -> recv_impl -> remote queue is "
    "covered by the predicate on the real sequences, not by exact replay",
    "harness (harness/src/bin/bcast.rs) and driver (lean/Driver/Bcast.lean)",
]
ASSUMPTIONS = ["Tokio mpsc is FIFO with fair permit hand-over; current-thread paused runtime: sleep(1ns) returns at quiescence, "
               "timeout(1h) fires exactly when an operation can never complete"]
LEVEL_TEXT = ("Lean 4 theorems over M_bcast for all label lists, subscriber counts and buffer sizes: received values strictly "
              "increasing and all from after the subscription; between consecutive received values nothing if adjacent and exactly "
              "one Lagged otherwise, every Lagged followed only by newer values with a real gap, never two in a row; a subscriber "
              "whose queue was never full has received-plus-queued exactly every value since it subscribed; at quiescence a drained "
              "subscriber has everything or a trailing Lagged; send is one always-enabled atomic label; erasing the other "
              "subscribers' steps from a run changes nothing for a subscriber. Tied to the code by exact replay of local subscribers "
              "and by the same scanner evaluated on every real (local and remote) subscriber sequence.")
LEVEL_NOTE = ("Trusted: Lean kernel, the hand-written M_bcast (Tokio mpsc abstracted as a bounded FIFO with permits), harness/driver. "
              "'Never blocks the sender' is the shape of the label in the model and, on the real code, that send is a synchronous "
              "call that returns at once in every generated state (a watchdog thread catches a blocking call).")
TECHNIQUE = "Lean 4 invariant proofs over an LTS model + exact trace replay and predicate check against the real crate"
DESIGN_REF = "DESIGN.md section 5, C16"

VERIF = os.path.dirname(os.path.dirname(os.path.dirname(os.path.abspath(__file__))))


def _cases(trace):
    cur, buf, out = None, [], {}
    with open(trace) as f:
        for line in f:
            if line.startswith("case "):
                cur, buf = line.split()[1], [line]
                out[cur] = buf
            elif cur is not None:
                buf.append(line)
    return out


def run(ctx, replay=None):
    quick = ctx.tier == "quick"
    jobs = []
    if replay:
        jobs.append(("replay", ["run", replay], None))
    else:
        files = sorted(glob.glob(os.path.join(VERIF, "corpus", "C16", "*.trace")))
        if files:
            jobs.append(("corpus", ["run"] + files, None))
        parts = 4 if quick else 16
        n = 4000 if quick else 60000
        for i in range(parts):
            jobs.append(("gen%d" % i, ["gen", n // parts], ctx.seed * 1000 + i))
    total, nontrivial, hashes, samples = 0, 0, set(), []
    stats = {"replay_ok": 0, "replay_mismatch": 0, "pred_fail": 0, "lags_received": 0, "values_received": 0,
             "cases_with_remote_lag": 0}
    fails, mismatches = [], []
    for name, args, seed in jobs:
        rc, err, trace = ctx.harness("bcast", args, out_path=os.path.join(ctx.workdir, "%s.trace" % name), seed=seed, timeout=1500)
        for k, v in ctx.stat_lines(err).items():
            stats[k] = stats.get(k, 0) + v
        if rc == 3:
            last = open(trace).read().split("case ")[-1] if os.path.exists(trace) else ""
            ctx.violation("a synchronous call of the broadcast API (Sender::send) blocked the thread: " + err[-200:].strip(),
                          "c16 send blocks", "# the harness thread stopped making progress (watchdog); last case started:\ncase " + last
                          + "\n# " + err[-1000:], name="send-blocks.txt")
            continue
        if rc != 0:
            ctx.violation("bcast harness crashed: " + err[-300:], "bcast-harness-crash", err[-4000:], name="bcast-crash.txt", no_input=True)
            continue
        rc2, lines = ctx.driver("bcast", trace)
        if rc2 != 0 or not any(l.startswith("TOTAL") for l in lines):
            ctx.violation("bcast driver failed", "bcast-driver-failure", "\n".join(lines[-30:]), no_input=True)
            continue
        cases = _cases(trace)
        detail = {}
        stats["aborted_cases"] = stats.get("aborted_cases", 0) + sum(1 for l in lines if l.startswith("ABORT "))
        for l in lines:
            if l.startswith(("DIFF ", "FAIL ")):
                detail.setdefault(l.split()[1], []).append(l)
        for l in lines:
            m = re.match(r"END (\S+) events=(\d+) replay=(\w+) pred=(\w+) lags=(\d+) values=(\d+) subs=(\d+) mixed=(\d)", l)
            if not m:
                continue
            cname, rep, pred, lags, vals = m.group(1), m.group(3), m.group(4), int(m.group(5)), int(m.group(6))
            total += 1
            stats["lags_received"] += lags
            stats["values_received"] += vals
            stats["replay_ok" if rep == "ok" else "replay_mismatch"] += 1
            tl = cases.get(cname, [])
            if m.group(8) == "1" and lags:
                kinds = {w[1]: w[3] for w in (x.split() for x in tl) if w and w[0] == "sub" and len(w) == 4}
                if any(w[0] in ("try", "recv") and w[-1] == "lag" and kinds.get(w[1]) in ("R", "T") for w in (x.split() for x in tl) if w):
                    stats["cases_with_remote_lag"] += 1
            h = hashlib.sha1("".join(tl).encode()).hexdigest()
            if lags > 0 and h not in hashes:
                hashes.add(h)
                nontrivial += 1
                if len(samples) < 3 and name != "corpus" and len(tl) < 60:
                    samples.append({"case": cname, "trace": [x.strip() for x in tl]})
            if pred != "ok":
                stats["pred_fail"] += 1
                fails.append((cname, detail.get(cname, []), tl))
            elif rep != "ok":
                mismatches.append((cname, detail.get(cname, []), tl))
    for cname, det, tl in fails[:5]:
        first = next((d for d in det if d.startswith("FAIL")), det[0] if det else "FAIL ? ? ?")
        what = first.split(" ", 3)[3] if len(first.split(" ", 3)) > 3 else first
        sig = "c16 " + re.sub(r"\d+", "#", what)[:160]
        ctx.violation("C16 predicate fails on the real run %s: %s" % (cname, what), sig,
                      "# C16 predicate failed on a real run of rch::broadcast; replay with: ./check C16 --replay <this file>\n"
                      "# %s\n%s# --- driver output ---\n# %s\n" % (what, "".join(tl), "\n# ".join(det)))
    if mismatches and not fails:
        cname, det, tl = mismatches[0]
        ctx.violation("the real broadcast channel no longer behaves like M_bcast on %d case(s) (first: %s: %s) but the C16 "
                      "predicate holds on every real sequence explored" % (len(mismatches), cname, det[0] if det else ""),
                      "replay-mismatch",
                      "# correspondence M_bcast <-> rch::broadcast broken (the theorems of C16 are about the model; the code no "
                      "longer matches it)\n# no input was found on which the property predicate itself fails\n%s# --- driver output ---\n# %s\n"
                      % ("".join(tl), "\n# ".join(det)), name="correspondence-M_bcast.txt", no_input=True)
    ctx.coverage.update({
        "evaluations": total,
        "distinct_nontrivial": nontrivial,
        "traces_validated_against_impl": total,
        "samples": samples,
        "input_distribution": stats,
    })
