"""C01 — port delivery: exactly-once, in-order, byte-exact, cancel-atomic (M_link)."""
from vlib.linkcheck import run_link

LEAN_MODULE = "RemocModel.Props.C01"
LEAN_EXES = ["link"]
HARNESS_BINS = ["mux"]
THEOREMS = [
    "Remoc.Link.sender_emits_completed",
    "Remoc.Link.receiver_delivers_consumed",
    "Remoc.Link.consumed_prefix_of_emitted",
    "Remoc.Link.delivery_exact",
    "Remoc.Link.delivery_complete",
    "Remoc.Link.cancel_atomic",
    "Remoc.Link.receive_enabled",
    "Remoc.Link.sinv_step",
    "Remoc.Link.rinv_step",
    "Remoc.Link.inv_step",
]
RULE = ("scripts on two real chmux endpoints over script-owned wires: (exact mode) one-directional traffic of whole sends, "
        "try-sends, chunk streams (finish/final/dropped) and port batches with sizes on the boundaries of chunk size, receive "
        "buffer and max_data_size, cancels at quiescent points, credit frames delivered one at a time - replayed step by step "
        "on M_link (frames, API results, pool/used probes must coincide); (burst mode) both directions, several ports, stalled "
        "sinks, delayed deliveries, cancels - predicate only. A trace is non-trivial if at least one multi-frame message or "
        "one cancellation reached the wire; distinct = distinct sequence of ops and API results.")
TRUSTED_BASE = [
    "M_link (lean/RemocModel/Link/Model.lean): hand-written LTS of sender.rs/credit.rs/receiver.rs/mux.rs for one port direction; "
    "the five queues between sender and receiver are abstracted to one FIFO; override_graceful_close not modelled",
    "the receiving caller follows the documented protocol (recv_chunk until None/Cancelled after Received::Chunks) in the theorems; "
    "a caller that receives again instead (declining the rest of the message) is covered by the correspondence run only (`recvskip`)",
    "harness (harness/src/world.rs, transport.rs) and driver (lean/Driver/Link.lean)",
]
ASSUMPTIONS = ["Tokio mpsc queues are FIFO; single-threaded paused runtime: sleep(1ns) returns at quiescence"]
LEVEL_TEXT = ("Lean 4 theorems over M_link for all label lists (all message sizes, configurations, interleavings, cancellation "
              "points): the frames emitted carry exactly the completed sends (sender invariant), recv_any/recv_chunk hand out "
              "exactly the ideal reassembly of any consumed frame sequence (receiver invariant), FIFO; hence delivered is always a "
              "prefix of completed and equal at quiescence; cancel adds nothing. Tied to the code by exact step-by-step replay of "
              "real traces on the model plus the delivered=completed predicate evaluated on the real traces.")
LEVEL_NOTE = ("Trusted: Lean kernel, the hand-written M_link and its granularity (one label per await-free block), harness/driver. "
              "Eventual delivery assumes scheduler fairness (receive_enabled + delivery_complete give progress and completeness at "
              "quiescence).")
TECHNIQUE = "Lean 4 invariant proofs over an LTS model + exact trace replay and predicate check against the real crate"
DESIGN_REF = "DESIGN.md section 5, C01"


def run(ctx, replay=None):
    run_link(ctx, replay)
