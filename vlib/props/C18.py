"""C18 — I/O channels deliver exactly the written bytes; short streams are errors (M_io)."""
import glob, hashlib, os, re

LEAN_MODULE = "RemocModel.Props.C18"
LEAN_EXES = ["io"]
HARNESS_BINS = ["io"]
THEOREMS = [
    "Remoc.Io.bytes_exact",
    "Remoc.Io.bytes_exact_outputs",
    "Remoc.Io.eof_only_when_complete",
    "Remoc.Io.eof_when_complete_sized",
    "Remoc.Io.eof_when_complete_unsized",
    "Remoc.Io.overlong_refused",
    "Remoc.Io.overlong_never_accepted",
    "Remoc.Io.short_is_error",
    "Remoc.Io.short_unsized_reader_gets_error",
    "Remoc.Io.short_sized_reader_gets_error",
    "Remoc.Io.short_sized_shutdown_is_error",
    "Remoc.Io.size_wait_after_data_end",
    "Remoc.Io.eof_sticky",
    "Remoc.Io.short_sized_error_sticky",
    "Remoc.Io.ended_stream_decides",
    "Remoc.Io.flush_hands_over",
    "Remoc.Io.shutdown_announces_total",
    "Remoc.Io.read_loop_terminates",
    "Remoc.Io.run_ghost",
    "Remoc.Io.inv_step",
    "Remoc.Io.shape_step",
    "Remoc.Io.end_step",
    "Remoc.Io.inv_reachable",
]
RULE = ("scripts against the real rch::io channel across a real connection (remoc::Connect::io over tokio::io::duplex, "
        "chmux::Cfg with chunk sizes 10..64 and receive buffers 8..256, different per endpoint): sized/unsized, the receiver "
        "or the sender shipped to the peer, a half bounced back through the peer (forwarding), both halves shipped; shipped "
        "through the base channel, an rch::mpsc or an rch::oneshot; random byte strings (0..400 bytes, sizes around chunk "
        "size and receive buffer) partitioned into write / write_all calls (empty ones included) with flushes, reads with "
        "buffers of 0,1,2,3,chunk-1,chunk,chunk+1,receive buffer,1000 bytes, arbitrary interleaving of the two sides, endings: "
        "shutdown (+ further calls), flush+drop, drop without flush, sender stops at any offset, over-long writes, sender "
        "stays silent, receiver dropped early, connection cut at any point, write/read calls cancelled while pending, the "
        "sender object shipped on to the other endpoint in mid-stream (flushed or with a chunk in flight); settled and "
        "unsettled (burst) schedules. Every "
        "API result and accessor is replayed on M_io and the predicates (prefix at every read, EOF decision table in both "
        "directions, size bound, accessors, hangs, panics) are evaluated on the real results. A case is non-trivial if at least one byte was accepted "
        "and the reader either reached a decision (EOF or error) or completed two reads with data; distinct = distinct "
        "sequence of calls and results.")
TRUSTED_BASE = [
    "M_io (lean/RemocModel/Io/Model.lean): hand-written LTS of rch/io/{sender,receiver}.rs, one label per poll; the binary "
    "channel underneath is the abstract port (FIFO of whole messages, end-of-stream after the data) that C01 establishes; "
    "flow control and the connect phase only delay operations and are not modelled",
    "fault labels cut/notice/lose/loseSize/sever are the environment's; the trace does not show them, the driver picks them "
    "lazily among the enabled ones",
    "harness (harness/src/bin/io.rs) and driver (lean/Driver/Io.lean)",
]
ASSUMPTIONS = ["the port below delivers whole messages in order (C01) and fails stop (C06)",
               "single-threaded paused Tokio runtime: sleep(1ns) returns at quiescence, a one-hour sleep detects hangs"]
LEVEL_TEXT = ("Lean 4 theorems over M_io for all label lists (all byte strings, all partitions into writes, flushes and reads, "
              "all interleavings, drops and faults): bytes read are always a prefix of bytes accepted and equal once end-of-file "
              "was reported; end-of-file is reported iff the total equals the fixed or announced size; over-long writes are "
              "refused with nothing accepted; a stream that ends short makes the reader fail, never end silently. Tied to the "
              "code by step-by-step replay of real runs on the model plus the predicates evaluated on the real results.")
LEVEL_NOTE = ("Trusted: Lean kernel, the hand-written M_io and its granularity (one label per poll), the abstract port "
              "(justified by C01/C06), harness and driver. The correspondence run is bounded by its generators.")
TECHNIQUE = "Lean 4 invariant proofs over an LTS model + exact replay and predicate check against the real crate"
DESIGN_REF = "DESIGN.md section 5, C18"

VERIF = os.path.dirname(os.path.dirname(os.path.dirname(os.path.abspath(__file__))))


def split_cases(trace_path):
    """-> {name: (script_lines, trace_lines)}"""
    cases, script, cur, name = {}, [], None, None
    with open(trace_path) as f:
        for line in f:
            line = line.rstrip("\n")
            if line.startswith("# "):
                if line.startswith("# case "):
                    script = []
                script.append(line[2:])
            elif line.startswith("case "):
                name = line.split()[1]
                cur = [line]
                cases[name] = (script, cur)
                script = []
            elif cur is not None:
                cur.append(line)
    return cases


def run(ctx, replay=None):
    quick = ctx.tier == "quick"
    jobs = []
    if replay:
        jobs.append(("replay", ["run", replay], None))
    else:
        files = sorted(glob.glob(os.path.join(VERIF, "corpus", "C18", "*.ops")))
        if files:
            jobs.append(("corpus", ["run"] + files, None))
        parts = 4 if quick else 16
        per = 600 if quick else 12500
        for i in range(parts):
            jobs.append(("gen%d" % i, ["gen", per], ctx.seed * 1000 + i))
    total, nontrivial, hashes, samples = 0, 0, set(), []
    stats, outcomes = {}, {}
    fails, diffs = [], []
    for name, args, seed in jobs:
        rc, err, trace = ctx.harness("io", args, out_path=os.path.join(ctx.workdir, "%s.trace" % name), seed=seed)
        if rc != 0:
            ctx.violation("io harness crashed: " + err[-300:], "io-harness-crash", err[-4000:], name="io-crash.txt", no_input=True)
            continue
        for k, v in ctx.stat_lines(err).items():
            # (the start-up probe result is a flag, not a count)
            stats[k] = max(stats.get(k, 0), v) if k == "both_halves_supported" else stats.get(k, 0) + v
        rc, lines = ctx.driver("io", trace)
        if rc != 0 or not any(l.startswith("TOTAL ") for l in lines):
            ctx.violation("io model driver failed", "io-driver-failure", "\n".join(lines[-30:]), no_input=True)
            continue
        cases = split_cases(trace)
        verdict = {}
        for l in lines:
            if l.startswith(("DIFF ", "FAIL ")):
                verdict.setdefault(l.split()[1], []).append(l)
            elif l.startswith("END "):
                m = re.match(r"END (\S+) events=(\d+) replay=(\w+) pred=(\w+) outcome=(\w+) accepted=(\d+) received=(\d+) segreads=(\d+) lazy=(\d+) cancels=(\d+)", l)
                if not m:
                    continue
                cname = m.group(1)
                total += 1
                outcomes[m.group(5)] = outcomes.get(m.group(5), 0) + 1
                stats["reads.partial-slice"] = stats.get("reads.partial-slice", 0) + int(m.group(8))
                stats["env-labels-inferred"] = stats.get("env-labels-inferred", 0) + int(m.group(9))
                stats["calls-cancelled-while-pending"] = stats.get("calls-cancelled-while-pending", 0) + int(m.group(10))
                script, tl = cases.get(cname, ([], []))
                if m.group(4) != "ok":
                    fails.append((cname, verdict.get(cname, []), script, tl))
                elif m.group(3) != "ok":
                    diffs.append((cname, verdict.get(cname, []), script, tl))
                canon = "\n".join(x for x in tl if x.startswith(("call ", "ret ", "drop ", "cut", "hang ", "cancelled ")))
                datareads = sum(1 for x in tl if x.startswith("ret r ") and " ok " in x and not x.endswith(" ok -"))
                decided = m.group(5) in ("eof", "error")
                if int(m.group(6)) > 0 and (decided or datareads >= 2):
                    h = hashlib.sha1(canon.encode()).hexdigest()
                    if h not in hashes:
                        hashes.add(h)
                        nontrivial += 1
                        if len(samples) < 3 and name != "corpus" and nontrivial % 41 == 1:
                            samples.append({"case": cname, "script": script[:30], "outcome": m.group(5)})
    stats.update({"outcome." + k: v for k, v in outcomes.items()})
    for cname, detail, script, tl in fails[:5]:
        first = next((d for d in detail if d.startswith("FAIL")), "")
        what = first.split(" ", 3)[3] if len(first.split(" ", 3)) > 3 else first
        sig = "c18 " + re.sub(r"[0-9a-f]{4,}|\d+", "#", what)[:160]
        ctx.violation("C18 predicate fails on the real run %s: %s" % (cname, what), sig,
                      "# property C18 predicate failed on a real run of rch::io; replay with: ./check C18 --replay <this file>\n"
                      "# %s\n%s\n# --- driver output ---\n# %s\n# --- trace ---\n# %s\n"
                      % (what, "\n".join(script), "\n# ".join(detail), "\n# ".join(tl)))
    if diffs and not fails:
        cname, detail, script, tl = diffs[0]
        ctx.violation("rch::io no longer behaves like M_io on %d case(s) (first: %s: %s) but the C18 predicates hold on "
                      "every real run explored" % (len(diffs), cname, detail[0] if detail else ""),
                      "replay-mismatch",
                      "# correspondence M_io <-> rch/io broken (theorems of C18 are about the model; the code no longer matches it)\n"
                      "# no input was found on which the property predicate itself fails\n%s\n# --- driver output ---\n# %s\n"
                      "# --- trace ---\n# %s\n" % ("\n".join(script), "\n# ".join(detail), "\n# ".join(tl)),
                      name="correspondence-M_io.txt", no_input=True)
    ctx.coverage.update({
        "evaluations": total,
        "distinct_nontrivial": nontrivial,
        "traces_validated_against_impl": total,
        "samples": samples,
        "input_distribution": stats,
    })
