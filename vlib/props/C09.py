"""C09 — wire format of protocol version 3 (M_wire)."""
import os, re

LEAN_MODULE = "RemocModel.Props.C09"
LEAN_EXES = ["wire"]
HARNESS_BINS = ["wire", "mux", "stream"]
THEOREMS = [
    "Remoc.Wire.decode_encode",
    "Remoc.Wire.decCfg_minimums",
    "Remoc.Wire.decoded_hello_minimums",
    "Remoc.Wire.encode_injective",
    "Remoc.Wire.idless_accepted",
    "Remoc.Wire.no_ids_to_old_peer",
    "Remoc.Wire.ids_to_v3_peer",
    "Remoc.Wire.unframe_frame",
    "Remoc.Wire.unframe_incomplete",
    "Remoc.Wire.stream_roundtrip",
    "Remoc.Wire.stream_oversize_refused",
    "Remoc.Wire.encode_length_fixed",
    "Remoc.Wire.frame_fits_partial",
    "Remoc.Wire.frame_fits_fails_with_ids",
    "Remoc.Wire.hello_exceeds_budget_small_chunk",
]
RULE = ("(1) unit differential: messages of all 15 kinds in rotation with boundary/random field values, all flag "
        "combinations, port lists of 0..40 entries with/without ids -> real to_vec bytes must equal spec encode; "
        "byte strings (valid, truncated at every position, trailing bytes, one byte changed, flag-byte sweep, random) "
        "-> real read result (message or error kind) must equal spec decode, and whatever the real decoder accepts is "
        "re-encoded on both sides. A case is non-trivial if it is an enc line of a message with at least one field or "
        "a dec line of at least 2 bytes; distinct = distinct trace line. (2) on the wire: a real endpoint handshakes with a spec peer "
        "announcing version 1..4 (script-injected Hello), opens ports through its client with default and custom ids, sends port "
        "batches with default/custom ids split over several frames, data, closes; every frame it emits must be the canonical spec "
        "encoding of a message and OpenPort/PortData must carry exactly forPeer(version, api message) - no id flag below version 3, "
        "the right ids from version 3 (counted as non-trivial: id-relevant frames). (3) on a byte stream: a real Connect::io endpoint "
        "(chunk sizes 10..1024) over an in-memory duplex against a byte-level spec peer written from the layout only (its own frames "
        "are checked against the model's encode/frame on every run): the raw bytes the real endpoint writes must split, with the "
        "model's unframe, into complete frames - Reset, Hello(3, configured cfg), then canonical v3 messages, every Data header "
        "followed by one payload frame within the peer's chunk size; the endpoint must complete Connect::io and receive the echoed "
        "value when the peer's bytes arrive in arbitrary pieces, also when undecodable frames precede the peer's Reset/Hello; it then "
        "sends a 300-byte value (chunks of the peer's announced size, possibly above its own receive limit) and must stay alive; a frame of exactly chunk_size payload is accepted, a frame one "
        "byte above maxMsgLength + chunk_size ends the connection (every frame counted as non-trivial).")
TRUSTED_BASE = [
    "M_wire (lean/RemocModel/Wire/Model.lean) is a hand-written, pinned statement of the v3 layout; it is not generated from msg.rs",
    "hook chmux::verif_hooks (feature `verif`) forwards to MultiplexMsg::to_vec/read unchanged",
    "text form of messages (harness/src/wiretext.rs, lean/Driver/WireText.lean)",
    "the byte-level spec peer of harness/src/bin/stream.rs (its frames are re-checked against the model's encode/frame in the driver)",
]
ASSUMPTIONS = ["byteorder/std::io::Read behave as documented (short read = UnexpectedEof)"]


def run(ctx, replay=None):
    n = 4000 if ctx.tier == "quick" else 300000
    if replay:
        trace = replay
        stats = {}
    else:
        rc, err, trace = ctx.harness("wire", [n])
        stats = ctx.stat_lines(err)
        if rc != 0:
            ctx.violation("wire harness crashed (panic in the real codec?)", "wire-harness-crash rc=%d" % rc,
                          err[-4000:], name="wire-crash.txt")
            return
    rc, lines = ctx.driver("wire", trace)
    diffs = [l for l in lines if l.startswith("DIFF")]
    end = [l for l in lines if l.startswith("END")]
    total = 0
    if end:
        m = re.search(r"lines=(\d+) diffs=(\d+)", end[-1])
        total = int(m.group(1))
    if rc != 0 or not end:
        ctx.violation("model driver failed on the wire trace", "wire-driver-failure", "\n".join(lines[-50:]), no_input=True)
    # distinct non-trivial cases, measured on the trace itself
    seen, nontrivial, samples = set(), 0, []
    with open(trace) as f:
        for line in f:
            line = line.strip()
            if not line or line in seen:
                continue
            seen.add(line)
            w = line.split()
            if (w[0] == "enc" and len(w) > 4) or (w[0] == "dec" and len(w[1]) >= 4):
                nontrivial += 1
                if len(samples) < 6 and nontrivial % 97 == 1:
                    samples.append(line)
    for d in diffs[:20]:
        m = re.search(r"line=(\d+) (\w+)", d)
        kind = m.group(2) if m else "?"
        # signature: the kind of disagreement and the message kind / first byte concerned
        tail = d.split("::", 1)[1].strip() if "::" in d else d
        sig = "wire-%s %s" % (kind, " ".join(tail.split()[:2]))
        ctx.violation("real codec and v3 spec disagree: " + d, sig,
                      "One line of the differential trace on which the real wire codec and the Lean spec of protocol "
                      "version 3 disagree (left of '|' is the input, right the real result; 'spec=' is the model's):\n\n%s\n\n"
                      "replay: echo '<the part after ::>' | /verif/lean/.lake/build/bin/wire\n" % d)
    # ---- on the wire: a real endpoint talking to a spec peer that announces version 1..4
    peer_frames = id_frames = 0
    if not replay:
        n2 = 600 if ctx.tier == "quick" else 20000
        rc2, err2, trace2 = ctx.harness("mux", ["gen", "wirepeer", n2], out_path=os.path.join(ctx.workdir, "wirepeer.trace"),
                                        seed=ctx.seed * 1000 + 900)
        if rc2 != 0:
            ctx.violation("mux harness crashed", "mux-harness-crash", err2[-3000:], name="mux-crash.txt", no_input=True)
        else:
            rc2, lines2 = ctx.driver("wire", trace2)
            end2 = [l for l in lines2 if l.startswith("END")]
            if end2:
                m2 = re.search(r"frames=(\d+) idframes=(\d+)", end2[-1])
                peer_frames, id_frames = int(m2.group(1)), int(m2.group(2))
            for d in [l for l in lines2 if l.startswith("DIFF")][:20]:
                tail = d.split("::", 1)[0]
                kind = "peer-ids" if "peer the spec sends" in d else ("peer-undecodable" if "rejects" in d else "peer-noncanonical")
                tname = re.search(r"(wirepeer-\d+)", d)
                script = ""
                if tname:
                    with open(trace2) as f:
                        on = False
                        for line in f:
                            if line.startswith("trace "):
                                on = line.split()[1] == tname.group(1)
                            elif on and line.startswith("op "):
                                script += line[3:]
                ctx.violation("frames emitted by a real endpoint deviate from protocol v3 / version negotiation: " + tail,
                              "wire-" + kind,
                              "# a real endpoint handshaking with a spec peer emitted a frame that the v3 spec does not allow\n# %s\n%s"
                              % (d, script))
            total += peer_frames
            nontrivial += id_frames
    # ---- on a byte stream: a real `Connect::io` endpoint against a byte-level spec peer (length-prefix framing,
    # stream reassembly from arbitrary pieces, maximum frame length)
    stream_frames = 0
    if not replay:
        n3 = 90 if ctx.tier == "quick" else 3000
        rc3, err3, trace3 = ctx.harness("stream", [n3], out_path=os.path.join(ctx.workdir, "stream.trace"), seed=ctx.seed * 1000 + 950)
        if rc3 != 0:
            ctx.violation("stream harness crashed", "stream-harness-crash", err3[-3000:], name="stream-crash.txt", no_input=True)
        else:
            rc3, lines3 = ctx.driver("wire", trace3)
            end3 = [l for l in lines3 if l.startswith("END")]
            if end3:
                stream_frames = int(re.search(r"frames=(\d+)", end3[-1]).group(1))
            for d in [l for l in lines3 if l.startswith("DIFF")][:10]:
                tname = re.search(r"(stream-\d+)", d)
                case = ""
                if tname:
                    with open(trace3) as f:
                        on = False
                        for line in f:
                            if line.startswith("trace "):
                                on = line.split()[1] == tname.group(1)
                            if on:
                                case += line
                what = d.split(":", 2)[-1].strip() if tname else d
                sig = "wire-stream " + re.sub(r"[0-9a-f]{6,}|\d+", "#", what)[:120]
                ctx.violation("a real Connect::io endpoint deviates from the length-prefixed v3 byte stream: " + d, sig,
                              "# byte-level exchange between a real Connect::io endpoint and a spec peer (sbytes = raw bytes the real\n"
                              "# endpoint wrote; enc/frm = frames the spec peer wrote); replay: lean/.lake/build/bin/wire < this file\n# %s\n%s" % (d, case))
            total += stream_frames
            nontrivial += stream_frames
    ctx.coverage.update({
        "stream_frames_checked": stream_frames,
        "peer_frames_checked": peer_frames,
        "peer_id_carrying_frames_checked": id_frames,
        "evaluations": total,
        "distinct_nontrivial": nontrivial,
        "samples": samples,
        "input_distribution": stats,
        "traces_validated_against_impl": total,
    })

LEVEL_TEXT = ("Machine-checked Lean 4 theorems over the pinned spec codec M_wire: round trip decode(encode m)=m for every "
              "well-formed message (all kinds, flags, field values, port lists with/without ids), injectivity, id-less "
              "variants accepted, no id flag towards peers below version 3, length-prefix framing round trip, frame "
              "budget (partial, with kernel-checked counterexamples for finding F11). The model is tied to the code on every "
              "run by a unit-level differential of the real MultiplexMsg codec against the spec (both directions, error kinds "
              "included), by decoding every frame real endpoints emit towards spec peers of version 1..4, and by unframing the raw "
              "byte stream of a real Connect::io endpoint with the model's unframe.")
LEVEL_NOTE = ("Trusted: Lean kernel + {propext, Classical.choice, Quot.sound}; the hand-written M_wire as the statement of "
              "protocol v3; the verif_hooks forwarding functions; the text form used on the line protocol. The theorems are "
              "about the model; the differential (bounded by its generators) is what relates it to msg.rs.")
TECHNIQUE = "Lean 4 proof over hand-written spec codec + differential correspondence with the real codec"
DESIGN_REF = "DESIGN.md section 5, C09"
