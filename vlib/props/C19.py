"""C19 — abandoned or failing calls are cancelled and never wedge the server (M_rtc)."""
from vlib.rtccheck import run_rtc
from vlib.rfncheck import run_rfn, merge_coverage

LEAN_MODULE = "RemocModel.Props.C19"
LEAN_EXES = ["rtc", "rfn"]
HARNESS_BINS = ["rtc", "rfn"]
THEOREMS = [
    "Remoc.Rtc.cancel_at_next_await",
    "Remoc.Rtc.cancel_enabled",
    "Remoc.Rtc.no_cancel_runs_on",
    "Remoc.Rtc.lock_released_on_cancel",
    "Remoc.Rtc.lock_held_only_while_executing",
    "Remoc.Rtc.serve_stops_only_for_cause",
    "Remoc.Rtc.serve_keeps_running",
    "Remoc.Rtc.back_in_receive_state_after_cancel",
    "Remoc.Rtc.loop_untouched_by_spawned_cancel",
    "Remoc.Rtc.back_in_receive_state_after_undecodable",
    "Remoc.Rtc.nothing_pending_at_quiescence",
    "Remoc.Rtc.error_has_cause",
    "Remoc.Rtc.later_calls_complete",
    "Remoc.Rtc.f6_oversize_reply_stops_server",
    "Remoc.Rtc.f10_oversize_request_poisons_client",
    "Remoc.Rtc.fullinv_of_reachable",
    # remote functions (M_rfn)
    "Remoc.Rfn.rfn_no_pending_at_quiescence",
    "Remoc.Rfn.rfn_error_has_cause",
    "Remoc.Rfn.rfn_provider_stops_only_for_cause",
    "Remoc.Rfn.rfn_provider_keeps_serving",
    "Remoc.Rfn.rfn_calls_complete",
    "Remoc.Rfn.rfn_cancel_at_next_await",
    "Remoc.Rfn.rfn_cancel_enabled",
    "Remoc.Rfn.rfn_cancel_at_next_await_partial",
    "Remoc.Rfn.rfn_f1_not_cancelled_pinned",
    "Remoc.Rfn.inv_of_reachable",
]
RULE = ("same real runs as C12 (all server flavours and spawn modes, local and transported clients, hand-driven gates): call futures "
        "dropped before queueing / queued / waiting for the lock / executing / with the reply in flight, cancellable and #[no_cancel] "
        "methods, over-size requests and replies (small max_item_size), methods the server's trait version does not know, "
        "OnReqReceiveError::Fail, connection loss. Predicates on the real execution log and client history: a cancellable execution "
        "takes no method step after the quiescent point following the drop of its caller and is gone by then, #[no_cancel] executions "
        "are never dropped, the target RwLock is free whenever no execution is in progress, serve() keeps running, every call without "
        "a reason of its own to fail returns a value, nothing hangs; plus acceptance of every run on M_rtc. A case is non-trivial if a "
        "call was abandoned, an execution dropped, a call failed or the connection was cut; distinct = distinct stimuli and results.")
TRUSTED_BASE = [
    "M_rtc (lean/RemocModel/Rtc/Model.lean), see C12; liveness is judged at quiescence with method bodies making progress on their own",
    "harness (harness/src/rtcworld.rs, rtcgens.rs) and driver (lean/Driver/Rtc.lean)",
]
ASSUMPTIONS = ["single-threaded paused Tokio runtime: sleep(1ns) returns at quiescence (hang detection: what is pending then never completes)"]
LEVEL_TEXT = ("Lean 4 theorems over M_rtc for all label lists / flavours / policies: after the reply sender observes closed() a cancellable "
              "execution takes no further method step in any continuation, the cancelled execution releases its lock and the lock is only "
              "ever held by executing requests, serve() returns only for one of four causes (so cancelled calls, undecodable requests, "
              "unknown methods, over-size requests never stop it), at quiescence nothing is pending and every call without a cause of its "
              "own has a value. The snapshot stopped the server on an over-size reply (defect F6, repaired in /repo f05ad37; the runs are now "
              "accepted by the model's `fixed` variant and reverting the repair is reported) and the code fails a client permanently after "
              "an over-size request (known finding F10): kernel-checked witnesses, F10 reproduced from the real code on every run.")
LEVEL_NOTE = ("Trusted: Lean kernel, M_rtc, harness/driver. Eventual completion assumes scheduler fairness; the harness's quiescence "
              "detector checks it on the real runs.")
TECHNIQUE = "Lean 4 invariant proofs over an LTS model + trace acceptor and execution-log predicates against the real crate"
DESIGN_REF = "DESIGN.md section 5, C19"


def run(ctx, replay=None):
    # a replay file is an rtc script or an rfn script (header `case <name> fl=...`)
    is_rfn = False
    if replay:
        with open(replay) as f:
            is_rfn = any(l.startswith("case ") and " fl=" in l for l in f)
    if not is_rfn:
        run_rtc(ctx, "c19", replay)
    if is_rfn or not replay:
        merge_coverage(ctx, run_rfn(ctx, "c19", replay))
