"""C19 — abandoned or failing calls are cancelled and never wedge the server (M_rtc, M_rfn)."""
from vlib.rtccheck import run_rtc
from vlib.rfncheck import run_rfn, merge_coverage

LEAN_MODULE = "RemocModel.Props.C19"
LEAN_EXES = ["rtc", "rfn"]
HARNESS_BINS = ["rtc", "rfn"]
THEOREMS = [
    "Remoc.Rtc.cancel_at_next_await",
    "Remoc.Rtc.cancel_enabled",
    "Remoc.Rtc.no_cancel_runs_on",
    "Remoc.Rtc.lock_released_on_cancel",
    "Remoc.Rtc.lock_held_only_while_executing",
    "Remoc.Rtc.serve_stops_only_for_cause",
    "Remoc.Rtc.serve_keeps_running",
    "Remoc.Rtc.back_in_receive_state_after_cancel",
    "Remoc.Rtc.loop_untouched_by_spawned_cancel",
    "Remoc.Rtc.back_in_receive_state_after_undecodable",
    "Remoc.Rtc.nothing_pending_at_quiescence",
    "Remoc.Rtc.error_has_cause",
    "Remoc.Rtc.later_calls_complete",
    "Remoc.Rtc.f6_oversize_reply_stops_server",
    "Remoc.Rtc.f10_oversize_request_poisons_client",
    "Remoc.Rtc.fullinv_of_reachable",
    # remote functions (M_rfn)
    "Remoc.Rfn.rfn_no_pending_at_quiescence",
    "Remoc.Rfn.rfn_error_has_cause",
    "Remoc.Rfn.rfn_provider_stops_only_for_cause",
    "Remoc.Rfn.rfn_provider_keeps_serving",
    "Remoc.Rfn.rfn_calls_complete",
    "Remoc.Rfn.rfn_internal_steps_terminate",
    "Remoc.Rfn.rfn_cancel_at_next_await",
    "Remoc.Rfn.rfn_cancel_enabled",
    "Remoc.Rfn.rfn_cancel_at_next_await_partial",
    "Remoc.Rfn.rfn_f1_not_cancelled_pinned",
    "Remoc.Rfn.inv_of_reachable",
]
RULE = ("same real runs as C12 (all server flavours and spawn modes, local and transported clients, hand-driven gates): call futures "
        "dropped before queueing / queued / waiting for the lock / executing / with the reply in flight, cancellable and #[no_cancel] "
        "methods, over-size requests and replies (small max_item_size), methods the server's trait version does not know, "
        "OnReqReceiveError::Fail, connection loss. Predicates on the real execution log and client history: a cancellable execution "
        "takes no method step after the quiescent point following the drop of its caller and is gone by then, #[no_cancel] executions "
        "are never dropped, the target RwLock is free whenever no execution is in progress, serve() keeps running, every call without "
        "a reason of its own to fail returns a value, nothing hangs; plus acceptance of every run on M_rtc. A case is non-trivial if a "
        "call was abandoned, an execution dropped, a call failed or the connection was cut; distinct = distinct stimuli and results. "
        "Remote functions (second stage, same real runs as the rfn stage of C12): call futures dropped before queueing / queued behind "
        "an executing request / waiting for a semaphore permit / executing / with the result in flight, provider dropped with calls "
        "queued and executing, connection cut, handles dropped, requests and results that cannot be (de)serialised. Predicates: no call "
        "is pending at the final quiescent point (hang detection), an execution takes no step after the quiescent point that follows "
        "the drop of its caller or the loss of its connection, every call without a reason of its own to fail (provider dropped, "
        "connection lost, sender failed by an unserialisable argument, untransmittable argument/result, handle gone, RFnOnce used) "
        "returns a value; plus replay on M_rfn (variant cancel=true: the tree carries the repair of F-RFN-1; the behaviour of cancel=false is a regression). "
        "Non-trivial: a call was abandoned or failed, the provider was dropped or the connection cut.")
TRUSTED_BASE = [
    "M_rtc (lean/RemocModel/Rtc/Model.lean), see C12; liveness is judged at quiescence with method bodies making progress on their own",
    "harness (harness/src/rtcworld.rs, rtcgens.rs) and driver (lean/Driver/Rtc.lean)",
    "M_rfn (lean/RemocModel/Rtc/Rfn.lean), see C12; liveness judged at quiescence with the function body making progress on its own "
    "(execStep internal), rfn harness (harness/src/rfnworld.rs) and driver (lean/Driver/Rfn.lean)",
]
ASSUMPTIONS = ["single-threaded paused Tokio runtime: sleep(1ns) returns at quiescence (hang detection: what is pending then never completes)"]
LEVEL_TEXT = ("Lean 4 theorems over M_rtc for all label lists / flavours / policies: after the reply sender observes closed() a cancellable "
              "execution takes no further method step in any continuation, the cancelled execution releases its lock and the lock is only "
              "ever held by executing requests, serve() returns only for one of four causes (so cancelled calls, undecodable requests, "
              "unknown methods, over-size requests never stop it), at quiescence nothing is pending and every call without a cause of its "
              "own has a value. The snapshot stopped the server on an over-size reply (defect F6, repaired in /repo f05ad37; the runs are now "
              "accepted by the model's `fixed` variant and reverting the repair is reported) and the code fails a client permanently after "
              "an over-size request (known finding F10): kernel-checked witnesses, F10 reproduced from the real code on every run. "
              "Remote functions (M_rfn, all label lists, all three flavours): at quiescence no call is pending, every call has a value or an "
              "error (rfn_no_pending_at_quiescence: after provider drop, connection loss or a failed send the request and with it its "
              "result sender are dropped), internal steps terminate (rfn_internal_steps_terminate, explicit measure), errors have causes "
              "and calls without one return values (rfn_error_has_cause, rfn_calls_complete), the provider task ends only for a cause "
              "(rfn_provider_stops_only_for_cause, rfn_provider_keeps_serving). Cancellation: proved for the documented behaviour "
              "(rfn_cancel_at_next_await, rfn_cancel_enabled on the variant cancel=true), which is the behaviour of the current tree since "
              "the repair of defect F-RFN-1 in /repo (51fee8b: the three providers race the function against result_tx.closed()); the "
              "code before the repair is the variant cancel=false (kernel-checked witness rfn_f1_not_cancelled_pinned, "
              "rfn_cancel_at_next_await_partial states what held there) and is reported as a violation if it returns.")
LEVEL_NOTE = ("Trusted: Lean kernel, M_rtc, M_rfn, harnesses/drivers. Eventual completion assumes scheduler fairness; the harness's quiescence "
              "detector checks it on the real runs. Remote functions are replayed against M_rfn with cancel=true (F-RFN-1 repaired).")
TECHNIQUE = "Lean 4 invariant proofs over an LTS model + trace acceptor and execution-log predicates against the real crate"
DESIGN_REF = "DESIGN.md section 5, C19"


def run(ctx, replay=None):
    # a replay file is an rtc script or an rfn script (header `case <name> fl=...`)
    is_rfn = False
    if replay:
        with open(replay) as f:
            is_rfn = any(l.startswith("case ") and " fl=" in l for l in f)
    if not is_rfn:
        run_rtc(ctx, "c19", replay)
    if is_rfn or not replay:
        merge_coverage(ctx, run_rfn(ctx, "c19", replay))
