"""C07 — orderly shutdown and reclamation of ports and tasks (M_table, M_pair)."""
from vlib.conncheck import run_conn

LEAN_MODULE = "RemocModel.Props.C07"
LEAN_EXES = ["conn"]
HARNESS_BINS = ["mux"]
THEOREMS = [
    "Remoc.OneWay.no_reference_after_free",
    "Remoc.OneWay.finished_implies_dropped",
    "Remoc.OneWay.inv_step",
    "Remoc.Table.free_iff_four_flags",
    "Remoc.Table.port_leaves_only_when_free_evt",
    "Remoc.Table.allocInv_alloc",
    "Remoc.Table.allocInv_handleRx",
    "Remoc.Table.terminate_iff",
    "Remoc.Table.Sys.no_frame_for_absent_port",
    "Remoc.Table.Sys.freed_port_unreferenced",
    "Remoc.Table.Sys.clean_termination",
    "Remoc.Table.Sys.clean_termination_reclaims",
    "Remoc.Table.Sys.internal_steps_terminate",
    "Remoc.Table.Sys.wireInvB_reachable",
]
RULE = ("settle-separated scripts on two real endpoints: concurrent connects (wait and no-wait), accepts, inspected requests "
        "accepted/rejected/dropped, port batches over ports, cancelled calls, drops of senders/receivers/clients/listeners in "
        "random order, max_ports 1..8, connect_queue 1..3, queues of length 1; 'cycles' scripts repeat open/label/close rounds. "
        "Both dispatchers are replayed on M_table. Predicates on the real run: port numbers on the wire never reused while open "
        "and never more than max_ports, after every round the allocator's free count equals max_ports minus the ports the model "
        "holds and equals max_ports once listeners are gone, both run() results Ok without closing the transport, live task "
        "count back to the value before the connection, no call pending. Non-trivial: >= 2 ports established; distinct = "
        "distinct script.")
TRUSTED_BASE = [
    "M_table (handle_event / handle_received_msg / maybe_free_port / should_terminate as total functions) and M_pair (one port direction over a FIFO)",
    "the two-endpoint system model lean/RemocModel/Table/Conn.lean (API objects of a conforming application, FIFO wires, one label "
    "per await-free block; the dispatcher handles no local event after it sent Goodbye and no message after it received Goodbye); "
    "the exit of run() (dropping the ChMux with whatever is left in its table and queues) is not a label of the model",
    "the connection is a FIFO in each direction; Tokio's task accounting (num_alive_tasks)",
    "harness world and lean/Driver/Conn.lean",
]
ASSUMPTIONS = ["single-threaded paused runtime: sleep(1ns) returns at quiescence"]
LEVEL_TEXT = ("Lean 4 theorems. Single direction / single step: nothing is in flight towards an endpoint once it has seen SendFinish "
              "and ReceiveFinish, the entry is released only in the step that sets the fourth flag, allocator discipline, the "
              "Goodbye condition. Over the two-endpoint system model, for ALL label lists and any max_ports / connect_queue: "
              "nothing is ever in flight for a port number that is not in the receiver's table, so a freed port is unreferenced "
              "at the moment it is freed (safe reuse); clean termination: once every API object of both sides is dropped and no "
              "internal label is enabled, both dispatchers have sent and received Goodbye, nothing is in flight and no connected "
              "port entry is left in either table, and where no request issued after the peer's Goodbye is left the table is empty "
              "and every port number is free; a potential function strictly decreases with every internal step (no livelock). "
              "Tied to the code by replaying both real dispatchers on the model, by evaluating the decidable form of the global "
              "invariant (pairing, one finish per flag, no frame for a port that is not in the table, connection flags, Goodbye "
              "only when should_terminate holds) after every frame of the real traces, and by reclamation predicates on real runs "
              "(allocator capacity, run results, task count).")
LEVEL_NOTE = ("Partial: 'both dispatchers return Ok' and 'no background task left' are runtime facts checked on the explored runs; "
              "what is left in a table when run() returns (requests issued after the peer's Goodbye) is dropped with the ChMux "
              "object, which the model does not represent; 'eventually' rests on weak fairness of the scheduler.")
TECHNIQUE = "Lean 4 invariant proofs (FIFO port-direction model, dispatcher functions, two-endpoint labelled transition system with a global invariant and a termination measure) + two-endpoint trace replay, global-invariant and reclamation predicates on the real crate"
DESIGN_REF = "DESIGN.md section 5, C07"


def run(ctx, replay=None):
    run_conn(ctx, replay)
