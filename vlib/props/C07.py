"""C07 — orderly shutdown and reclamation of ports and tasks (M_table, M_pair)."""
from vlib.conncheck import run_conn

LEAN_MODULE = "RemocModel.Props.C07"
LEAN_EXES = ["conn"]
HARNESS_BINS = ["mux"]
THEOREMS = [
    "Remoc.OneWay.no_reference_after_free",
    "Remoc.OneWay.finished_implies_dropped",
    "Remoc.OneWay.inv_step",
    "Remoc.Table.free_iff_four_flags",
    "Remoc.Table.port_leaves_only_when_free_evt",
    "Remoc.Table.allocInv_alloc",
    "Remoc.Table.allocInv_handleRx",
    "Remoc.Table.terminate_iff",
    "Remoc.Table.Sys.no_frame_for_absent_port",
    "Remoc.Table.Sys.freed_port_unreferenced",
    "Remoc.Table.Sys.clean_termination",
    "Remoc.Table.Sys.clean_termination_reclaims",
    "Remoc.Table.Sys.internal_steps_terminate",
]
RULE = ("settle-separated scripts on two real endpoints: concurrent connects (wait and no-wait), accepts, inspected requests "
        "accepted/rejected/dropped, port batches over ports, cancelled calls, drops of senders/receivers/clients/listeners in "
        "random order, max_ports 1..8, connect_queue 1..3, queues of length 1; 'cycles' scripts repeat open/label/close rounds. "
        "Both dispatchers are replayed on M_table. Predicates on the real run: port numbers on the wire never reused while open "
        "and never more than max_ports, after every round the allocator's free count equals max_ports minus the ports the model "
        "holds and equals max_ports once listeners are gone, both run() results Ok without closing the transport, live task "
        "count back to the value before the connection, no call pending. Non-trivial: >= 2 ports established; distinct = "
        "distinct script.")
TRUSTED_BASE = [
    "M_table (handle_event / handle_received_msg / maybe_free_port / should_terminate as total functions) and M_pair (one port direction over a FIFO)",
    "the connection is a FIFO in each direction; Tokio's task accounting (num_alive_tasks)",
    "harness world and lean/Driver/Conn.lean",
]
ASSUMPTIONS = ["single-threaded paused runtime: sleep(1ns) returns at quiescence"]
LEVEL_TEXT = ("Lean 4 theorems: for every schedule of a port direction nothing is in flight towards an endpoint once it has seen "
              "SendFinish and ReceiveFinish (so releasing the number on four flags is safe) and the entry is released only in the "
              "step that sets the fourth flag; allocator discipline (distinct numbers, <= max_ports) is preserved by every "
              "received message and allocation; the Goodbye condition is characterised. Tied to the code by replaying both real "
              "dispatchers on the model and by reclamation predicates on real runs (allocator capacity, run results, task count).")
LEVEL_NOTE = ("Partial: 'both dispatchers finish Ok' and 'no background task left' are runtime facts checked on the explored runs "
              "only; the cross-endpoint liveness argument (Goodbye exchange) is not proved.")
TECHNIQUE = "Lean 4 invariant proofs (FIFO port-direction model, dispatcher functions) + two-endpoint trace replay and reclamation predicates on the real crate"
DESIGN_REF = "DESIGN.md section 5, C07"


def run(ctx, replay=None):
    run_conn(ctx, replay)
