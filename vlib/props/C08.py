"""C08 — robustness against an arbitrary or hostile peer (M_table)."""
import glob, hashlib, os, re

LEAN_MODULE = "RemocModel.Props.C08"
LEAN_EXES = ["table", "wire"]
HARNESS_BINS = ["mux", "stream", "wire"]
THEOREMS = [
    "Remoc.Table.buffer_bounded",
    "Remoc.Table.bufInv_run",
    "Remoc.Table.bufInv_handleRx",
    "Remoc.Table.bufInv_handleData",
    "Remoc.Table.peer_cannot_open_ports",
    "Remoc.Table.listen_queue_bounded",
    "Remoc.Table.Sys.conforming_no_protocol_error",
    "Remoc.Table.Sys.deliver_enabled",
    "Remoc.Table.Sys.conforming_no_panic",
    "Remoc.Wire.decoded_hello_minimums",
]
RULE = ("one real endpoint; the harness plays the peer and injects frames: a valid prefix (handshake incl. frames that must be "
        "ignored, ports opened from both sides, data within credit, local receive calls) followed by odd-but-legal frames and "
        "one violating frame drawn from 22 kinds (unknown code, truncated/empty frame, Hello/Reset after the handshake, data "
        "for unknown/connecting/finished ports, over chunk size, over credit, credit overflow, duplicate or too many OpenPort, "
        "PortOpened/Rejected for wrong ports, duplicate SendFinish/ReceiveClose, port batches with duplicates/oversize/over "
        "credit/without ports (flood), repeated ClientFinish, Goodbye); afterwards local API calls must all return. The model "
        "(handleRx/handleData/handleEvt) must take the same accept/terminate decision with the same error class at the same "
        "frame. Non-trivial: the trace reached a violating or terminating frame, or >= 3 ports/data frames were processed; "
        "distinct = distinct op sequence. Stream transports: a real Connect::io endpoint (chunk sizes 10..1024) receives, from a byte-level "
        "peer, a frame of exactly chunk_size payload bytes (must be accepted, connection alive) or a length prefix one above "
        "maxMsgLength + chunk_size (must end the connection instead of being buffered), judged with the model's unframe.")
TRUSTED_BASE = [
    "M_table (lean/RemocModel/Table/Model.lean): hand-written total functions for handle_received_msg / handle_event / "
    "maybe_free_port; the data plane inside a port is M_link",
    "M_wire decoder decides which injected byte strings are decodable",
    "harness world (one-sided start, frame injection with port-number placeholders) and lean/Driver/Table.lean",
]
ASSUMPTIONS = ["memory held for a port is proportional to the bytes and messages in its queue (RSS is not measured)"]
LEVEL_TEXT = ("Lean 4 theorems over M_table for every sequence of received messages, local events and receive calls: per port the "
              "undelivered data never exceeds the advertised receive buffer and the queue never exceeds buffer+1 messages; the "
              "listener queues never exceed connect_queue+1; received messages never create ports. handleRx is a total function: "
              "the accept/terminate decision for every message in every state is part of the model and is compared frame by "
              "frame with a real endpoint under grammar-generated hostile sequences; no panic, no API call left pending.")
LEVEL_TEXT = LEVEL_TEXT + (" Conforming-peer side: over the two-endpoint system model (lean/RemocModel/Table/Conn.lean) it is proved for "
                           "ALL interleavings of two conforming endpoints that the message at the head of either wire is always handled "
                           "without a protocol error (no 'too many OpenPort requests', no answer for a port that is not connecting, no "
                           "port message for an unknown port or a flag already set) and that every event the API objects queue is "
                           "handled by handle_event without reaching a panic branch.")
LEVEL_NOTE = ("Trusted: Lean kernel, hand-written M_table, harness/driver. 'Never panics' is established only by the explored "
              "sequences (panic hook), not by proof; memory is represented by queue lengths and credit counters.")
TECHNIQUE = "Lean 4 invariant proofs over a total transition function + frame-by-frame differential against a real endpoint fed hostile sequences"
DESIGN_REF = "DESIGN.md section 5, C08"


def run(ctx, replay=None):
    quick = ctx.tier == "quick"
    jobs = []
    root = os.path.dirname(os.path.dirname(os.path.dirname(os.path.abspath(__file__))))
    if replay:
        jobs.append(("replay", ["run", replay], None))
    else:
        files = sorted(glob.glob(os.path.join(root, "corpus", "C08", "*.ops")))
        if files:
            jobs.append(("corpus", ["run"] + files, None))
        n = 2500 if quick else 80000
        parts = 4 if quick else 16
        for i in range(parts):
            jobs.append(("hostile%d" % i, ["gen", "hostile", n // parts], ctx.seed * 1000 + 300 + i))
    total, nontrivial, hashes, samples = 0, 0, set(), []
    verdicts = {}
    fails, mismatches = [], []
    for name, args, seed in jobs:
        rc, err, trace = ctx.harness("mux", args, out_path=os.path.join(ctx.workdir, "%s.trace" % name), seed=seed)
        if rc != 0:
            ctx.violation("mux harness crashed: " + err[-300:], "mux-harness-crash", err[-4000:], name="mux-crash.txt", no_input=True)
            continue
        rc, lines = ctx.driver("table", trace)
        if rc != 0:
            ctx.violation("table driver failed", "table-driver-failure", "\n".join(lines[-30:]), no_input=True)
            continue
        cur, buf, traces = None, [], {}
        with open(trace) as f:
            for line in f:
                if line.startswith("trace "):
                    if cur is not None:
                        traces[cur] = buf
                    cur, buf = line.split()[1], []
                else:
                    buf.append(line)
        if cur is not None:
            traces[cur] = buf
        for line in lines:
            m = re.match(r"END (\S+) events=(\d+) replay=(\w+) c08=(\w+) verdict=(\S+)", line)
            if not m:
                continue
            tname, rep, c08, verdict = m.group(1), m.group(3), m.group(4), m.group(5)
            total += 1
            verdicts[verdict] = verdicts.get(verdict, 0) + 1
            tl = traces.get(tname, [])
            canon = "".join(l for l in tl if l.startswith(("op ", "injected ")))
            canon = re.sub(r"\b\d{6,}\b", "N", canon)
            h = hashlib.sha1(canon.encode()).hexdigest()
            frames = sum(1 for l in tl if l.startswith("injected "))
            if h not in hashes and (verdict != "none" or frames >= 5):
                hashes.add(h)
                nontrivial += 1
                if len(samples) < 3 and name != "corpus":
                    samples.append({"trace": tname, "verdict": verdict, "script": [l.strip()[3:] for l in tl if l.startswith("op ")][:30]})
            detail = [l for l in lines if l.startswith(("DIFF %s " % tname, "FAIL %s " % tname))]
            if c08 != "ok":
                fails.append((tname, detail, tl))
            elif rep != "ok":
                mismatches.append((tname, detail, tl))
    for tname, detail, tl in fails[:5]:
        first = next((d for d in detail if d.startswith("FAIL")), detail[0] if detail else "")
        what = re.sub(r"line=\d+ ", "", first.split(" ", 3)[3] if len(first.split(" ", 3)) > 3 else first)
        sig = "c08 " + re.sub(r"[0-9a-f]{6,}|\d+", "#", what)[:160]
        script = [l[3:] for l in tl if l.startswith("op ")]
        ctx.violation("c08 fails on the real trace %s: %s" % (tname, what), sig,
                      "# C08 predicate failed on a real endpoint fed this frame sequence; replay: ./check C08 --replay <this file>\n# %s\n%s\n"
                      "# --- driver output ---\n# %s\n# --- full trace ---\n# %s" % (what, "".join(script), "\n# ".join(detail), "# ".join(tl)))
    if mismatches and not fails:
        # group by the kind of disagreement
        tname, detail, tl = mismatches[0]
        script = [l[3:] for l in tl if l.startswith("op ")]
        ctx.violation("the real endpoint no longer takes the decisions of M_table on %d hostile trace(s) (first: %s: %s) but no C08 "
                      "predicate fails on any real trace explored" % (len(mismatches), tname, detail[0] if detail else ""),
                      "replay-mismatch",
                      "# correspondence M_table <-> chmux dispatcher broken\n%s\n# --- driver output ---\n# %s\n# --- trace ---\n# %s"
                      % ("".join(script), "\n# ".join(detail), "# ".join(tl)), name="correspondence-M_table.txt", no_input=True)
    # ---- stream transports: a real `Connect::io` endpoint must refuse a frame whose length prefix exceeds
    # maxMsgLength + chunk_size (it must not buffer it) and accept one of exactly chunk_size payload bytes
    stream_cases = 0
    if not replay:
        n3 = 60 if quick else 1500
        rc3, err3, trace3 = ctx.harness("stream", [n3], out_path=os.path.join(ctx.workdir, "stream.trace"), seed=ctx.seed * 1000 + 960)
        if rc3 != 0:
            ctx.violation("stream harness crashed", "stream-harness-crash", err3[-3000:], name="stream-crash.txt", no_input=True)
        else:
            rc3, lines3 = ctx.driver("wire", trace3)
            with open(trace3) as f:
                stream_cases = sum(1 for l in f if l.startswith("sframe "))
            for d in [l for l in lines3 if l.startswith("DIFF") and ("was accepted although the limit" in l or "ended the connection" in l)][:5]:
                tname = re.search(r"(stream-\d+)", d)
                case = ""
                if tname:
                    with open(trace3) as f:
                        on = False
                        for line in f:
                            if line.startswith("trace "):
                                on = line.split()[1] == tname.group(1)
                            if on:
                                case += line
                what = d.split(":", 2)[-1].strip()
                ctx.violation("c08 fails on a real Connect::io endpoint: " + what, "c08 stream " + re.sub(r"\d+", "#", what)[:120],
                              "# a real Connect::io endpoint fed by a byte-level peer (sbytes = what the endpoint wrote, enc/frm = what the peer wrote);\n"
                              "# the model's unframe(maxMsgLength + chunk_size) refuses the frame announced in the `sframe` line\n# %s\n%s" % (d, case))
            total += stream_cases
            nontrivial += stream_cases
    # ---- Hello validation: the C08 theorems assume that an accepted Hello carries chunk_size >= 4, port_receive_buffer >= 4
    # and connect_queue >= 1 (Wire.CfgValid; with a smaller chunk size Sender::connect computes a batch of 0 ports and never
    # finishes). The wire harness's boundary sweep decodes every combination of the smallest field values with the real
    # ExchangedCfg::read; the spec decoder must agree on each.
    hello_cases = 0
    if not replay:
        rc4, err4, trace4 = ctx.harness("wire", [0], out_path=os.path.join(ctx.workdir, "hello.trace"))
        if rc4 != 0:
            ctx.violation("wire harness crashed", "wire-harness-crash", err4[-3000:], name="wire-crash.txt", no_input=True)
        else:
            rc4, lines4 = ctx.driver("wire", trace4)
            with open(trace4) as f:
                hello_cases = sum(1 for l in f if l.startswith("dec "))
            bad = [l for l in lines4 if l.startswith("DIFF")]
            if bad:
                ctx.violation("c08 fails on the real Hello decoder: a Hello whose configuration is below the protocol minimums is "
                              "not refused (or a valid one is refused): " + bad[0][:200], "c08 hello-validation",
                              "# real ExchangedCfg::read against the v3 spec decoder (Wire.decode) on the Hello boundary sweep;\n"
                              "# each line: dec <frame bytes> | <real decoder result>; the driver's verdicts follow\n# %s\n%s"
                              % ("\n# ".join(bad[:20]), open(trace4).read()))
            total += hello_cases
            nontrivial += hello_cases
    ctx.coverage.update({
        "stream_frame_limit_cases": stream_cases,
        "hello_boundary_cases": hello_cases,
        "evaluations": total,
        "distinct_nontrivial": nontrivial,
        "traces_validated_against_impl": total,
        "samples": samples,
        "input_distribution": {"verdicts": verdicts},
    })
