"""C06 — fail-stop: transport failure at any point errors every operation, hangs nothing (M_conn)."""
import hashlib, os, re

LEAN_MODULE = "RemocModel.Props.C06"
LEAN_EXES = ["fault", "faultup"]
HARNESS_BINS = ["mux", "faultup"]
THEOREMS = [
    "Remoc.Conn.idle_not_torn_down",
    "Remoc.Conn.timedOut_false",
    "Remoc.Conn.silence_times_out",
    "Remoc.Conn.first_fault_terminates",
    "Remoc.Link.prefix_after_fault",
    "Remoc.Conn.terminated_all_error",
    "Remoc.Conn.terminated_nothing_pending",
    "Remoc.Conn.terminated_releases_ports",
    "Remoc.Conn.later_ops_error",
    "Remoc.Conn.later_user_owned_ok",
    "Remoc.Conn.api_after_termination",
    "Remoc.Conn.api_after_termination_err",
    "Remoc.Conn.termination_bounded",
    "Remoc.Conn.fault_or_silence_terminates",
]
RULE = ("fault enumeration on two real endpoints under a virtual clock (connection_timeout 400..10000 ms, different per side). "
        "(1) raw ports (mux faultsweep): for each workload (ports opened from both sides, multi-chunk sends, chunk streams, port batches, "
        "calls left pending: connect without accept, accept without connect, receive on an idle port, Sender::closed, a send larger than "
        "the receive buffer; calls started after the fault) a fault-free baseline counts the items on each wire, then one run per cut "
        "point (quick: every 2nd item index incl. inside the handshake and between a Data header and its payload; thorough: every index) x "
        "wire x {sink error, stream error, end of stream, one-directional stall, two-directional stall}; plus idle-but-healthy connections "
        "kept silent for 1000 timeouts. (2) layers above raw ports (faultup sweep): one workload over two remoc::Connect::framed "
        "connections on the same script-owned transport: rch::mpsc (two senders per channel, 300-byte items spanning many chunks, closed(), "
        "a sender blocked by back pressure), oneshot, watch (changed/borrow/send), broadcast, bin, lr in both directions, an rtc client "
        "(calls answered, one call kept in flight), an robs vector mirror, a remote RwLock (read, committed write, write in flight behind a "
        "held read guard), two Lazy values; variants: chunk 16/64/16384, rtc spawn on/off, wires that deliver at once or one item per "
        "virtual millisecond; every call of the traffic phase is in flight at some cut point, 17..18 calls are pending when the fault "
        "strikes late, 40 calls are started after both dispatchers have ended; quick: cut points sampled with a stride giving about 600 "
        "runs, thorough: every index x both wires x 5 kinds for 4 consecutive variants (all combinations of rtc spawn, held read guard and wire latency, all three chunk sizes). A case is non-trivial if the fault fired; distinct = distinct "
        "(workload/variant, wire, index, kind).")
TRUSTED_BASE = [
    "M_conn: arrival-gap arithmetic of the ping/timeout pair and the first-fault rule of the run loop (lean/RemocModel/Conn/Model.lean)",
    "M_conn wait/link model (lean/RemocModel/Conn/Waits.lean): which runtime object every API wait is parked on and who owns it is read "
    "off the source (table in the file header); tokio's mpsc/oneshot/semaphore wake their waiters when closed or dropped",
    "Tokio's paused clock: time advances only when every task is idle, so virtual time measures 'bounded time'",
    "harness transport fault injection (harness/src/transport.rs), lean/Driver/Fault.lean, lean/Driver/FaultUp.lean",
]
ASSUMPTIONS = ["both endpoints have a connection timeout configured (a silent stall is undetectable otherwise, as documented)",
               "an allocator / connect-semaphore wait is outside the guarantee while the user itself holds every port number / permit "
               "(these two links are not owned by the dispatcher; terminated_all_error names exactly this exception)"]
LEVEL_TEXT = ("Lean 4 theorems. Timing: with pings every half timeout and latency jitter below the other half the receive task never "
              "times out however long the idle period (idle_not_torn_down); silence of one timeout is detected; the run loop returns the "
              "first fault it is shown (never Ok/running); delivered is a prefix of sent at every cut point (C01 for all truncated "
              "schedules). Waits: on an LTS of one endpoint with every kind of API wait (credits, event queue, port queue, closed-notifier, "
              "connect response, sent-notifier, listener queues, accept response, port allocator, connect semaphore), explicit wake-ups "
              "and a clock, for all label sequences: after `terminate` no wait on a dispatcher-owned link is left at quiescence and every "
              "wait that returned afterwards returned the class of the table (terminated_all_error, terminated_releases_ports); a wait started afterwards returns at "
              "its first poll with that class (later_ops_error); the table for each chmux API call (api_after_termination); while `run` "
              "has not returned at most `timeout` passed since the inbound direction went silent, no time passes after a shown fault, and "
              "`terminate` is enabled with an error result (termination_bounded, fault_or_silence_terminates). That the runtime objects "
              "are owned and dropped as in the model is decided by enumeration on the real endpoints: every cut point x direction x fault "
              "kind, raw ports and typed layers (mpsc/oneshot/watch/broadcast/bin/lr, rtc, robs mirror, RwLock, Lazy), with a quiescence "
              "detector (no call pending after one more hour), the clock (both dispatchers ended within timeout_A+timeout_B, the one shown "
              "an error at once; every call returned by max(start, end of its dispatcher)), error classes compared with the proved table "
              "(raw ports) resp. error-not-success, no clean end-of-stream before the error, no data-error misreport (typed layers), and "
              "per-channel prefix checks.")
LEVEL_NOTE = ("Partial: the ownership links are modelled as read, not derived from the Rust code; 'every real wait is parked on such a link' "
              "is established by enumeration of cut points of the explored workloads, not by proof. The typed layers have no Lean model "
              "here (their forwarding tasks are covered by the enumeration only). For allocator/semaphore waits the theorems state the "
              "exception (still parked only while no unit is free; the dispatcher itself holds no port number after termination: "
              "terminated_releases_ports) but there is no unit-accounting invariant. Delivery schedules: immediate and one-item-per-millisecond "
              "wires, default task order only.")
TECHNIQUE = "Lean 4 proofs (timing arithmetic, first-fault rule, prefix, wait/link LTS invariants) + exhaustive fault-point enumeration on the real crate under a virtual clock (raw ports and typed layers)"
DESIGN_REF = "DESIGN.md section 5, C06"


def run(ctx, replay=None):
    quick = ctx.tier == "quick"
    jobs = []
    up_replay = bool(replay) and open(replay).readline().startswith("# faultup one ")
    if up_replay:
        pass
    elif replay:
        jobs.append(("replay", ["run", replay], None))
    else:
        import glob
        files = sorted(glob.glob(os.path.join(os.path.dirname(os.path.dirname(os.path.dirname(os.path.abspath(__file__)))), "corpus", "C06", "*.ops")))
        if files:
            jobs.append(("corpus", ["run"] + files, None))
        if quick:
            jobs.append(("sweep0", ["faultsweep", 2, 2], ctx.seed * 1000 + 10))
            jobs.append(("idle", ["gen", "fault-idle", 8], ctx.seed * 1000 + 20))
        else:
            for i in range(4):
                jobs.append(("sweep%d" % i, ["faultsweep", 6, 1], ctx.seed * 1000 + 10 + i))
            jobs.append(("idle", ["gen", "fault-idle", 30], ctx.seed * 1000 + 20))
    total, fired, samples, seen = 0, 0, [], set()
    kinds = {}
    fails, mism = [], []
    for name, args, seed in jobs:
        rc, err, trace = ctx.harness("mux", args, out_path=os.path.join(ctx.workdir, "%s.trace" % name), seed=seed)
        if rc != 0:
            ctx.violation("mux harness crashed: " + err[-300:], "mux-harness-crash", err[-4000:], name="mux-crash.txt", no_input=True)
            continue
        rc, lines = ctx.driver("fault", trace)
        if rc != 0:
            ctx.violation("fault driver failed", "fault-driver-failure", "\n".join(lines[-30:]), no_input=True)
            continue
        for line in lines:
            m = re.match(r"END (\S+) events=(\d+) replay=(\w+) c06=(\w+) fired=(\d)", line)
            if not m:
                continue
            total += 1
            tname = m.group(1)
            if m.group(5) == "1" and tname not in seen:
                seen.add(tname)
                fired += 1
                k = tname.split("-")[-1]
                kinds[k] = kinds.get(k, 0) + 1
                if len(samples) < 4 and fired % 37 == 1:
                    samples.append(tname)
            if tname.startswith("fault-idle") and tname not in seen:
                seen.add(tname)
                fired += 1
                kinds["idle"] = kinds.get("idle", 0) + 1
            detail = [l for l in lines if l.startswith(("DIFF %s " % tname, "FAIL %s " % tname))]
            if m.group(4) != "ok":
                fails.append((tname, detail, trace))
            elif m.group(3) != "ok":
                mism.append((tname, detail, trace))

    # ---- layers above raw ports: typed channels, remote calls, mirrors, locks, lazy values (harness `faultup`)
    up_total, up_fired, up_calls, up_judged, up_fails, up_mism, up_stats = 0, 0, 0, 0, [], [], {}
    if up_replay:
        up_jobs = [("upreplay", ["one"] + open(replay).readline().split()[3:], None)]
    elif replay:
        up_jobs = []
    else:
        # quick: cut points sampled with a stride chosen for about 600 runs; thorough: every cut point
        up_jobs = [("up0", ["sweep", 2, 0, 600], ctx.seed * 1000 + 30)] if quick else \
                  [("up0", ["sweep", 4, 1], ctx.seed * 1000 + 30)]
    for name, args, seed in up_jobs:
        rc, err, trace = ctx.harness("faultup", args, out_path=os.path.join(ctx.workdir, "%s.trace" % name), seed=seed)
        if rc != 0:
            ctx.violation("faultup harness crashed: " + err[-300:], "faultup-harness-crash", err[-4000:], name="faultup-crash.txt", no_input=True)
            continue
        for k, v in ctx.stat_lines(err).items():
            up_stats[k] = up_stats.get(k, 0) + v if isinstance(v, int) else v
        rc, lines = ctx.driver("faultup", trace)
        if rc != 0:
            ctx.violation("faultup driver failed", "faultup-driver-failure", "\n".join(lines[-30:]), no_input=True)
            continue
        for line in lines:
            m = re.match(r"END (\S+) events=(\d+) replay=(\w+) c06=(\w+) fired=(\d) calls=(\d+) judged=(\d+)", line)
            if not m:
                continue
            up_total += 1
            tname = m.group(1)
            up_calls += int(m.group(6)); up_judged += int(m.group(7))
            if m.group(5) == "1" and tname not in seen:
                seen.add(tname)
                up_fired += 1
                k = "up-" + tname.split("-")[-1]
                kinds[k] = kinds.get(k, 0) + 1
                if len(samples) < 8 and up_fired % 211 == 1:
                    samples.append(tname)
            if m.group(4) != "ok":
                up_fails.append((tname, [l for l in lines if l.startswith("FAIL %s " % tname)], trace))
            elif m.group(3) != "ok":
                up_mism.append((tname, [l for l in lines if l.startswith("DIFF %s " % tname)], trace))

    def up_trace_of(tname, trace):
        out, on = [], False
        with open(trace) as f:
            for line in f:
                if line.startswith("trace "):
                    on = line.split()[1] == tname
                elif on and not line.startswith(("tx ", "rx ", "put m3 ")):
                    out.append(line)
        return "".join(out)

    for tname, detail, trace in up_fails[:5]:
        first = detail[0] if detail else "FAIL %s c06 line=0 ?" % tname
        what = re.sub(r"line=\d+ ", "", first.split(" ", 3)[3] if len(first.split(" ", 3)) > 3 else first)
        what_sig = re.sub(r"call \S+ ", "call ", what)
        sig = "c06up " + re.sub(r"[0-9a-f]{6,}|\d+", "#", what_sig)[:160]
        # up-v<w>-s<vseed>-<wire>-<index>-<kind>
        mm = re.match(r"up-v(\d+)-s(\d+)-(\w)-(\d+)-(\w+)$", tname)
        head = "# faultup one %s %s %s %s %s\n" % (mm.group(2), mm.group(1), mm.group(3), mm.group(4), mm.group(5)) if mm else "# faultup %s\n" % tname
        ctx.violation("c06 (typed layers) fails on %s: %s" % (tname, what), sig,
                      head + "# fail-stop predicate failed for the typed-layer workload at this cut point; replay: ./check C06 --replay <this file>\n# "
                      + "\n# ".join(detail) + "\n" + up_trace_of(tname, trace))

    if up_mism and not up_fails and not fails:
        tname, detail, trace = up_mism[0]
        ctx.violation("results of %d typed-layer fault runs are not those of the model's run loop (first: %s: %s)" % (len(up_mism), tname, detail[0] if detail else ""),
                      "replay-mismatch-up", "# correspondence M_conn <-> ChMux::run broken (typed-layer workload)\n# %s\n%s" % ("\n# ".join(detail), up_trace_of(tname, trace)),
                      name="correspondence-M_conn-up.txt", no_input=True)

    def script_of(tname, trace):
        out, on = [], False
        with open(trace) as f:
            for line in f:
                if line.startswith("trace "):
                    on = line.split()[1] == tname
                elif on and line.startswith("op "):
                    out.append(line[3:])
        return "".join(out)

    for tname, detail, trace in fails[:5]:
        first = next((d for d in detail if d.startswith("FAIL")), "")
        what = re.sub(r"line=\d+ ", "", first.split(" ", 3)[3] if len(first.split(" ", 3)) > 3 else first)
        sig = "c06 " + re.sub(r"[0-9a-f]{6,}|\d+", "#", what)[:160]
        ctx.violation("c06 fails on %s: %s" % (tname, what), sig,
                      "# fail-stop predicate failed for this workload and cut point; replay: ./check C06 --replay <this file>\n# %s\n%s\n# %s"
                      % (what, script_of(tname, trace), "\n# ".join(detail)))
    if mism and not fails:
        tname, detail, trace = mism[0]
        ctx.violation("run results of %d fault runs are not those of the model's run loop (first: %s: %s)" % (len(mism), tname, detail[0] if detail else ""),
                      "replay-mismatch", "# correspondence M_conn <-> ChMux::run broken\n%s\n# %s" % (script_of(tname, trace), "\n# ".join(detail)),
                      name="correspondence-M_conn.txt", no_input=True)
    kinds.update({"up_" + k: v for k, v in up_stats.items()})
    kinds["up_calls_observed"] = up_calls
    kinds["up_calls_judged_after_failure"] = up_judged
    ctx.coverage.update({"evaluations": total + up_total, "distinct_nontrivial": fired + up_fired,
                         "traces_validated_against_impl": total + up_total,
                         "samples": samples, "input_distribution": kinds, "exhaustive": not quick})
