"""C17 — remote read/write lock: exclusion, latest-committed reads, no deadlock (M_rwlock)."""
import glob, hashlib, os, re

LEAN_MODULE = "RemocModel.Props.C17"
LEAN_EXES = ["rwlock"]
HARNESS_BINS = ["rwlock"]
THEOREMS = [
    "Remoc.RwLock.exclusion",
    "Remoc.RwLock.exclusion_guards",
    "Remoc.RwLock.freshness",
    "Remoc.RwLock.write_freshness",
    "Remoc.RwLock.value_is_last_commit",
    "Remoc.RwLock.commit_durable",
    "Remoc.RwLock.commit_visible",
    "Remoc.RwLock.drop_keeps_value",
    "Remoc.RwLock.deadlock_free",
    "Remoc.RwLock.deadlock_pinned",
    "Remoc.RwLock.not_deadlock_free_pinned",
    "Remoc.RwLock.quiescentB_sound",
]
RULE = ("real robj::rw_lock::Owner with 2-6 lock handles: clones on the owner's endpoint (shared cache) and locks sent over 0-2 real "
        "connections (Connect::io over tokio duplex; each received lock has its own cache), counters as values. Generators: "
        "'exact' (one stimulus - read/write/release/commit/drop/new handle - then settle; adaptive to the observed states), "
        "'loss' (exact + cut of one connection while its endpoint holds or waits for guards), 'burst' and 'race' (stimuli without "
        "settling, random yields / queue hops inside the operation tasks, close commands queued before the guard exists), 'poison' "
        "(a lock over a value type whose deserializer refuses some values: a commit of such a value through a remote handle cannot "
        "reach the owner, so it may fail but must not be confirmed; judged by the same predicates - a confirmed commit supersedes "
        "every earlier value), corpus "
        "witness of F5 first. Every trace: exclusion, value stability, freshness/durability (interval semantics), dropped-guard and "
        "hang predicates on the real totally ordered log; exact/loss traces are additionally replayed on M_rwlock (state of every "
        "open operation and every observed value at every settle). A trace counts as non-trivial if a write guard was granted after "
        "a read guard had been handed out (invalidate / wait-for-drop mechanism ran) and its canonical event log is new.")
TRUSTED_BASE = [
    "M_rwlock (lean/RemocModel/RwLock/Model.lean): hand-written LTS of owner_task, ReadLock::fetch, the cache monitor task, "
    "RwLock::write, WriteGuard::commit/drop; tokio RwLock modelled as reader set / writer flag with unordered acquisition "
    "(superset of its FIFO order); owner termination (Owner dropped) and cancellation of read()/write() futures are not modelled",
    "rwlock harness (single-threaded paused runtime, event log order = execution order) and rwlock driver (predicates, replay "
    "policy: FIFO per cache lock, biased owner select; alternatives for writer order and post-cut races)",
    "hang classification by shape (pending reader on a cache that still holds a value fetched before the last write grant + "
    "ungranted writer) is what separates the known deadlock F5 from any other hang",
]
ASSUMPTIONS = [
    "single-threaded paused runtime: sleep(1ns) returns at quiescence; an operation pending after all guards are released, a settle "
    "and one virtual hour never completes",
    "scheduler fairness and tokio RwLock wake-ups (a waiter is eventually granted a free lock) are outside the model",
    "guards held on an endpoint whose connection was cut stop counting for exclusion at the cut (the owner cannot know better)",
    "scripts are a function of VERIF_SEED; the order of events of different endpoints inside one settle (and burst interleavings over "
    "real connections) also depends on tokio's randomised select! in chmux, so trace hashes vary slightly between runs; verdicts do not",
]
LEVEL_TEXT = ("Lean 4 theorems over M_rwlock for all label lists (all interleavings of reads/writes/commits/drops on any number of "
              "lock clones and endpoints, all task and delivery schedules, endpoint loss): exclusion (while a writer has the value no "
              "read guard and no copy exists anywhere, at most one writer), freshness (every read/write guard observes the value of "
              "the latest commit at its acquisition instant), committed writes are stored and stay visible until the next commit, a "
              "dropped write guard never changes the value, and - for the repaired variant - no request is pending in any reachable "
              "quiescent state with all guards released. For the pinned code the liveness clause is false: a kernel-checked witness "
              "run (finding F5) and the negated statement are part of the development. Tied to the code on every run by predicates on "
              "real histories and step-by-step replay on the model.")
LEVEL_NOTE = ("Liveness is 'no pending request at quiescence' (fairness trusted). The variant parameter sits at exactly one step "
              "(what fetch does after acquiring the cache's write lock); the check detects which variant the tree matches from the "
              "corpus witness and replays against it. Owner drop / future cancellation are covered by neither model nor generators.")
TECHNIQUE = "Lean 4 proofs (safety + progress invariants, quiescence argument) over an LTS model + history predicates and model replay on the real crate"
DESIGN_REF = "DESIGN.md section 5, C17; section 6, F5"

VERIF = os.path.dirname(os.path.dirname(os.path.dirname(os.path.abspath(__file__))))


def split_traces(path):
    traces, cur = {}, None
    with open(path) as f:
        for line in f:
            if line.startswith("trace "):
                cur = line.split(None, 1)[1].strip()
                traces[cur] = []
            elif cur is not None:
                traces[cur].append(line.rstrip("\n"))
    return traces


def script_of(tl):
    """the replayable script of a trace: its mode/model lines and stimuli up to `end`"""
    out = []
    for l in tl:
        if l.startswith(("mode ", "model ")):
            out.append(l)
        elif l.startswith("s "):
            out.append(l[2:])
            if l == "s end":
                break
    return out


def replay_text(prop, what, detail, tl):
    return ("# %s: %s\n# replay with: ./check %s --replay <this file>   (re-runs the script against the real crate; the recorded\n"
            "# trace below, lines `#T`, is evaluated as well because burst-mode interleavings over real connections may not repeat)\n"
            "%s\n# --- driver output ---\n# %s\n# --- recorded trace ---\n%s\n"
            % (prop, what, prop, "\n".join(script_of(tl)), "\n# ".join(detail), "\n".join("#T " + l for l in tl)))


def run(ctx, replay=None):
    quick = ctx.tier == "quick"
    corpus = sorted(glob.glob(os.path.join(VERIF, "corpus", "C17", "*.ops")))
    stats = {"traces": 0, "replay_ok": 0, "replay_skipped": 0, "replay_mismatch": 0, "hang_traces": 0, "with_commit": 0,
             "with_drop": 0, "with_kill": 0, "with_remote": 0, "read_guards": 0, "write_guards": 0, "ops_compared_with_model": 0}
    hashes, nontrivial, samples = set(), 0, []
    fails, mismatches = [], []

    # ---- which variant of M_rwlock does the tree match?  (corpus witness of F5 runs first)
    variant = "fixed"
    witness_hung = False
    if corpus:
        rc, err, trace = ctx.harness("rwlock", ["run"] + corpus, out_path=os.path.join(ctx.workdir, "corpus.trace"))
        if rc != 0:
            ctx.violation("rwlock harness crashed on the corpus: " + err[-300:], "rwlock-harness-crash", err[-4000:],
                          name="rwlock-crash.txt", no_input=True)
            return
        for name, tl in split_traces(trace).items():
            if "f5-" in name and any(l.startswith("hang ") for l in tl):
                witness_hung = True
        variant = "pinned" if witness_hung else "fixed"
    ctx.notes.append("tree matches M_rwlock variant '%s' (F5 corpus witness %s)" % (variant, "hangs" if witness_hung else "completes"))
    ctx.log("model variant under test: %s" % variant)

    jobs = []
    if replay:
        # a replay file: re-run its script, and evaluate the recorded trace it carries
        rec = [l[3:] for l in open(replay).read().split("\n") if l.startswith("#T ")]
        jobs.append(("replay-live", ["run", replay], None, None))
        if rec:
            p = os.path.join(ctx.workdir, "replay-recorded.trace")
            with open(p, "w") as f:
                f.write("trace recorded:%s\n%s\n" % (os.path.basename(replay), "\n".join(rec)))
            jobs.append(("replay-recorded", None, None, p))
    else:
        if corpus:
            jobs.append(("corpus", None, None, os.path.join(ctx.workdir, "corpus.trace")))
        mult = 1 if quick else 40
        parts = 2 if quick else 8
        for i in range(parts):
            for g, n in (("exact", 300), ("loss", 150), ("burst", 400), ("race", 400), ("poison", 100)):
                jobs.append(("%s%d" % (g, i), ["gen", g, n * mult // parts], ctx.seed * 1000 + i * 10 + len(g), None))

    for name, args, seed, pre in jobs:
        if pre is None:
            rc, err, trace = ctx.harness("rwlock", args, out_path=os.path.join(ctx.workdir, "%s.trace" % name), seed=seed)
            if rc != 0:
                ctx.violation("rwlock harness crashed: " + err[-300:], "rwlock-harness-crash", err[-4000:],
                              name="rwlock-crash.txt", no_input=True)
                continue
            for k, v in ctx.stat_lines(err).items():
                stats["gen_" + k] = stats.get("gen_" + k, 0) + v
        else:
            trace = pre
        rc, lines = ctx.driver("rwlock", trace, args=[variant])
        if rc != 0 or not any(l.startswith("DONE") for l in lines):
            ctx.violation("rwlock driver failed", "rwlock-driver-failure", "\n".join(lines[-30:]), no_input=True)
            continue
        traces = split_traces(trace)
        by_trace = {}
        for l in lines:
            if l.startswith(("DIFF ", "FAIL ", "END ", "MODEL ")):
                by_trace.setdefault(l.split(" ", 2)[1], []).append(l)
        for tname, tl in traces.items():
            out = by_trace.get(tname, [])
            end = next((l for l in out if l.startswith("END ")), None)
            if end is None:
                ctx.violation("driver produced no verdict for trace " + tname, "rwlock-driver-no-verdict", "\n".join(tl), no_input=True)
                continue
            m = re.search(r"replay=(\w+) compared=(\d+)", end)
            stats["traces"] += 1
            stats["replay_" + m.group(1)] += 1
            stats["ops_compared_with_model"] += int(m.group(2))
            ev = [l for l in tl if l.startswith("e ")]
            racq = sum(1 for l in ev if l.startswith("e racq"))
            wacq = sum(1 for l in ev if l.startswith("e wacq"))
            stats["read_guards"] += racq
            stats["write_guards"] += wacq
            stats["with_commit"] += any(l.startswith("e wdone") for l in ev)
            stats["with_drop"] += any(l.startswith("e wdrop") for l in ev)
            stats["with_kill"] += any(l.startswith("s kill") for l in tl)
            stats["with_remote"] += any(l.startswith("handle ") and not l.endswith("ep=0") for l in tl)
            stats["hang_traces"] += any(l.startswith("hang ") for l in tl)
            # non-trivial: some write guard granted after some read guard was handed out
            first_r = next((i for i, l in enumerate(ev) if l.startswith("e racq")), None)
            mech = first_r is not None and any(l.startswith("e wacq") for l in ev[first_r:])
            # canonical form: events between two stimuli are sorted (their order across endpoints
            # depends on tokio's randomised select! inside chmux)
            canon, seg = [], []
            for l in tl:
                if l.startswith("e "):
                    seg.append(l)
                elif l.startswith(("s ", "handle ")):
                    canon += sorted(seg) + [l]
                    seg = []
            h = hashlib.sha1("\n".join(canon + sorted(seg)).encode()).hexdigest()
            if mech and h not in hashes:
                hashes.add(h)
                nontrivial += 1
                if len(samples) < 3 and nontrivial % 41 == 1:
                    samples.append({"trace": tname, "script": script_of(tl)[:40], "events": ev[:30]})
            fl = [l for l in out if l.startswith("FAIL ")]
            dl = [l for l in out if l.startswith("DIFF ")]
            for f in fl:
                fails.append((tname, f, out, tl))
            if dl:
                mismatches.append((tname, dl, out, tl))

    # ---- verdicts: predicate failures on real runs first (concrete replays), by signature
    reported = 0
    for tname, f, out, tl in fails:
        parts = f.split(" ", 3)
        pred, text = parts[2], (parts[3] if len(parts) > 3 else "")
        if pred == "hang":
            m = re.search(r"shape=(\S+)", text)
            sig = "hang shape=%s" % (m.group(1) if m else "?")
        else:
            sig = "%s %s" % (pred, re.sub(r"\[[^\]]*\]|\d+", "#", text))[:160]
        before = len(ctx.violations)
        ctx.violation("%s predicate fails on the real run %s: %s" % (pred, tname, text), sig,
                      replay_text(ctx.prop, "property predicate `%s` failed on a real run of robj::rw_lock" % pred, out, tl))
        reported += len(ctx.violations) - before
    unknown_fail_traces = {v["signature"] for v in ctx.violations}
    # a DIFF in a trace whose only failure is the known finding is still a correspondence problem
    if mismatches and not unknown_fail_traces:
        tname, dl, out, tl = mismatches[0]
        ctx.violation("the real lock no longer behaves like M_rwlock (variant %s) on %d trace(s) (first: %s: %s) but no property "
                      "predicate fails on any real run explored" % (variant, len(mismatches), tname, dl[0].split(" ", 2)[2]),
                      "replay-mismatch",
                      replay_text(ctx.prop, "correspondence M_rwlock <-> robj::rw_lock broken (theorems of C17 are about the model; "
                                  "the code no longer matches it); no input found on which the property itself fails", out, tl),
                      name="correspondence-M_rwlock.txt", no_input=True)
    ctx.coverage.update({
        "evaluations": stats["traces"],
        "distinct_nontrivial": nontrivial,
        "traces_validated_against_impl": stats["traces"],
        "samples": samples,
        "input_distribution": stats,
        "model_variant_matched": variant,
    })
