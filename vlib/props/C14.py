"""C14 — mirrors and subscriptions never diverge silently (M_robs fault models)."""
from vlib.robscheck import run_robs

LEAN_MODULE = "RemocModel.Props.C14"
LEAN_EXES = ["robs"]
HARNESS_BINS = ["robs"]
THEOREMS = [
    "Remoc.Robs.mirror_consistent_or_flagged",
    "Remoc.Robs.prefixState_eq_feed",
    "Remoc.Robs.size_limit_enforced_partial",
    "Remoc.Robs.f9_insert_is_refused",
    "Remoc.Robs.Vec.sizeChecked",
    "Remoc.Robs.VecDeque.sizeChecked",
    "Remoc.Robs.HashMap.sizeChecked",
    "Remoc.Robs.HashSet.sizeChecked",
    "Remoc.Robs.OList.sizeChecked",
    "Remoc.Robs.OList.list_never_lags",
    "Remoc.Robs.MInv.step",
    "Remoc.Robs.OList.DInv.step",
]
RULE = ("per case one real observable collection (vec, deque, hash map, hash set, list) with 1-4 subscriptions (snapshot / "
        "incremental, by hand or mirror(max_size), in-process or over Connect::io on a tokio duplex) with event buffers of "
        "1-4 (or large) and size limits of 1-8 (or large); the script mixes single calls, bursts of 1-7 calls without letting "
        "any task run (so that buffers overflow), partial reads of hand subscriptions, borrow() checkpoints of mirrors, and "
        "one fault class per case: lag only, size limit, connection cut (duplex dropped), collection dropped without done(); "
        "for cut and drop half of the scenarios are swept with the fault at every script position 0..14. Oracle on the real "
        "data: every borrow() result is an error or the contents after a prefix of the recorded event history (positions "
        "non-decreasing), an error never disappears or changes, detach() returns a prefix state, at quiescence a mirror "
        "without error holds the final contents (and saw Done if the collection is gone), mirrors never exceed max_size, the "
        "error kind matches what happened; hand subscriptions: received events are consecutive history except directly after "
        "a Lagged error, no silent end after drop/cut, list subscribers never see Lagged and receive every element once in "
        "order. In-process snapshot mirrors are additionally compared at every checkpoint with the LTS of Robs/Errors.lean "
        "run to quiescence. A case is non-trivial if some recv()/borrow() returned an error (list: a subscriber read under "
        "back-pressure); distinct = distinct trace body.")
TRUSTED_BASE = [
    "MSt (lean/RemocModel/Robs/Errors.lean): hand-written LTS of one rch::broadcast subscriber queue (try_send, shedding with "
    "Lagged marker, re-arming after reserve) with the mirror task of robs/*.rs; the transport of a remote subscription is "
    "abstracted to the same bounded queue plus a failure label",
    "DSt (lean/RemocModel/Robs/ListDispatch.lean): hand-written LTS of ObservableList::task; the biased select is relaxed to any order",
    "harness (harness/src/bin/robs.rs) and driver (lean/Driver/Robs.lean)",
]
ASSUMPTIONS = ["tokio mpsc channels are FIFO with the stated capacity; dropping both connection tasks and the duplex halves "
               "models a connection cut",
               "single-threaded paused Tokio runtime: no task runs between the calls of a burst"]
LEVEL_TEXT = ("Lean 4 invariant proofs over two LTS models for all schedules (label lists): (1) a subscriber of a broadcast "
              "based collection with bounded queue, shedding/Lagged/re-arming, drop of the collection, connection failure and "
              "the mirror task: the mirror's contents are always the contents after a prefix of the event history, a stored "
              "error is permanent and freezes the contents, and at quiescence a mirror without error has applied every event "
              "(and saw Done if the collection is gone) - so lag, drop before done, connection failure and inapplicable events "
              "cannot leave a stale mirror without error; the size limit is enforced for hash map, hash set and list (partial: "
              "finding F9 for vec/deque, kernel-checked counterexample). (2) the list dispatcher with any number of subscribers "
              "and bounded channels: received ++ in-flight is exactly the first pos elements, once each, in order, Done last; at "
              "quiescence a subscriber that drained its channel has everything pushed. Tied to the code by fault scenarios on the "
              "real collections with the same predicates evaluated on the real results and step-wise comparison of in-process "
              "mirrors with the LTS.")
LEVEL_NOTE = ("Trusted: Lean kernel, the two hand-written LTS models and their granularity, harness/driver. Hand-held "
              "subscriptions (recv by hand) are covered by the predicate check on real runs, the theorem is stated for mirrors.")
TECHNIQUE = "Lean 4 invariant proofs over LTS models + fault-scenario predicate check and model comparison against the real crate"
DESIGN_REF = "DESIGN.md section 5, C14"


def run(ctx, replay=None):
    run_robs(ctx, "c14", replay)
