"""C10 — every port-open request resolves exactly once and pairs the right ports (M_table)."""
from vlib.conncheck import run_conn

LEAN_MODULE = "RemocModel.Props.C10"
LEAN_EXES = ["conn"]
HARNESS_BINS = ["mux"]
THEOREMS = [
    "Remoc.Table.response_consumes_request",
    "Remoc.Table.rejected_consumes_request",
    "Remoc.Table.second_answer_is_error",
    "Remoc.Table.one_response_per_request",
    "Remoc.Table.reject_once",
    "Remoc.Table.accept_pairs",
    "Remoc.Table.request_credit_bounds_queue",
    "Remoc.Table.Sys.request_credit_invariant",
    "Remoc.Table.Sys.request_located_once",
    "Remoc.Table.Sys.listen_queue_has_room",
    "Remoc.Table.Sys.pairs_right_global",
    "Remoc.Table.Sys.pairs_mutual",
    "Remoc.Table.Sys.resolves_once",
    "Remoc.Table.Sys.pending_only_if_held",
    "Remoc.Table.Sys.accepted_matches_peer",
    "Remoc.Table.Sys.wireInvB_reachable",
]
RULE = ("same runs as C07. Predicates on the real run: unanswered OpenPort requests on the wire never exceed the connect_queue the "
        "peer advertised (at every prefix); every connect/accept/inspect/request call returns at most once and none is pending "
        "after everything is dropped; an accepted connect returns the client port of its own OpenPort; labels sent over every "
        "established port (each sender sends its own local/remote numbers) arrive at exactly the mirrored port; refusal reasons "
        "are checked against the wire (Rejected with/without no_ports delivered, listener dropped, no-wait with exhausted local "
        "ports or credit); data of a send issued after Connect::sent returned is on the wire after the OpenPort. Non-trivial: "
        ">= 2 ports established.")
TRUSTED_BASE = [
    "M_table; the exhaustion policy modelled is the per-request wait flag (the configured default Cfg::ports_exhausted is not read by the code: finding F8)",
    "the two-endpoint system model lean/RemocModel/Table/Conn.lean: which local events a conforming application can cause "
    "(client handles and the connect-credit semaphore, listener, held requests, sender/receiver handles, port allocator), FIFO "
    "wires, one label per await-free block; data frames and credits are left out (M_link)",
    "delivery of the answer to the caller's future (a oneshot inside ConnectRequest) is observed, not modelled",
    "harness world and lean/Driver/Conn.lean",
]
ASSUMPTIONS = ["single-threaded paused runtime; settle after every step so that the dispatcher's processing order is determined"]
LEVEL_TEXT = ("Lean 4 theorems. (a) Over the dispatcher functions, for every state: an answer is accepted only for a connecting "
              "port and consumes it, the listener side answers only outstanding requests and each at most once, the two ports of "
              "an accepted request reference each other. (b) Over the two-endpoint system model (both dispatchers, both FIFO "
              "wires, the API objects of a conforming application), for ALL label lists from the initial state and any max_ports / "
              "connect_queue: the credit equation (requests in flight + listener queue + requests held by the application + "
              "answers queued + answers in flight = clientPending <= advertised queue), every request is in exactly one place "
              "and these are exactly the connecting ports, the right ports are paired globally with no third port referencing "
              "either (modulo entries already freed on one side), a ghost log shows every connect request resolved at most once "
              "and resolved-or-pending, a local refusal only if the peer's listener was dropped, an accepted answer in flight has "
              "the peer's fresh port behind it, and at quiescence a request is pending only while it waits in the peer's "
              "listener queue or is held by its application. Tied to the code by replaying both real dispatchers on the model, by "
              "evaluating the decidable form of the global invariant (request location / credit equation, pairing, flags) on the "
              "reconstructed two-endpoint state after every frame of the real traces, and by pairing/label/credit/reason "
              "predicates on real runs.")
LEVEL_NOTE = ("Partial: the multiset equation between the answers the peer's application gave and the resolutions is not proved "
              "(the value of a resolution is the content of the delivered message; single-step lemmas and the FIFO wire carry it); "
              "ports sent over ports (PortData requests) are outside the system model and only covered by the trace predicates; "
              "the true-reason table is checked on explored runs; Cfg::ports_exhausted (F8) is outside the model.")
TECHNIQUE = "Lean 4 invariant proofs over a two-endpoint labelled transition system built from the total dispatcher functions + two-endpoint trace replay, global-invariant and pairing/credit predicates on the real crate"
DESIGN_REF = "DESIGN.md section 5, C10"


def run(ctx, replay=None):
    run_conn(ctx, replay)
