"""C10 — every port-open request resolves exactly once and pairs the right ports (M_table)."""
from vlib.conncheck import run_conn

LEAN_MODULE = "RemocModel.Props.C10"
LEAN_EXES = ["conn"]
HARNESS_BINS = ["mux"]
THEOREMS = [
    "Remoc.Table.response_consumes_request",
    "Remoc.Table.rejected_consumes_request",
    "Remoc.Table.second_answer_is_error",
    "Remoc.Table.one_response_per_request",
    "Remoc.Table.reject_once",
    "Remoc.Table.accept_pairs",
    "Remoc.Table.request_credit_bounds_queue",
    "Remoc.Table.Sys.request_credit_invariant",
    "Remoc.Table.Sys.request_located_once",
    "Remoc.Table.Sys.listen_queue_has_room",
    "Remoc.Table.Sys.pairs_right_global",
    "Remoc.Table.Sys.pairs_mutual",
    "Remoc.Table.Sys.resolves_once",
    "Remoc.Table.Sys.pending_only_if_held",
]
RULE = ("same runs as C07. Predicates on the real run: unanswered OpenPort requests on the wire never exceed the connect_queue the "
        "peer advertised (at every prefix); every connect/accept/inspect/request call returns at most once and none is pending "
        "after everything is dropped; an accepted connect returns the client port of its own OpenPort; labels sent over every "
        "established port (each sender sends its own local/remote numbers) arrive at exactly the mirrored port; refusal reasons "
        "are checked against the wire (Rejected with/without no_ports delivered, listener dropped, no-wait with exhausted local "
        "ports or credit); data of a send issued after Connect::sent returned is on the wire after the OpenPort. Non-trivial: "
        ">= 2 ports established.")
TRUSTED_BASE = [
    "M_table; the exhaustion policy modelled is the per-request wait flag (the configured default Cfg::ports_exhausted is not read by the code: finding F8)",
    "delivery of the answer to the caller's future (a oneshot inside ConnectRequest) is observed, not modelled",
    "harness world and lean/Driver/Conn.lean",
]
ASSUMPTIONS = ["single-threaded paused runtime; settle after every step so that the dispatcher's processing order is determined"]
LEVEL_TEXT = ("Lean 4 theorems over the dispatcher model for every state: an answer is accepted only for a connecting port and "
              "consumes it (a second answer is a protocol error), the listener side can answer only outstanding requests and each "
              "at most once, the two ports created by an accepted request reference each other, the client credit keeps the "
              "listener queue below the refusal threshold. Tied to the code by replaying both real dispatchers on the model and by "
              "pairing/label/credit/reason predicates on real runs.")
LEVEL_NOTE = ("Partial: the cross-endpoint claim 'no third port references either' and the true-reason table are checked on "
              "explored runs (mirrored port numbers, labels), not proved; Cfg::ports_exhausted (F8) is outside the model.")
TECHNIQUE = "Lean 4 proofs over total dispatcher functions + two-endpoint trace replay and pairing/credit predicates on the real crate"
DESIGN_REF = "DESIGN.md section 5, C10"


def run(ctx, replay=None):
    run_conn(ctx, replay)
