"""C13 — a mirror of an observable collection equals the collection (M_robs)."""
from vlib.robscheck import run_robs

LEAN_MODULE = "RemocModel.Props.C13"
LEAN_EXES = ["robs"]
HARNESS_BINS = ["robs"]
THEOREMS = [
    "Remoc.Robs.mirror_eq_vec",
    "Remoc.Robs.mirror_eq_vec_pinned_partial",
    "Remoc.Robs.mirror_eq_vecdeque",
    "Remoc.Robs.mirror_eq_vecdeque_pinned_partial",
    "Remoc.Robs.mirror_eq_hashmap_partial",
    "Remoc.Robs.f4_retain_mutation_diverges",
    "Remoc.Robs.mirror_eq_hashset",
    "Remoc.Robs.mirror_eq_hashset_pinned_partial",
    "Remoc.Robs.mirror_eq_list",
    "Remoc.Robs.done_iff_done",
    "Remoc.Robs.after_done_iff",
    "Remoc.Robs.manual_consumption_eq",
    "Remoc.Robs.f13_incremental_after_done_diverges",
    "Remoc.Robs.Sys.mirror_generic",
    "Remoc.Robs.Vec.lawful",
    "Remoc.Robs.VecDeque.lawful",
    "Remoc.Robs.HashMap.lawful",
    "Remoc.Robs.HashSet.lawful",
    "Remoc.Robs.OList.lawful",
]
RULE = ("per case one real observable collection (vec, deque, hash map, hash set, list; u8 elements/keys 0..7) with random "
        "initial contents runs a random sequence of up to 60 calls over its full mutating API (incl. RefMut/iter_mut/entry "
        "API with and without mutable dereference, retain with stateful predicates, out-of-bounds indices that panic, no-op "
        "cases, calls after done()); 2-7 subscriptions are taken at random points (snapshot / incremental, consumed by hand "
        "or through mirror(), in-process or sent through an rch::mpsc channel over Connect::io on a tokio duplex). After every "
        "call the real contents, panic flag and the events received by a probe subscription are compared with the model's "
        "apply (hash containers: per call as multisets); at the end every subscription's recv results and every mirror's "
        "borrow() are compared with the model, and the property predicate (mirror = collection, hand fold = collection, "
        "done flag <=> done()) is evaluated on the real data. A case is non-trivial if it has a subscription and the "
        "collection emitted at least one event that is not a plain append (list: at least one event) after the first "
        "subscription; distinct = distinct trace body.")
TRUSTED_BASE = [
    "M_robs (lean/RemocModel/Robs/*.lean): hand-written model of robs/{vec,vec_deque,hash_map,hash_set,list}.rs; "
    "the Lean definitions of the std operations (swap_remove, resize, retain, insert, VecDeque::swap_remove_front/back, hash "
    "containers as canonical association lists) are trusted and validated by the per-call contents comparison",
    "the delivery path (rch::broadcast / rch::mpsc, chmux) is abstracted to 'every event sent after the subscription arrives, "
    "in order' for C13 (large buffers; loss and faults are C14)",
    "harness (harness/src/bin/robs.rs) and driver (lean/Driver/Robs.lean)",
]
ASSUMPTIONS = ["iteration order of std HashMap/HashSet is arbitrary but the same for iter() and iter_mut() on an unmodified map",
               "single-threaded paused Tokio runtime: a 1 ms virtual timeout fires only at quiescence"]
LEVEL_TEXT = ("Lean 4 theorems over M_robs for every initial content, every list of calls over the full mutating API of each of "
              "the five collections, every subscription point and both modes (hash containers: every element order): the "
              "consumer of the subscription ends with exactly the collection's contents, complete, without error, and its done "
              "flag is set iff done() was called; folding recv() results by hand gives the same. Proved once generically "
              "(Sys.mirror_generic) from two laws per collection (events of a call reproduce its effect under handle_event; the "
              "incremental element stream rebuilds the contents), which are proved per collection. The mirror task is the one "
              "of the current tree (variant .fixed since the repair of F13 in /repo, be944ac: it leaves its loop only when done "
              "and complete); the task as coded before (variant .pinned) keeps its restricted theorems and its kernel-checked "
              "counterexample, and the driver reports its behaviour as a regression. Still false on the current tree, with a "
              "kernel-checked counterexample: F4 (hash map retain with a mutating predicate; theorem restricted to "
              "non-mutating predicates).")
LEVEL_NOTE = ("Trusted: Lean kernel, the hand-written models incl. the std-collection definitions, harness/driver. The theorems "
              "assume the size limit passed to mirror() is not exceeded (Bounded); exceeding it is C14.")
TECHNIQUE = "Lean 4 proof (generic theorem + per-collection laws) + per-call differential and predicate check against the real crate"
DESIGN_REF = "DESIGN.md section 5, C13"


def run(ctx, replay=None):
    run_robs(ctx, "c13", replay)
