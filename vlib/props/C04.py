"""C04 — typed channels: per-sender prefix delivery; item failures never create gaps (M_base, M_mpsc)."""
from vlib.typedcheck import run_typed, c04_jobs

LEAN_MODULE = "RemocModel.Props.C04"
LEAN_EXES = ["base"]
HARNESS_BINS = ["base"]
THEOREMS = [
    "Remoc.Base.base_prefix",
    "Remoc.Base.send_outcome",
    "Remoc.Base.base_values_prefix",
    "Remoc.Base.base_errors_bounded",
    "Remoc.Base.final_error_only_when_lost",
    "Remoc.Base.base_complete",
    "Remoc.Base.eos_after_all_data",
    "Remoc.Base.recv_cancel_harmless",
    "Remoc.Base.closed_sender_sends_nothing",
    "Remoc.Mpsc.mpsc_per_sender_prefix",
    "Remoc.Mpsc.mpsc_complete",
    "Remoc.Mpsc.oneshot_at_most_one",
    "Remoc.Base.inv_step",
    "Remoc.Mpsc.inv_step",
]
RULE = ("real base, lr, mpsc (1-3 senders: clones, senders on both endpoints, receiver or senders travelling) and oneshot channels "
        "over a real connection (Connect::io over tokio::io::duplex; chunk_size 10..32, receive_buffer 10..200, max_data_size 12..64, "
        "max_item_size 40..150 on sender and receiver independently); items = struct with a byte payload, 0-2 embedded mpsc sender "
        "halves and a custom Serialize/Deserialize that fails at a chosen element; encoded sizes on and next to every limit; sends "
        "dropped at a chosen poll; recv futures dropped at a chosen poll; fixed regression cases (streamed item failing / cancelled "
        "mid-stream followed by further items = F1 one layer up). Checked on the real results: delivered values are byte-identical, "
        "per sender a gap-free in-order prefix of the successfully sent receivable items and complete when the stream ended normally; "
        "item errors non-final, at most one per failing item; failing items reported to their sender; and exact replay on M_base "
        "(send results, Sending results, receiver outputs). A case is non-trivial if a failed/cancelled item is followed by a "
        "delivered item of the same sender or the receiver reported an item error; distinct = distinct sequence of results.")
TRUSTED_BASE = [
    "M_base / M_mpsc (lean/RemocModel/Base/Model.lean, Mpsc.lean): hand-written models of rch/base/{sender,receiver,io}.rs and "
    "rch/mpsc/{mod,sender,receiver}.rs over the abstract port proved in C01/C11 (FIFO of whole messages, abandoned transmissions "
    "discarded, end-of-stream after data); serde and the codec abstracted to (size, halves, failure position)",
    "M_mpsc follows one sender against an arbitrary environment of other senders (they interact only through the receiver's queue)",
    "harness (harness/src/bin/base.rs, typed.rs) and driver (lean/Driver/Base.lean); encoded sizes of items with embedded halves are "
    "known up to 4 bytes per half (random port number varint)",
]
ASSUMPTIONS = ["codec round trip (checked byte-for-byte on every delivered value by the harness, not proved)",
               "tokio mpsc queues are FIFO and fair; scheduler fairness for completeness"]
LEVEL_TEXT = ("Lean 4 theorems for all label lists (all item sequences, sizes, failure offsets, abort points, recv cancellations, "
              "interleavings with close / drop / connection loss): the results returned by recv are always a prefix of the ideal output "
              "log.flatMap(outcome of that send alone) - a failing item cannot touch a neighbour; a successful send yields exactly the "
              "item (or one non-final error if the receiver rejects it), any other send yields no value and at most one non-final "
              "error; values = in-order prefix of successfully sent receivable items; complete at quiescence; end-of-stream only "
              "after all data; mpsc per-sender prefix against arbitrary other senders, queued-but-untransmitted values form a suffix; "
              "oneshot at most one. The clauses 'failed/cancelled send is never delivered' need the repaired receiver (strictEnd): "
              "the snapshot violated them (defect FB1, kernel-checked witnesses for the pre-repair variant; repaired in /repo a9d1262, and the check reports a violation if the repair is reverted).")
LEVEL_NOTE = ("Trusted: Lean kernel + {propext, Quot.sound}; the hand-written models and the abstract port (C01/C11); harness/driver. "
              "Partial w.r.t. the property text: byte fidelity of the codec is covered only by the differential.")
TECHNIQUE = "Lean 4 invariant proofs over LTS models + replay and predicate check of real channel runs"
DESIGN_REF = "DESIGN.md section 5, C04"


def run(ctx, replay=None):
    cov = run_typed(ctx, "c04", c04_jobs(ctx), replay)
    ctx.coverage.update(cov)
