"""C02 — flow-control safety (M_link)."""
from vlib.linkcheck import run_link

LEAN_MODULE = "RemocModel.Props.C02"
LEAN_EXES = ["link"]
HARNESS_BINS = ["mux"]
THEOREMS = [
    "Remoc.Link.credit_conservation",
    "Remoc.Link.outstanding_le_buffer",
    "Remoc.Link.buffered_le_buffer",
    "Remoc.Link.frame_le_chunk",
    "Remoc.Link.grant_le_consumed",
    "Remoc.Link.no_flow_control_error",
    "Remoc.Link.inv_step",
    "Remoc.Link.inv_reachable",
]
RULE = ("same runs as C01 (exact + burst scripts incl. port batches and empty messages, credit frames delayed arbitrarily by "
        "the script); wire monitor at every prefix of the real trace: cost put on the transport minus credit delivered back <= "
        "advertised receive buffer, every frame <= advertised chunk size, credit granted <= cost delivered; the model replay "
        "additionally compares the real pool/used counters (hook probes) with the model at every quiescent point. Non-trivial: "
        "a multi-frame message or a cancellation reached the wire.")
TRUSTED_BASE = [
    "M_link (lean/RemocModel/Link/Model.lean), hand-written; Frame.cost = max 1 len for data, 4 per port",
    "hook verif: Sender::verif_credits_probe / Receiver::verif_credits_probe read the real counters",
    "harness and driver; M_wire decoder used to decode frames observed on the wire",
]
ASSUMPTIONS = ["single-threaded paused runtime: sleep(1ns) returns at quiescence"]
LEVEL_TEXT = ("Lean 4 proof of the credit-conservation invariant of M_link for all label lists (every prefix of every schedule, "
              "arbitrarily delayed credit frames, cancelled/failed sends): pool + held + in flight + buffered + queued for return + "
              "credit frames in flight = advertised buffer; corollaries: outstanding <= buffer, frames <= chunk size, granted <= "
              "consumed <= sent, the receiver's flow-control error is unreachable. Tied to the code by exact replay (incl. counter "
              "probes) and an independent wire monitor on real traces.")
LEVEL_NOTE = "Trusted: Lean kernel, hand-written M_link, harness/driver, the read-only credit probes of the verif feature."
TECHNIQUE = "Lean 4 invariant proof over an LTS model + exact trace replay and wire monitor against the real crate"
DESIGN_REF = "DESIGN.md section 5, C02"


def run(ctx, replay=None):
    run_link(ctx, replay)
