#!/bin/sh
# Build the framework from files on disk only (offline): Lean models/proofs/drivers and the Rust harness.
set -e
cd "$(dirname "$0")"
export CARGO_NET_OFFLINE=true
(cd lean && lake build)
(cd harness && cp -n /repo/Cargo.lock Cargo.lock 2>/dev/null || true; cargo build --offline --bins)
