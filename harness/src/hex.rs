pub fn hex(bytes: &[u8]) -> String {
    if bytes.is_empty() {
        return "-".to_string();
    }
    let mut s = String::with_capacity(bytes.len() * 2);
    for b in bytes {
        s.push_str(&format!("{b:02x}"));
    }
    s
}

pub fn unhex(s: &str) -> Option<Vec<u8>> {
    if s == "-" {
        return Some(Vec::new());
    }
    if s.len() % 2 != 0 {
        return None;
    }
    (0..s.len() / 2).map(|i| u8::from_str_radix(&s[2 * i..2 * i + 2], 16).ok()).collect()
}

pub fn nat_list(xs: &[u32]) -> String {
    if xs.is_empty() { "-".to_string() } else { xs.iter().map(|x| x.to_string()).collect::<Vec<_>>().join(",") }
}
