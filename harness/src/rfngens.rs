//! Script generators for the rfn harness (C12, C19).
use crate::prng::Rng;
use std::collections::BTreeMap;

pub fn generate(kind: &str, _r: &mut Rng, _i: u64, _stats: &mut BTreeMap<String, u64>) -> Vec<String> {
    panic!("unknown generator {kind}")
}
