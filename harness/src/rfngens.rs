//! Script generators for the rfn harness (C12, C19).  Every random choice comes from the `Rng`
//! handed in (forked from the single VERIF_SEED stream).
//!
//! * `rfn-exact`: one stimulus, then settle — hand-driven gates, calls dropped at controlled
//!   points (queued behind an executing request, waiting for a semaphore permit, executing, with
//!   the result in flight), all three flavours, local and transported wrappers, clones, provider
//!   drop with calls in flight, connection loss, arguments / results that cannot be serialised or
//!   deserialised.
//! * `rfn-free`: bursts of concurrent calls without settling in between, functions suspending
//!   with `yield_now`, aborts after a few scheduler turns (a third of the scripts with single-poll
//!   scheduling, `fine=1`).
use crate::prng::Rng;
use std::collections::BTreeMap;

pub fn generate(kind: &str, r: &mut Rng, i: u64, stats: &mut BTreeMap<String, u64>) -> Vec<String> {
    match kind {
        "rfn-exact" => gen_script(r, i, true, stats),
        "rfn-free" => gen_script(r, i, false, stats),
        _ => panic!("unknown generator {kind}"),
    }
}

fn bump(stats: &mut BTreeMap<String, u64>, k: &str) {
    *stats.entry(k.to_string()).or_insert(0) += 1;
}

struct GCall {
    tag: u32,
    gates_left: u32,
    aborted: bool,
}

fn gen_script(r: &mut Rng, i: u64, exact: bool, stats: &mut BTreeMap<String, u64>) -> Vec<String> {
    let fl = *r.pick(&["const", "const", "mut", "mut", "once"]);
    let remote = r.chance(4, 5);
    let keep = r.chance(1, 5);
    // the limit can only be set through the provider object
    let limit = if fl == "const" && !keep { *r.pick(&[1u64, 1, 2, 3, 32]) } else { 32 };
    let init = r.range(0, 50);
    let fine = !exact && r.chance(1, 3);
    bump(stats, &format!("flavour_{fl}_{}", if remote { "remote" } else { "local" }));
    bump(stats, if exact { "mode_exact" } else { "mode_free" });
    if fl == "const" {
        bump(stats, &format!("limit_{limit}"));
    }
    let mut out = vec![format!(
        "case {}-{} fl={fl} remote={} keep={} limit={limit} init={init} exact={}{}",
        if exact { "x" } else { "f" },
        i,
        remote as u8,
        keep as u8,
        exact as u8,
        if fine { " fine=1" } else { "" }
    )];
    let nops = if exact { r.range(5, 26) } else { r.range(6, 30) };
    let max_calls: u64 = if fl == "once" { 2 } else { 12 };
    let mut calls: Vec<GCall> = Vec::new();
    let mut handles: Vec<bool> = vec![true];
    let mut next_tag = 1u32;
    let mut killed = false;
    let mut prov_dropped = false;
    let settle = |out: &mut Vec<String>, r: &mut Rng| {
        if exact {
            out.push("settle".into());
        } else {
            match r.below(6) {
                0 => out.push("settle".into()),
                1 | 2 => out.push(format!("yield {}", r.range(1, 6))),
                3 => out.push(format!("yield {}", r.range(6, 40))),
                _ => {}
            }
        }
    };
    for _ in 0..nops {
        let open: Vec<usize> = (0..calls.len()).filter(|&k| calls[k].gates_left > 0).collect();
        let abortable: Vec<usize> = (0..calls.len()).filter(|&k| !calls[k].aborted).collect();
        let alive: Vec<usize> = (0..handles.len()).filter(|&k| handles[k]).collect();
        let choice = r.below(100);
        if (choice < 42 && (calls.len() as u64) < max_calls) || calls.is_empty() {
            // mostly a live handle, now and then a dropped one
            let h = if alive.is_empty() || r.chance(1, 25) { r.below(handles.len() as u64) as usize } else { *r.pick(&alive) };
            let nseg = *r.pick(&[1u64, 1, 2, 2, 3, 4]);
            let gated = if exact { r.chance(4, 5) } else { r.chance(1, 4) };
            let by = r.range(1, 1000);
            let arg = match r.below(16) {
                0 => "unser",
                1 => "undeser",
                _ => "ok",
            };
            let res = match r.below(14) {
                0 => "unser",
                1 => "undeser",
                _ => "ok",
            };
            out.push(format!("call {next_tag} h={h} nseg={nseg} gated={} by={by} arg={arg} res={res}", gated as u8));
            if arg != "ok" {
                bump(stats, &format!("arg_{arg}"));
            }
            if res != "ok" {
                bump(stats, &format!("res_{res}"));
            }
            if nseg > 1 {
                bump(stats, "multi_segment_calls");
            }
            calls.push(GCall { tag: next_tag, gates_left: if gated { nseg as u32 - 1 } else { 0 }, aborted: false });
            next_tag += 1;
            if r.chance(1, 14) {
                // the call future is dropped before it has been polled once: nothing may happen
                out.push(format!("abort {}", next_tag - 1));
                calls.last_mut().unwrap().aborted = true;
                calls.last_mut().unwrap().gates_left = 0;
                bump(stats, "aborts_before_first_poll");
            }
            settle(&mut out, r);
        } else if choice < 68 && !open.is_empty() {
            let k = *r.pick(&open);
            calls[k].gates_left -= 1;
            out.push(format!("step {}", calls[k].tag));
            settle(&mut out, r);
        } else if choice < 86 && !abortable.is_empty() {
            let k = *r.pick(&abortable);
            calls[k].aborted = true;
            out.push(format!("abort {}", calls[k].tag));
            bump(stats, "aborts");
            settle(&mut out, r);
        } else if choice < 89 && !killed && remote {
            killed = true;
            out.push("kill".into());
            bump(stats, "kills");
            settle(&mut out, r);
        } else if choice < 94 && !prov_dropped && !keep {
            prov_dropped = true;
            out.push("dropprov".into());
            bump(stats, "provider_drops");
            settle(&mut out, r);
        } else if choice < 97 && fl == "const" && !alive.is_empty() {
            out.push(format!("clone {}", r.pick(&alive)));
            handles.push(true);
            bump(stats, "clones");
        } else if choice < 99 && fl == "const" && !alive.is_empty() {
            let h = *r.pick(&alive);
            handles[h] = false;
            out.push(format!("drophandle {h}"));
            bump(stats, "handle_drops");
            settle(&mut out, r);
        } else if !exact {
            out.push(format!("yield {}", r.range(1, 10)));
        }
    }
    // let everything run out: open the remaining gates
    out.push("settle".into());
    loop {
        let open: Vec<usize> = (0..calls.len()).filter(|&k| calls[k].gates_left > 0).collect();
        if open.is_empty() {
            break;
        }
        let k = if r.bool() { open[0] } else { *r.pick(&open) };
        calls[k].gates_left -= 1;
        out.push(format!("step {}", calls[k].tag));
        out.push("settle".into());
    }
    out.push("end".into());
    out
}
