//! Script-owned transport: one `Wire` per direction.  The sink accepts items only while its
//! `window` is open, the stream delivers items only while `release` credit is available, and
//! faults (sink error, stream error, end of stream) are injected by the script.  Every item
//! accepted and every item delivered is logged to the global trace as hex.

use bytes::Bytes;
use futures::{Sink, Stream};
use std::{
    collections::VecDeque,
    io,
    pin::Pin,
    sync::{Arc, Mutex},
    task::{Context, Poll, Waker},
};

use crate::{hex::hex, trace::tr};

pub const INF: u64 = u64::MAX;

#[derive(Clone, Copy, Debug, PartialEq, Eq)]
pub enum StreamFault {
    Error,
    Eof,
}

pub struct WireState {
    /// Side that sends on this wire ('A' or 'B').
    pub from: char,
    pub to: char,
    pub q: VecDeque<Bytes>,
    pub window: u64,
    pub release: u64,
    pub sink_waker: Option<Waker>,
    pub stream_waker: Option<Waker>,
    pub sink_fault: bool,
    pub stream_fault: Option<StreamFault>,
    pub stream_done: bool,
    pub sent: u64,
    pub delivered: u64,
    /// Livelock guard: after this many items the sink stalls for good and `livelock` is set.
    pub budget: u64,
    pub livelock: bool,
    /// Do not log (used for handshake-free bulk phases).
    pub quiet: bool,
    /// Scheduled fault: (item index, kind).  sink: the item with this index is refused with an error;
    /// stream / eof: after this many items were delivered the stream fails / ends; stall: after this
    /// many items were delivered nothing is delivered any more (silently).
    pub fault_at: Option<(u64, FaultKind)>,
    pub fault_fired: bool,
}

#[derive(Clone, Copy, Debug, PartialEq, Eq)]
pub enum FaultKind {
    Sink,
    Stream,
    Eof,
    Stall,
}

#[derive(Clone)]
pub struct Wire(pub Arc<Mutex<WireState>>);

impl Wire {
    pub fn new(from: char, to: char) -> Self {
        Wire(Arc::new(Mutex::new(WireState {
            from,
            to,
            q: VecDeque::new(),
            window: INF,
            release: INF,
            sink_waker: None,
            stream_waker: None,
            sink_fault: false,
            stream_fault: None,
            stream_done: false,
            sent: 0,
            delivered: 0,
            budget: 5_000,
            livelock: false,
            quiet: false,
            fault_at: None,
            fault_fired: false,
        })))
    }

    pub fn sink(&self) -> ScriptSink {
        ScriptSink(self.clone())
    }

    pub fn stream(&self) -> ScriptStream {
        ScriptStream(self.clone())
    }

    pub fn set_window(&self, n: u64) {
        let mut w = self.0.lock().unwrap();
        w.window = n;
        if let Some(wk) = w.sink_waker.take() {
            wk.wake();
        }
    }

    pub fn set_release(&self, n: u64) {
        let mut w = self.0.lock().unwrap();
        w.release = n;
        if let Some(wk) = w.stream_waker.take() {
            wk.wake();
        }
    }

    pub fn add_release(&self, n: u64) {
        let mut w = self.0.lock().unwrap();
        w.release = w.release.saturating_add(n);
        if let Some(wk) = w.stream_waker.take() {
            wk.wake();
        }
    }

    pub fn add_window(&self, n: u64) {
        let mut w = self.0.lock().unwrap();
        w.window = w.window.saturating_add(n);
        if let Some(wk) = w.sink_waker.take() {
            wk.wake();
        }
    }

    pub fn fault_sink(&self) {
        let mut w = self.0.lock().unwrap();
        w.sink_fault = true;
        if let Some(wk) = w.sink_waker.take() {
            wk.wake();
        }
    }

    pub fn fault_stream(&self, f: StreamFault) {
        let mut w = self.0.lock().unwrap();
        w.stream_fault = Some(f);
        if let Some(wk) = w.stream_waker.take() {
            wk.wake();
        }
    }

    /// Inject an item as if the sending side had put it on the wire (hostile peer).
    pub fn inject(&self, item: Bytes) {
        let mut w = self.0.lock().unwrap();
        w.q.push_back(item);
        if let Some(wk) = w.stream_waker.take() {
            wk.wake();
        }
    }

    pub fn queued(&self) -> usize {
        self.0.lock().unwrap().q.len()
    }

    pub fn livelock(&self) -> bool {
        self.0.lock().unwrap().livelock
    }

    pub fn counts(&self) -> (u64, u64) {
        let w = self.0.lock().unwrap();
        (w.sent, w.delivered)
    }
}

pub struct ScriptSink(Wire);

impl Sink<Bytes> for ScriptSink {
    type Error = io::Error;

    fn poll_ready(self: Pin<&mut Self>, cx: &mut Context<'_>) -> Poll<Result<(), io::Error>> {
        let mut w = self.0.0.lock().unwrap();
        if let Some((n, FaultKind::Sink)) = w.fault_at {
            if w.sent >= n && !w.sink_fault {
                w.sink_fault = true;
                w.fault_fired = true;
                tr(format!("fault {} sink at={} t={}", w.from, n, crate::trace::now_ms()));
            }
        }
        if w.sink_fault {
            return Poll::Ready(Err(io::Error::new(io::ErrorKind::BrokenPipe, "injected sink error")));
        }
        if w.window == 0 || w.livelock {
            w.sink_waker = Some(cx.waker().clone());
            return Poll::Pending;
        }
        Poll::Ready(Ok(()))
    }

    fn start_send(self: Pin<&mut Self>, item: Bytes) -> Result<(), io::Error> {
        let mut w = self.0.0.lock().unwrap();
        if w.sink_fault {
            return Err(io::Error::new(io::ErrorKind::BrokenPipe, "injected sink error"));
        }
        if w.window != INF {
            w.window = w.window.saturating_sub(1);
        }
        w.sent += 1;
        if w.sent > w.budget {
            if !w.livelock {
                tr(format!("livelock {}", w.from));
            }
            w.livelock = true;
            w.quiet = true;
        }
        if !w.quiet {
            tr(format!("tx {} {}", w.from, hex(&item)));
        }
        w.q.push_back(item);
        if let Some(wk) = w.stream_waker.take() {
            wk.wake();
        }
        Ok(())
    }

    fn poll_flush(self: Pin<&mut Self>, _cx: &mut Context<'_>) -> Poll<Result<(), io::Error>> {
        let w = self.0.0.lock().unwrap();
        if w.sink_fault {
            return Poll::Ready(Err(io::Error::new(io::ErrorKind::BrokenPipe, "injected sink error")));
        }
        Poll::Ready(Ok(()))
    }

    fn poll_close(self: Pin<&mut Self>, _cx: &mut Context<'_>) -> Poll<Result<(), io::Error>> {
        Poll::Ready(Ok(()))
    }
}

pub struct ScriptStream(Wire);

impl Stream for ScriptStream {
    type Item = Result<Bytes, io::Error>;

    fn poll_next(self: Pin<&mut Self>, cx: &mut Context<'_>) -> Poll<Option<Self::Item>> {
        let mut w = self.0.0.lock().unwrap();
        if w.stream_done {
            return Poll::Ready(None);
        }
        if let Some((n, kind)) = w.fault_at {
            if w.delivered >= n && kind != FaultKind::Sink && !w.fault_fired {
                w.fault_fired = true;
                tr(format!(
                    "fault {} {} at={} t={}",
                    w.to,
                    match kind {
                        FaultKind::Stream => "stream",
                        FaultKind::Eof => "eof",
                        _ => "stall",
                    },
                    n,
                    crate::trace::now_ms()
                ));
                match kind {
                    FaultKind::Stream => w.stream_fault = Some(StreamFault::Error),
                    FaultKind::Eof => w.stream_fault = Some(StreamFault::Eof),
                    _ => {}
                }
                w.release = 0;
            }
            if w.fault_fired && kind == FaultKind::Stall {
                w.release = 0;
            }
        }
        if w.release > 0 && !w.q.is_empty() {
            let item = w.q.pop_front().unwrap();
            if w.release != INF {
                w.release -= 1;
            }
            w.delivered += 1;
            if !w.quiet {
                tr(format!("rx {} {}", w.to, hex(&item)));
            }
            return Poll::Ready(Some(Ok(item)));
        }
        if let Some(f) = w.stream_fault {
            w.stream_done = true;
            return match f {
                StreamFault::Error => {
                    Poll::Ready(Some(Err(io::Error::new(io::ErrorKind::ConnectionReset, "injected stream error"))))
                }
                StreamFault::Eof => Poll::Ready(None),
            };
        }
        w.stream_waker = Some(cx.waker().clone());
        Poll::Pending
    }
}
