//! Global trace: one line per observable event, appended in real execution order
//! (all harness runs are single-threaded, so this is a total order).

use std::sync::Mutex;

static TRACE: Mutex<Vec<String>> = Mutex::new(Vec::new());

pub fn tr(line: String) {
    TRACE.lock().unwrap().push(line);
}

pub fn take() -> Vec<String> {
    std::mem::take(&mut *TRACE.lock().unwrap())
}

pub fn len() -> usize {
    TRACE.lock().unwrap().len()
}

pub fn snapshot_from(start: usize) -> Vec<String> {
    let t = TRACE.lock().unwrap();
    t.iter().skip(start).cloned().collect()
}

static START: Mutex<Option<tokio::time::Instant>> = Mutex::new(None);

/// Reset the virtual clock origin (call inside the runtime at the start of a script).
pub fn reset_clock() {
    *START.lock().unwrap() = Some(tokio::time::Instant::now());
}

/// Virtual milliseconds since the start of the script.
pub fn now_ms() -> u128 {
    match *START.lock().unwrap() {
        Some(s) => tokio::time::Instant::now().duration_since(s).as_millis(),
        None => 0,
    }
}
