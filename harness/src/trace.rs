//! Global trace: one line per observable event, appended in real execution order
//! (all harness runs are single-threaded, so this is a total order).

use std::sync::Mutex;

static TRACE: Mutex<Vec<String>> = Mutex::new(Vec::new());

pub fn tr(line: String) {
    TRACE.lock().unwrap().push(line);
}

pub fn take() -> Vec<String> {
    std::mem::take(&mut *TRACE.lock().unwrap())
}

pub fn len() -> usize {
    TRACE.lock().unwrap().len()
}

pub fn snapshot_from(start: usize) -> Vec<String> {
    let t = TRACE.lock().unwrap();
    t.iter().skip(start).cloned().collect()
}
