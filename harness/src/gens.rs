//! Script generators, one family per property.  Every random choice comes from the `Rng`
//! handed in (forked from the single VERIF_SEED stream).

use crate::{hex::hex, prng::Rng};

pub fn generate(kind: &str, r: &mut Rng, i: u64) -> Vec<String> {
    match kind {
        "smoke" => smoke(r, i),
        "link-exact" => link_exact(r, i),
        "link-burst" => link_burst(r, i),
        _ => panic!("unknown generator {kind}"),
    }
}

fn smoke(_r: &mut Rng, _i: u64) -> Vec<String> {
    let s = "cfg A chunk=8 buf=16 maxdata=32\ncfg B chunk=8 buf=16 maxdata=32\nstart\nconnect c1 A p\naccept a1 B p\nsettle\n\
             send s1 A p 000102030405060708090a0b0c0d0e0f1011\nrecv r1 B p\nsettle\nrecv r2 B p\nsettle\ndropall\nsettle\nend";
    s.lines().map(|l| l.to_string()).collect()
}

pub struct LinkCfg {
    pub chunk: [u64; 2],
    pub buf: [u64; 2],
    pub maxdata: [u64; 2],
    pub sq: [u64; 2],
    pub tq: [u64; 2],
    pub rq: [u64; 2],
}

/// Configuration pairs: small chunk sizes and receive buffers (including buffers that are not
/// multiples of four and below eight), differing per endpoint, minimal queues.
pub fn gen_cfg(r: &mut Rng) -> LinkCfg {
    let mut c = LinkCfg { chunk: [0; 2], buf: [0; 2], maxdata: [0; 2], sq: [0; 2], tq: [0; 2], rq: [0; 2] };
    for s in 0..2 {
        c.chunk[s] = *r.pick(&[4u64, 5, 7, 8, 16, 32]);
        c.buf[s] = *r.pick(&[4u64, 5, 6, 7, 8, 9, 11, 12, 13, 16, 24, 31, 64]);
        c.maxdata[s] = *r.pick(&[6u64, 8, 16, 20, 40, 100]);
        c.sq[s] = *r.pick(&[1u64, 1, 2, 16]);
        c.tq[s] = *r.pick(&[1u64, 1, 2, 16]);
        c.rq[s] = *r.pick(&[1u64, 1, 2, 16]);
    }
    c
}

pub fn cfg_lines(c: &LinkCfg) -> Vec<String> {
    (0..2)
        .map(|s| {
            format!(
                "cfg {} chunk={} buf={} maxdata={} sq={} tq={} rq={}",
                if s == 0 { "A" } else { "B" },
                c.chunk[s],
                c.buf[s],
                c.maxdata[s],
                c.sq[s],
                c.tq[s],
                c.rq[s]
            )
        })
        .collect()
}

/// Message sizes around the boundaries that matter on a link whose receiver advertised
/// `chunk`/`buf` and has `maxdata`.
pub fn msg_len(r: &mut Rng, chunk: u64, buf: u64, maxdata: u64) -> usize {
    let edges = [
        0,
        1,
        chunk - 1,
        chunk,
        chunk + 1,
        buf.saturating_sub(1),
        buf,
        buf + 1,
        maxdata - 1,
        maxdata,
        maxdata + 1,
        2 * maxdata + 3,
        2 * buf + 1,
    ];
    let n = match r.below(10) {
        0..=5 => *r.pick(&edges),
        6..=8 => r.below(3 * maxdata + 2),
        _ => r.below(8),
    };
    n.min(400) as usize
}

fn payload(r: &mut Rng, n: usize) -> String {
    hex(&r.bytes(n))
}

/// Exact mode: data flows in one direction, the opposite wire is delivered one item at a time
/// with a settle after every stimulus, so the real run is a deterministic function of the
/// script and must coincide with the model run step by step.
fn link_exact(r: &mut Rng, _i: u64) -> Vec<String> {
    let c = gen_cfg(r);
    let s = r.below(2) as usize; // sending side
    let (sn, rn) = if s == 0 { ("A", "B") } else { ("B", "A") };
    let (chunk, buf, maxdata) = (c.chunk[1 - s], c.buf[1 - s], c.maxdata[1 - s]);
    let mut l = vec!["mode exact".to_string()];
    l.extend(cfg_lines(&c));
    l.push("start".into());
    l.push(format!("connect c0 {sn} p"));
    l.push(format!("accept a0 {rn} p"));
    l.push("settle".into());
    // from here on the wire carrying credits back is stepped
    l.push(format!("release {rn} 0"));
    let nops = r.range(3, 12);
    let mut k = 0;
    let mut recvs = 0;
    let mut sends = 0;
    let mut pending_send: Option<String> = None;
    for _ in 0..nops {
        k += 1;
        match r.below(10) {
            // sender operations (only when no send call can be pending)
            0..=5 => {
                if let Some(p) = pending_send.take() {
                    // either let the receiver make room, or cancel the pending call
                    if r.chance(1, 3) {
                        l.push(format!("cancel {p}"));
                        l.push("settle".into());
                    } else {
                        for _ in 0..6 {
                            recvs += 1;
                            l.push(format!("recvmsg r{recvs} {rn} p"));
                            l.push("settle".into());
                            l.push(format!("flushstep {rn}"));
                        }
                        // it may still be pending (large message, small buffer): cancel to keep the script simple
                        l.push(format!("cancel {p}"));
                        l.push("settle".into());
                    }
                }
                let id = format!("s{k}");
                match r.below(8) {
                    0..=3 => {
                        let n = msg_len(r, chunk, buf, maxdata);
                        l.push(format!("send {id} {sn} p {}", payload(r, n)));
                        pending_send = Some(id);
                        sends += 1;
                    }
                    4 => {
                        let n = msg_len(r, chunk, buf, maxdata).min(buf as usize + 2);
                        l.push(format!("trysend {id} {sn} p {}", payload(r, n)));
                        sends += 1;
                    }
                    5 | 6 => {
                        let parts = r.range(0, 4);
                        let ps: Vec<String> = (0..parts)
                            .map(|_| {
                                let n = match r.below(4) {
                                    0 => 0,
                                    _ => msg_len(r, chunk, buf, maxdata).min(60),
                                };
                                payload(r, n)
                            })
                            .collect();
                        let end = *r.pick(&["finish", "final", "drop", "finish"]);
                        l.push(format!(
                            "chunks {id} {sn} p {} end={end}",
                            if ps.is_empty() { "none".to_string() } else { ps.join(",") }
                        ));
                        pending_send = Some(id);
                        sends += 1;
                    }
                    _ => {
                        l.push(format!("pconnect {id} {sn} p n={} wait=1", r.range(1, 4)));
                        pending_send = Some(id);
                        sends += 1;
                    }
                }
                l.push("settle".into());
                l.push(format!("flushstep {rn}"));
            }
            // receiver consumes one message
            _ => {
                recvs += 1;
                l.push(format!("recvmsg r{recvs} {rn} p"));
                l.push("settle".into());
                l.push(format!("flushstep {rn}"));
            }
        }
    }
    // drain: the receiver keeps receiving until nothing is left
    for _ in 0..(sends + 3) {
        recvs += 1;
        l.push(format!("recvmsg r{recvs} {rn} p"));
        l.push("settle".into());
        l.push(format!("flushstep {rn}"));
    }
    if let Some(p) = pending_send.take() {
        // after the drain the last send must have completed; if it is a huge message still in
        // progress the receiver drains again
        let _ = p;
        for _ in 0..4 {
            recvs += 1;
            l.push(format!("recvmsg r{recvs} {rn} p"));
            l.push("settle".into());
            l.push(format!("flushstep {rn}"));
        }
    }
    l.push("settle".into());
    l.push("expect-drained".into());
    l.push(format!("release {rn} inf"));
    l.push("dropall".into());
    l.push("settle".into());
    l.push("end".into());
    l
}

/// Monitor mode: both directions, several ports, bursts of operations without settling,
/// stalled sinks and delayed deliveries, cancellations at arbitrary quiescent points.  Only the
/// predicates evaluated on the real trace apply (the replay is not exact here).
fn link_burst(r: &mut Rng, _i: u64) -> Vec<String> {
    let c = gen_cfg(r);
    let mut l = vec!["mode monitor".to_string()];
    l.extend(cfg_lines(&c));
    l.push("start".into());
    let nports = r.range(1, 3);
    for p in 0..nports {
        let side = if r.bool() { "A" } else { "B" };
        let other = if side == "A" { "B" } else { "A" };
        l.push(format!("connect c{p} {side} p{p}"));
        l.push(format!("accept a{p} {other} p{p}"));
        l.push("settle".into());
    }
    let mut k = 0;
    let mut live: Vec<(String, String, u64)> = Vec::new(); // pending send ids: (id, side, port)
    let mut busy = std::collections::HashSet::new(); // (side, port) with a possibly pending sender call
    let mut recv_n = 0;
    let steps = r.range(6, 30);
    for _ in 0..steps {
        k += 1;
        let p = r.below(nports);
        let s = r.below(2) as usize;
        let (sn, rn) = if s == 0 { ("A", "B") } else { ("B", "A") };
        let (chunk, buf, maxdata) = (c.chunk[1 - s], c.buf[1 - s], c.maxdata[1 - s]);
        match r.below(20) {
            0..=6 => {
                if busy.contains(&(s, p)) {
                    continue;
                }
                let id = format!("s{k}");
                match r.below(6) {
                    0..=2 => {
                        let n = msg_len(r, chunk, buf, maxdata);
                        l.push(format!("send {id} {sn} p{p} {}", payload(r, n)));
                    }
                    3 => {
                        let n = msg_len(r, chunk, buf, maxdata).min(buf as usize + 2);
                        l.push(format!("trysend {id} {sn} p{p} {}", payload(r, n)));
                        continue;
                    }
                    4 => {
                        let parts = r.range(0, 3);
                        let ps: Vec<String> = (0..parts).map(|_| { let n = msg_len(r, chunk, buf, maxdata).min(50); payload(r, n) }).collect();
                        let end = *r.pick(&["finish", "final", "drop"]);
                        l.push(format!("chunks {id} {sn} p{p} {} end={end}", if ps.is_empty() { "none".to_string() } else { ps.join(",") }));
                    }
                    _ => l.push(format!("pconnect {id} {sn} p{p} n={} wait=1", r.range(1, 3))),
                }
                live.push((id, sn.to_string(), p));
                busy.insert((s, p));
            }
            7..=11 => {
                recv_n += 1;
                l.push(format!("recvmsg r{recv_n} {rn} p{p}"));
            }
            12 | 13 => l.push("settle".into()),
            14 => {
                // stall / reopen a sink
                let w = if r.bool() { "A" } else { "B" };
                l.push(format!("window {w} {}", if r.bool() { "0" } else { "inf" }));
            }
            15 => {
                let w = if r.bool() { "A" } else { "B" };
                l.push(format!("release {w} {}", if r.chance(2, 3) { "0" } else { "inf" }));
            }
            16 => {
                let w = if r.bool() { "A" } else { "B" };
                l.push(format!("addrelease {w} {}", r.range(1, 4)));
                l.push("settle".into());
            }
            _ => {
                // cancel a send at a quiescent point (wherever it is waiting: credits or queue space)
                if !live.is_empty() {
                    let idx = r.below(live.len() as u64) as usize;
                    let (id, sn, p) = live.remove(idx);
                    l.push("settle".into());
                    l.push(format!("cancel {id}"));
                    l.push("settle".into());
                    busy.remove(&(if sn == "A" { 0 } else { 1 }, p));
                }
            }
        }
    }
    // open everything and drain
    l.push("window A inf".into());
    l.push("window B inf".into());
    l.push("release A inf".into());
    l.push("release B inf".into());
    l.push("settle".into());
    for round in 0..(steps + 4) {
        for p in 0..nports {
            for sn in ["A", "B"] {
                recv_n += 1;
                l.push(format!("recvmsg r{recv_n} {sn} p{p}"));
            }
        }
        if round % 4 == 3 {
            l.push("settle".into());
        }
    }
    l.push("settle".into());
    l.push("expect-drained".into());
    l.push("dropall".into());
    l.push("settle".into());
    l.push("end".into());
    l
}
