//! Script generators, one family per property.  Every random choice comes from the `Rng`
//! handed in (forked from the single VERIF_SEED stream).

use crate::{hex::hex, prng::Rng};

pub fn generate(kind: &str, r: &mut Rng, i: u64) -> Vec<String> {
    match kind {
        "smoke" => smoke(r, i),
        "link-exact" => link_exact(r, i),
        "link-burst" => link_burst(r, i),
        "link-close" => link_close(r, i),
        "link-closecancel" => link_close_cancel(r, i),
        "link-forward" => link_forward(r, i),
        "link-fwdexact" => link_fwd_exact(r, i),
        "link-fwdchunks" => link_fwd_chunks(r, i),
        "link-fwdports" => link_fwd_ports(r, i),
        "hostile" => hostile(r, i),
        "wirepeer" => wirepeer(r, i),
        "fault-idle" => fault_workload(r, 99, None),
        "conn" => conn(r, i, false),
        "conn-cycles" => conn(r, i, true),
        _ => panic!("unknown generator {kind}"),
    }
}

fn smoke(_r: &mut Rng, _i: u64) -> Vec<String> {
    let s = "cfg A chunk=8 buf=16 maxdata=32\ncfg B chunk=8 buf=16 maxdata=32\nstart\nconnect c1 A p\naccept a1 B p\nsettle\n\
             send s1 A p 000102030405060708090a0b0c0d0e0f1011\nrecv r1 B p\nsettle\nrecv r2 B p\nsettle\ndropall\nsettle\nend";
    s.lines().map(|l| l.to_string()).collect()
}

pub struct LinkCfg {
    pub chunk: [u64; 2],
    pub buf: [u64; 2],
    pub maxdata: [u64; 2],
    pub sq: [u64; 2],
    pub tq: [u64; 2],
    pub rq: [u64; 2],
}

/// Configuration pairs: small chunk sizes and receive buffers (including buffers that are not
/// multiples of four and below eight), differing per endpoint, minimal queues.
pub fn gen_cfg(r: &mut Rng) -> LinkCfg {
    let mut c = LinkCfg { chunk: [0; 2], buf: [0; 2], maxdata: [0; 2], sq: [0; 2], tq: [0; 2], rq: [0; 2] };
    for s in 0..2 {
        c.chunk[s] = *r.pick(&[4u64, 5, 7, 8, 16, 32]);
        c.buf[s] = *r.pick(&[4u64, 5, 6, 7, 8, 9, 11, 12, 13, 16, 24, 31, 64]);
        c.maxdata[s] = *r.pick(&[6u64, 8, 16, 20, 40, 100]);
        c.sq[s] = *r.pick(&[1u64, 1, 2, 16]);
        c.tq[s] = *r.pick(&[1u64, 1, 2, 16]);
        c.rq[s] = *r.pick(&[1u64, 1, 2, 16]);
    }
    c
}

pub fn cfg_lines(c: &LinkCfg) -> Vec<String> {
    (0..2)
        .map(|s| {
            format!(
                "cfg {} chunk={} buf={} maxdata={} sq={} tq={} rq={}",
                if s == 0 { "A" } else { "B" },
                c.chunk[s],
                c.buf[s],
                c.maxdata[s],
                c.sq[s],
                c.tq[s],
                c.rq[s]
            )
        })
        .collect()
}

/// Message sizes around the boundaries that matter on a link whose receiver advertised
/// `chunk`/`buf` and has `maxdata`.
pub fn msg_len(r: &mut Rng, chunk: u64, buf: u64, maxdata: u64) -> usize {
    let edges = [
        0,
        1,
        chunk - 1,
        chunk,
        chunk + 1,
        buf.saturating_sub(1),
        buf,
        buf + 1,
        maxdata - 1,
        maxdata,
        maxdata + 1,
        2 * maxdata + 3,
        2 * buf + 1,
    ];
    let n = match r.below(10) {
        0..=5 => *r.pick(&edges),
        6..=8 => r.below(3 * maxdata + 2),
        _ => r.below(8),
    };
    n.min(400) as usize
}

fn payload(r: &mut Rng, n: usize) -> String {
    hex(&r.bytes(n))
}

/// Exact mode: data flows in one direction, the opposite wire is delivered one item at a time
/// with a settle after every stimulus, so the real run is a deterministic function of the
/// script and must coincide with the model run step by step.
fn link_exact(r: &mut Rng, _i: u64) -> Vec<String> {
    let c = gen_cfg(r);
    let s = r.below(2) as usize; // sending side
    let (sn, rn) = if s == 0 { ("A", "B") } else { ("B", "A") };
    let (chunk, buf, maxdata) = (c.chunk[1 - s], c.buf[1 - s], c.maxdata[1 - s]);
    let mut l = vec!["mode exact".to_string()];
    l.extend(cfg_lines(&c));
    l.push("start".into());
    l.push(format!("connect c0 {sn} p"));
    l.push(format!("accept a0 {rn} p"));
    l.push("settle".into());
    // from here on the wire carrying credits back is stepped
    l.push(format!("release {rn} 0"));
    let nops = r.range(3, 12);
    let mut k = 0;
    let mut recvs = 0;
    let mut sends = 0;
    let mut pending_send: Option<String> = None;
    for _ in 0..nops {
        k += 1;
        match r.below(10) {
            // sender operations (only when no send call can be pending)
            0..=5 => {
                if let Some(p) = pending_send.take() {
                    // either let the receiver make room, or cancel the pending call
                    if r.chance(1, 3) {
                        l.push(format!("cancel {p}"));
                        l.push("settle".into());
                    } else {
                        for _ in 0..6 {
                            recvs += 1;
                            l.push(format!("recvmsg r{recvs} {rn} p"));
                            l.push("settle".into());
                            l.push(format!("flushstep {rn}"));
                        }
                        // it may still be pending (large message, small buffer): cancel to keep the script simple
                        l.push(format!("cancel {p}"));
                        l.push("settle".into());
                    }
                }
                let id = format!("s{k}");
                match r.below(8) {
                    0..=3 => {
                        let n = msg_len(r, chunk, buf, maxdata);
                        l.push(format!("send {id} {sn} p {}", payload(r, n)));
                        pending_send = Some(id);
                        sends += 1;
                    }
                    4 => {
                        let n = msg_len(r, chunk, buf, maxdata).min(buf as usize + 2);
                        l.push(format!("trysend {id} {sn} p {}", payload(r, n)));
                        sends += 1;
                    }
                    5 | 6 => {
                        let parts = r.range(0, 4);
                        let ps: Vec<String> = (0..parts)
                            .map(|_| {
                                let n = match r.below(4) {
                                    0 => 0,
                                    _ => msg_len(r, chunk, buf, maxdata).min(60),
                                };
                                payload(r, n)
                            })
                            .collect();
                        let end = *r.pick(&["finish", "final", "drop", "finish"]);
                        l.push(format!(
                            "chunks {id} {sn} p {} end={end}",
                            if ps.is_empty() { "none".to_string() } else { ps.join(",") }
                        ));
                        pending_send = Some(id);
                        sends += 1;
                    }
                    _ => {
                        l.push(format!("pconnect {id} {sn} p n={} wait=1", r.range(1, 4)));
                        pending_send = Some(id);
                        sends += 1;
                    }
                }
                l.push("settle".into());
                l.push(format!("flushstep {rn}"));
            }
            // receiver consumes one message; sometimes with a bare recv_any, which declines the rest of a message
            // that turns out to exceed max_data_size (the next receive call skips its remaining chunks)
            _ => {
                recvs += 1;
                if r.chance(1, 4) {
                    l.push(format!("recvskip r{recvs} {rn} p"));
                } else {
                    l.push(format!("recvmsg r{recvs} {rn} p"));
                }
                l.push("settle".into());
                l.push(format!("flushstep {rn}"));
            }
        }
    }
    // drain: the receiver keeps receiving until nothing is left
    for _ in 0..(sends + 3) {
        recvs += 1;
        l.push(format!("recvmsg r{recvs} {rn} p"));
        l.push("settle".into());
        l.push(format!("flushstep {rn}"));
    }
    if let Some(p) = pending_send.take() {
        // after the drain the last send must have completed; if it is a huge message still in
        // progress the receiver drains again
        let _ = p;
        for _ in 0..4 {
            recvs += 1;
            l.push(format!("recvmsg r{recvs} {rn} p"));
            l.push("settle".into());
            l.push(format!("flushstep {rn}"));
        }
    }
    l.push("settle".into());
    l.push("expect-drained".into());
    l.push(format!("release {rn} inf"));
    l.push("dropall".into());
    l.push("settle".into());
    l.push("end".into());
    l
}

/// Monitor mode: both directions, several ports, bursts of operations without settling,
/// stalled sinks and delayed deliveries, cancellations at arbitrary quiescent points.  Only the
/// predicates evaluated on the real trace apply (the replay is not exact here).
fn link_burst(r: &mut Rng, _i: u64) -> Vec<String> {
    let c = gen_cfg(r);
    let mut l = vec!["mode monitor".to_string()];
    // half of the runs with single-poll scheduling: operations and cancellations land between any two polls
    let fine = r.bool();
    if fine {
        l.push("fine".into());
    }
    l.extend(cfg_lines(&c));
    l.push("start".into());
    let nports = r.range(1, 3);
    for p in 0..nports {
        let side = if r.bool() { "A" } else { "B" };
        let other = if side == "A" { "B" } else { "A" };
        l.push(format!("connect c{p} {side} p{p}"));
        l.push(format!("accept a{p} {other} p{p}"));
        l.push("settle".into());
    }
    let mut k = 0;
    let mut live: Vec<(String, String, u64)> = Vec::new(); // pending send ids: (id, side, port)
    let mut busy = std::collections::HashSet::new(); // (side, port) with a possibly pending sender call
    let mut recv_n = 0;
    let steps = r.range(6, 30);
    for _ in 0..steps {
        k += 1;
        let p = r.below(nports);
        let s = r.below(2) as usize;
        let (sn, rn) = if s == 0 { ("A", "B") } else { ("B", "A") };
        let (chunk, buf, maxdata) = (c.chunk[1 - s], c.buf[1 - s], c.maxdata[1 - s]);
        if fine && r.chance(1, 2) {
            l.push(format!("yield {}", r.range(1, 25)));
            // drop a send wherever it happens to be
            if r.chance(1, 4) && !live.is_empty() {
                let idx = r.below(live.len() as u64) as usize;
                let (id, sn, p) = live.remove(idx);
                l.push(format!("cancel {id}"));
                busy.remove(&(if sn == "A" { 0 } else { 1 }, p));
            }
        }
        match r.below(20) {
            0..=6 => {
                if busy.contains(&(s, p)) {
                    continue;
                }
                let id = format!("s{k}");
                match r.below(6) {
                    0..=2 => {
                        let n = msg_len(r, chunk, buf, maxdata);
                        l.push(format!("send {id} {sn} p{p} {}", payload(r, n)));
                    }
                    3 => {
                        let n = msg_len(r, chunk, buf, maxdata).min(buf as usize + 2);
                        l.push(format!("trysend {id} {sn} p{p} {}", payload(r, n)));
                        continue;
                    }
                    4 => {
                        let parts = r.range(0, 3);
                        let ps: Vec<String> = (0..parts).map(|_| { let n = msg_len(r, chunk, buf, maxdata).min(50); payload(r, n) }).collect();
                        let end = *r.pick(&["finish", "final", "drop"]);
                        l.push(format!("chunks {id} {sn} p{p} {} end={end}", if ps.is_empty() { "none".to_string() } else { ps.join(",") }));
                    }
                    _ => l.push(format!("pconnect {id} {sn} p{p} n={} wait=1", r.range(1, 3))),
                }
                live.push((id, sn.to_string(), p));
                busy.insert((s, p));
            }
            7..=11 => {
                recv_n += 1;
                l.push(format!("recvmsg r{recv_n} {rn} p{p}"));
            }
            12 => l.push("settle".into()),
            13 => {
                // drop whatever receive call is pending on this port (possibly inside return_flush)
                l.push(format!("cancelcalls {rn} p{p} rx"));
                if r.bool() {
                    l.push("settle".into());
                }
            }
            14 => {
                // stall / reopen a sink
                let w = if r.bool() { "A" } else { "B" };
                l.push(format!("window {w} {}", if r.bool() { "0" } else { "inf" }));
            }
            15 => {
                let w = if r.bool() { "A" } else { "B" };
                l.push(format!("release {w} {}", if r.chance(2, 3) { "0" } else { "inf" }));
            }
            16 => {
                let w = if r.bool() { "A" } else { "B" };
                l.push(format!("addrelease {w} {}", r.range(1, 4)));
                l.push("settle".into());
            }
            _ => {
                // cancel a send at a quiescent point (wherever it is waiting: credits or queue space)
                if !live.is_empty() {
                    let idx = r.below(live.len() as u64) as usize;
                    let (id, sn, p) = live.remove(idx);
                    l.push("settle".into());
                    l.push(format!("cancel {id}"));
                    l.push("settle".into());
                    busy.remove(&(if sn == "A" { 0 } else { 1 }, p));
                }
            }
        }
    }
    // open everything and drain
    l.push("window A inf".into());
    l.push("window B inf".into());
    l.push("release A inf".into());
    l.push("release B inf".into());
    l.push("settle".into());
    for round in 0..(steps + 4) {
        for p in 0..nports {
            for sn in ["A", "B"] {
                recv_n += 1;
                l.push(format!("recvmsg r{recv_n} {sn} p{p}"));
            }
        }
        if round % 4 == 3 {
            l.push("settle".into());
        }
    }
    l.push("settle".into());
    l.push("expect-drained".into());
    l.push("dropall".into());
    l.push("settle".into());
    l.push("end".into());
    l
}

/// Hostile peer: only endpoint B is real; the script plays the remote endpoint by injecting
/// frames.  A valid prefix (handshake, opened ports, data within credit) is followed by odd but
/// legal frames and by one violating frame, after which local API calls must all return.
fn hostile(r: &mut Rng, _i: u64) -> Vec<String> {
    let chunk = *r.pick(&[4u64, 8, 16]);
    let buf = *r.pick(&[4u64, 8, 16, 31]);
    let cq = *r.pick(&[1u64, 2, 3]);
    let ports = *r.pick(&[2u64, 4, 16]);
    let rcq = *r.pick(&[1u64, 2, 8]);
    let rbuf = *r.pick(&[4u64, 16, 64]);
    let mut l = vec!["mode hostile".to_string()];
    let maxports = *r.pick(&[1u64, 2, 4]);
    l.push(format!("cfg B chunk={chunk} buf={buf} cq={cq} ports={ports} maxdata=64 maxports={maxports}"));
    l.push("startb".into());
    // handshake, possibly preceded by frames that must be ignored
    if r.chance(1, 4) {
        match r.below(3) {
            0 => l.push("inject A 63".into()),
            1 => l.push("injectm A ping".into()),
            _ => l.push("inject A 0243484d55".into()),
        }
    }
    l.push("injectm A reset".into());
    let ver = if r.chance(1, 4) { 2 } else { 3 };
    l.push(format!("injectm A hello {ver} 0 {} {rbuf} {rcq}", *r.pick(&[4u64, 8, 16])));
    l.push("settle".into());
    let mut k = 0u32;
    let mut open: Vec<(String, u64)> = Vec::new(); // (name, unconsumed cost)
    let mut next_cp = 1u32;
    let mut unanswered = 0u64;
    let mut bconn = 0u32; // OpenPort requests sent by B
    let steps = r.range(2, 14);
    let mut terminal = false;
    for _ in 0..steps {
        k += 1;
        match r.below(24) {
            0..=4 => {
                // the peer opens a port and B accepts it
                let cp = next_cp;
                next_cp += 1;
                let wait = r.bool() as u8;
                if ver == 3 && r.bool() {
                    l.push(format!("injectm A openPort {cp} {wait} {}", cp + 1000));
                } else {
                    l.push(format!("injectm A openPort {cp} {wait} -"));
                }
                let name = format!("p{k}");
                l.push(format!("accept a{k} B {name}"));
                l.push("settle".into());
                open.push((name, 0));
            }
            5 | 6 => {
                // B connects, the peer answers (or not)
                l.push(format!("connect c{k} B q{k} wait=1"));
                l.push("settle".into());
                match r.below(4) {
                    0 | 1 => {
                        l.push(format!("injectm A portOpened $open{bconn} {}", 5000 + k));
                        l.push("settle".into());
                        open.push((format!("q{k}"), 0));
                    }
                    2 => {
                        l.push(format!("injectm A rejected $open{bconn} {}", r.bool() as u8));
                        l.push("settle".into());
                    }
                    _ => {}
                }
                bconn += 1;
            }
            7..=11 => {
                // valid data within chunk size and credit
                if open.is_empty() {
                    continue;
                }
                let idx = r.below(open.len() as u64) as usize;
                let len = r.below(chunk + 1);
                let cost = len.max(1);
                if open[idx].1 + cost > buf {
                    continue;
                }
                open[idx].1 += cost;
                let name = open[idx].0.clone();
                l.push(format!("injectm A data ${name} 1 1"));
                l.push(format!("inject A {}", hex(&r.bytes(len as usize))));
                l.push("settle".into());
            }
            12..=14 => {
                // the local application consumes one message
                if let Some(idx) = (0..open.len()).find(|i| open[*i].1 > 0) {
                    let name = open[idx].0.clone();
                    l.push(format!("recvany r{k} B {name}"));
                    l.push("settle".into());
                    // exact cost unknown to the generator after several messages: be conservative
                    open[idx].1 = open[idx].1.saturating_sub(1).min(buf);
                    if r.bool() {
                        open[idx].1 = 0;
                        for j in 0..4 {
                            l.push(format!("recvany r{k}x{j} B {name}"));
                        }
                        l.push("settle".into());
                        l.push(format!("cancel r{k}x0"));
                        l.push(format!("cancel r{k}x1"));
                        l.push(format!("cancel r{k}x2"));
                        l.push(format!("cancel r{k}x3"));
                        l.push("settle".into());
                    }
                }
            }
            15 => {
                // odd but legal
                match r.below(6) {
                    0 => l.push("injectm A ping".into()),
                    1 => l.push("injectm A listenerFinish".into()),
                    2 => l.push("injectm A clientFinish".into()),
                    3 => {
                        if let Some((name, _)) = open.first() {
                            l.push(format!("injectm A receiveFinish ${name}"));
                            l.push(format!("injectm A receiveFinish ${name}"));
                        }
                    }
                    4 => {
                        if let Some((name, _)) = open.first() {
                            l.push(format!("injectm A portCredits ${name} {}", r.below(100)));
                        }
                    }
                    _ => {
                        // unanswered request left in the listener queue
                        if unanswered < cq {
                            l.push(format!("injectm A openPort {} 1 -", 700 + k));
                            unanswered += 1;
                        }
                    }
                }
                l.push("settle".into());
            }
            _ => {
                // one violating (or terminating) frame
                terminal = true;
                let name = open.first().map(|(n, _)| n.clone());
                match r.below(24) {
                    22 | 23 => {
                        // a port batch that never ends: more ports than the receiver accepts per message,
                        // one port per frame, the application is receiving (so credits keep flowing back)
                        if let Some(n) = &name {
                            l.push(format!("recvany rb{k} B {n}"));
                            l.push("settle".into());
                            for j in 0..(maxports + 3) {
                                l.push(format!("injectm A portData ${n} {} 0 1 {} none", (j == 0) as u8, 40000 + 10 * k as u64 + j));
                                l.push("settle".into());
                            }
                        }
                    }
                    0 => l.push("inject A 63".into()),
                    1 => l.push("inject A -".into()),
                    2 => l.push("inject A 0701".into()),
                    3 => l.push("injectm A hello 3 0 8 16 1".into()),
                    4 => l.push("injectm A reset".into()),
                    5 => {
                        l.push("injectm A data 123456 1 1".into());
                        l.push("inject A 00".into());
                    }
                    6 => {
                        // data for a port that is only connecting
                        l.push(format!("connect cx{k} B qx{k} wait=1"));
                        l.push("settle".into());
                        l.push(format!("injectm A data $open{bconn} 1 1"));
                        l.push("inject A 00".into());
                    }
                    7 => {
                        if let Some(n) = &name {
                            l.push(format!("injectm A data ${n} 1 0"));
                            l.push(format!("inject A {}", hex(&r.bytes(chunk as usize + 1))));
                        }
                    }
                    8 => {
                        // exceed the credit: keep sending without the application consuming
                        if let Some(n) = &name {
                            let len = chunk.min(buf).max(1);
                            for _ in 0..(buf / len + 2) {
                                l.push(format!("injectm A data ${n} 1 1"));
                                l.push(format!("inject A {}", hex(&r.bytes(len as usize))));
                            }
                        }
                    }
                    9 => {
                        if let Some(n) = &name {
                            l.push(format!("injectm A portCredits ${n} 4294967295"));
                            l.push(format!("injectm A portCredits ${n} 4294967295"));
                        }
                    }
                    10 => l.push("injectm A portCredits 99999 1".into()),
                    11 => {
                        l.push("injectm A openPort 900 1 -".into());
                        l.push("injectm A openPort 900 1 -".into());
                    }
                    12 => {
                        for j in 0..(cq + 3) {
                            l.push(format!("injectm A openPort {} 0 -", 800 + j));
                        }
                    }
                    13 => {
                        if let Some(n) = &name {
                            l.push(format!("injectm A portOpened ${n} 77"));
                        } else {
                            l.push("injectm A portOpened 31337 77".into());
                        }
                    }
                    14 => l.push("injectm A rejected 31337 0".into()),
                    15 => {
                        if let Some(n) = &name {
                            l.push(format!("injectm A sendFinish ${n}"));
                            l.push(format!("injectm A sendFinish ${n}"));
                        }
                    }
                    16 => {
                        if let Some(n) = &name {
                            l.push(format!("injectm A receiveClose ${n}"));
                            l.push(format!("injectm A receiveClose ${n}"));
                        }
                    }
                    17 => l.push("injectm A receiveFinish 4242".into()),
                    18 => {
                        if let Some(n) = &name {
                            match r.below(3) {
                                0 => l.push(format!("injectm A portData ${n} 1 1 1 5,5 none")),
                                1 => {
                                    let cnt = chunk / 4 + 1;
                                    let ps: Vec<String> = (0..cnt).map(|j| (600 + j).to_string()).collect();
                                    l.push(format!("injectm A portData ${n} 1 1 1 {} none", ps.join(",")));
                                }
                                _ => {
                                    for j in 0..(buf / 4 + 1) {
                                        l.push(format!("injectm A portData ${n} 1 1 0 {} none", 300 + j));
                                    }
                                }
                            }
                        }
                    }
                    19 => {
                        // flood of port batches without ports (cost no credit), then look at the queue
                        if let Some(n) = &name {
                            for _ in 0..(buf + 40) {
                                l.push(format!("injectm A portData ${n} 0 0 0 - none"));
                            }
                            l.push("settle".into());
                            l.push(format!("probe pr{k} B {n}"));
                        }
                    }
                    20 => {
                        for _ in 0..(cq + 3) {
                            l.push("injectm A clientFinish".into());
                        }
                    }
                    _ => l.push("injectm A goodbye".into()),
                }
                l.push("settle".into());
                break;
            }
        }
    }
    // afterwards every local API call must return (with an error if the dispatcher is gone)
    k += 100;
    if let Some((name, _)) = open.first() {
        l.push(format!("send s{k} B {name} 0102"));
        l.push(format!("recvany r{k} B {name}"));
        l.push("settle".into());
        if !terminal {
            l.push(format!("cancel r{k}"));
            l.push(format!("cancel s{k}"));
        }
    }
    if terminal {
        l.push(format!("connect c{k} B z{k} wait=1"));
        l.push(format!("accept a{k} B y{k}"));
        l.push("settle".into());
    }
    l.push("settle".into());
    l.push("end".into());
    l
}

/// Connection-level scenarios for C07/C10: concurrent connects, accepts, inspected requests that
/// are accepted, rejected or dropped, cancelled calls, port batches, drops in any order, small
/// `max_ports` and `connect_queue`; every step is followed by a settle so that the run is a
/// deterministic function of the script.  `cycles`: repeated open/transfer/close rounds.
fn conn(r: &mut Rng, _i: u64, cycles: bool) -> Vec<String> {
    let mut l = vec!["mode exact".to_string()];
    let mut cq = [0u64; 2];
    let mut ports = [0u64; 2];
    for s in 0..2 {
        cq[s] = *r.pick(&[1u64, 1, 2, 3]);
        ports[s] = *r.pick(&[1u64, 2, 3, 4, 8]);
        l.push(format!(
            "cfg {} chunk={} buf={} cq={} ports={} maxdata=64 sq={} tq={} rq={}",
            if s == 0 { "A" } else { "B" },
            *r.pick(&[4u64, 8, 16]),
            *r.pick(&[8u64, 16, 31]),
            cq[s],
            ports[s],
            *r.pick(&[1u64, 2, 16]),
            *r.pick(&[1u64, 2, 16]),
            *r.pick(&[1u64, 2, 16])
        ));
    }
    l.push("tasks".into());
    l.push("start".into());
    l.push("tasks".into());
    let sides = ["A", "B"];
    let mut k = 0u32;
    // handles that may exist: (side, name)
    let mut handles: Vec<(usize, String)> = Vec::new();
    let mut reqs: Vec<(usize, String)> = Vec::new();
    let mut pending: Vec<String> = Vec::new();
    // prologue (when a side has a single port number): an accept that is cancelled while it waits for a free
    // port number must leave the request in the listener queue; it is accepted once the port has been released
    for s in 0..2 {
        let o = 1 - s;
        if ports[s] == 1 && ports[o] >= 2 && r.chance(1, 2) {
            l.push(format!("connect cp{s} {} cp{s} wait=1", sides[o]));
            l.push(format!("accept ap{s} {} ap{s}", sides[s]));
            l.push("settle".into());
            l.push(format!("connect cq{s} {} cq{s} wait=1", sides[o]));
            l.push("settle".into());
            l.push(format!("accept aq{s} {} aq{s}", sides[s]));
            l.push("settle".into());
            l.push(format!("cancel aq{s}"));
            l.push("settle".into());
            for h in [format!("{} ap{s}", sides[s]), format!("{} cp{s}", sides[o])] {
                l.push(format!("drop {h} tx"));
                l.push(format!("drop {h} rx"));
            }
            l.push("settle".into());
            l.push(format!("accept ar{s} {} ar{s}", sides[s]));
            l.push("settle".into());
            handles.push((s, format!("ar{s}")));
            handles.push((o, format!("cq{s}")));
            break;
        }
    }
    // prologue 2 (single port number): two connects wait for the port number, the later one is abandoned; when the
    // number is released the waiter that is still alive must get it
    for s in 0..2 {
        let o = 1 - s;
        if ports[s] == 1 && handles.is_empty() && r.chance(1, 2) {
            l.push(format!("connect cw1{s} {} cw1{s} wait=1", sides[s]));
            l.push(format!("accept aw1{s} {} aw1{s}", sides[o]));
            l.push("settle".into());
            l.push(format!("connect cw2{s} {} cw2{s} wait=1", sides[s]));
            l.push("settle".into());
            l.push(format!("connect cw3{s} {} cw3{s} wait=1", sides[s]));
            l.push("settle".into());
            l.push(format!("cancel cw3{s}"));
            l.push("settle".into());
            for h in [format!("{} cw1{s}", sides[s]), format!("{} aw1{s}", sides[o])] {
                l.push(format!("drop {h} tx"));
                l.push(format!("drop {h} rx"));
            }
            l.push("settle".into());
            l.push(format!("accept aw2{s} {} aw2{s}", sides[o]));
            l.push("settle".into());
            handles.push((s, format!("cw2{s}")));
            handles.push((o, format!("aw2{s}")));
            break;
        }
    }
    let rounds = if cycles { r.range(3, 8) } else { 1 };
    for round in 0..rounds {
        let steps = if cycles { r.range(3, 8) } else { r.range(4, 18) };
        for _ in 0..steps {
            k += 1;
            let s = r.below(2) as usize;
            match r.below(20) {
                0..=5 => {
                    let wait = if r.chance(3, 4) { 1 } else { 0 };
                    l.push(format!("connect c{k} {} c{k} wait={wait}", sides[s]));
                    handles.push((s, format!("c{k}")));
                    pending.push(format!("c{k}"));
                }
                6..=9 => {
                    l.push(format!("accept a{k} {} a{k}", sides[s]));
                    handles.push((s, format!("a{k}")));
                    pending.push(format!("a{k}"));
                }
                10 | 11 => {
                    l.push(format!("inspect i{k} {} q{k}", sides[s]));
                    reqs.push((s, format!("q{k}")));
                    pending.push(format!("i{k}"));
                }
                12 | 13 => {
                    if !reqs.is_empty() {
                        let idx = r.below(reqs.len() as u64) as usize;
                        let (rs, rn) = reqs.remove(idx);
                        match r.below(4) {
                            0 | 1 => {
                                l.push(format!("reqaccept x{k} {} {rn} x{k}", sides[rs]));
                                handles.push((rs, format!("x{k}")));
                                pending.push(format!("x{k}"));
                            }
                            2 => l.push(format!("reqreject x{k} {} {rn} {}", sides[rs], r.bool() as u8)),
                            _ => l.push(format!("reqdrop {} {rn}", sides[rs])),
                        }
                    } else {
                        continue;
                    }
                }
                14 => {
                    // ports sent over an existing port
                    if let Some((hs, hn)) = handles.first().cloned() {
                        l.push(format!("pconnect pc{k} {} {hn} n={} wait=1", sides[hs], r.range(1, 2)));
                        l.push("settle".into());
                        l.push(format!("recvany pr{k} {} {hn}", sides[1 - hs]));
                        // (the receiving side's handle of that port has another name; the op is harmless if missing)
                        for i in 0..2 {
                            reqs.push((1 - hs, format!("pr{k}.{i}")));
                            handles.push((hs, format!("pc{k}.{i}")));
                        }
                    }
                }
                15 => {
                    if !pending.is_empty() {
                        let idx = r.below(pending.len() as u64) as usize;
                        let c = pending.remove(idx);
                        l.push(format!("cancel {c}"));
                    }
                }
                16 | 17 => {
                    if !handles.is_empty() {
                        let idx = r.below(handles.len() as u64) as usize;
                        let (hs, hn) = handles[idx].clone();
                        match r.below(4) {
                            0 => l.push(format!("drop {} {hn} tx", sides[hs])),
                            1 => l.push(format!("drop {} {hn} rx", sides[hs])),
                            2 => l.push(format!("close cl{k} {} {hn}", sides[hs])),
                            _ => {
                                l.push(format!("drop {} {hn} tx", sides[hs]));
                                l.push(format!("drop {} {hn} rx", sides[hs]));
                                handles.remove(idx);
                            }
                        }
                    }
                }
                18 => {
                    match r.below(3) {
                        0 => l.push(format!("labelall lb{k}")),
                        1 => {
                            // a connect races with the peer dropping its listener: the ListenerFinish is held
                            // back on the wire while the OpenPort travels
                            let o = 1 - s;
                            l.push(format!("release {} 0", sides[o]));
                            l.push(format!("droplistener {}", sides[o]));
                            l.push("settle".into());
                            l.push(format!("connect c{k} {} c{k} wait=1", sides[s]));
                            handles.push((s, format!("c{k}")));
                            pending.push(format!("c{k}"));
                            l.push("settle".into());
                            l.push(format!("release {} inf", sides[o]));
                        }
                        _ => {
                            // an accept (or request answer) cancelled while it waits for space in a full
                            // event queue behind a stalled sink; afterwards the sink is reopened
                            let o = 1 - s;
                            l.push(format!("connect c{k} {} c{k} wait=1", sides[o]));
                            handles.push((o, format!("c{k}")));
                            pending.push(format!("c{k}"));
                            l.push("settle".into());
                            l.push(format!("window {} 0", sides[s]));
                            l.push(format!("labelall lb{k}"));
                            l.push("settle".into());
                            l.push(format!("accept a{k} {} a{k}", sides[s]));
                            handles.push((s, format!("a{k}")));
                            l.push("settle".into());
                            l.push(format!("cancel a{k}"));
                            l.push("settle".into());
                            l.push(format!("window {} inf", sides[s]));
                        }
                    }
                }
                _ => {
                    if !cycles && r.chance(1, 3) {
                        match r.below(2) {
                            0 => l.push(format!("dropclient {}", sides[s])),
                            _ => l.push(format!("droplistener {}", sides[s])),
                        }
                    } else {
                        l.push(format!("labelall lb{k}"));
                    }
                }
            }
            l.push("settle".into());
        }
        if cycles {
            // close the round: exchange labels, then drop every port and request
            l.push(format!("labelall lbr{round}"));
            l.push("settle".into());
            for c in pending.drain(..) {
                l.push(format!("cancel {c}"));
            }
            for (rs, rn) in reqs.drain(..) {
                l.push(format!("reqdrop {} {rn}", sides[rs]));
            }
            // drop in random order
            while !handles.is_empty() {
                let idx = r.below(handles.len() as u64) as usize;
                let (hs, hn) = handles.remove(idx);
                if r.bool() {
                    l.push(format!("drop {} {hn} tx", sides[hs]));
                    l.push(format!("drop {} {hn} rx", sides[hs]));
                } else {
                    l.push(format!("drop {} {hn} rx", sides[hs]));
                    l.push(format!("drop {} {hn} tx", sides[hs]));
                }
                if r.chance(1, 3) {
                    l.push("settle".into());
                }
            }
            l.push("settle".into());
            l.push("alloccheck A".into());
            l.push("alloccheck B".into());
        }
    }
    // final: everything is dropped, in random order; the allocators must be back to full capacity
    for c in pending.drain(..) {
        l.push(format!("cancel {c}"));
    }
    l.push("settle".into());
    for (rs, rn) in reqs.drain(..) {
        l.push(format!("reqdrop {} {rn}", sides[rs]));
    }
    while !handles.is_empty() {
        let idx = r.below(handles.len() as u64) as usize;
        let (hs, hn) = handles.remove(idx);
        l.push(format!("drop {} {hn} tx", sides[hs]));
        l.push(format!("drop {} {hn} rx", sides[hs]));
        if r.chance(1, 4) {
            l.push("settle".into());
        }
    }
    l.push("settle".into());
    l.push("dropports".into());
    l.push("settle".into());
    l.push("alloccheck A".into());
    l.push("alloccheck B".into());
    if r.chance(1, 3) {
        // shutdown with a request still held by the application of one side: everything else of both
        // sides is dropped, the dispatchers must keep running (no Goodbye) until the request is answered
        let c = r.below(2) as usize;
        let v = 1 - c;
        l.push(format!("connect cH {} cH wait=1", sides[c]));
        l.push("settle".into());
        l.push(format!("inspect iH {} rH", sides[v]));
        l.push("settle".into());
        let mut ops = vec![
            format!("droplistener {}", sides[v]),
            format!("dropclient {}", sides[v]),
            format!("dropclient {}", sides[c]),
        ];
        if r.bool() {
            ops.push(format!("droplistener {}", sides[c]));
        }
        while !ops.is_empty() {
            let i = r.below(ops.len() as u64) as usize;
            l.push(ops.remove(i));
            if r.chance(1, 3) {
                l.push("settle".into());
            }
        }
        l.push("settle".into());
        l.push("settle".into());
        if r.bool() {
            l.push(format!("reqdrop {} rH", sides[v]));
        } else {
            l.push(format!("reqreject xH {} rH {}", sides[v], r.bool() as u8));
        }
        l.push("settle".into());
    }
    l.push("droplistener A".into());
    l.push("droplistener B".into());
    l.push("settle".into());
    l.push("alloccheck A final".into());
    l.push("alloccheck B final".into());
    l.push("dropall".into());
    l.push("settle".into());
    l.push("tasks".into());
    l.push("end".into());
    l
}

/// C09 on the wire: one real endpoint talks to a spec peer (the script) that announces protocol
/// version 2 or 3; the endpoint opens ports through its client (default and custom ids) and sends
/// port batches over a port (default and custom ids, split over several frames by small credits),
/// data of various sizes, credits, closes and finishes.  Every frame it emits is checked against the
/// spec codec and against what may be sent to a peer of that version.
fn wirepeer(r: &mut Rng, _i: u64) -> Vec<String> {
    let ver = *r.pick(&[2u64, 3, 3, 2, 1, 4]);
    let chunk = *r.pick(&[4u64, 8, 16]);
    let rbuf = *r.pick(&[4u64, 8, 16, 64]);
    let mut l = vec!["mode wirepeer".to_string()];
    l.push(format!("cfg B chunk={chunk} buf={} cq=4 ports=32 maxdata=64", *r.pick(&[8u64, 16, 64])));
    l.push("startb".into());
    l.push("injectm A reset".into());
    l.push(format!("injectm A hello {ver} 0 {} {rbuf} 8", *r.pick(&[4u64, 8, 16])));
    l.push("settle".into());
    let mut k = 0u32;
    let mut nopen = 0u32;
    let mut ports: Vec<String> = Vec::new();
    for _ in 0..r.range(2, 8) {
        k += 1;
        match r.below(10) {
            0..=3 => {
                // the endpoint connects, with a default or a custom id
                if r.bool() {
                    l.push(format!("connect c{k} B q{k} wait={} id={}", r.bool() as u8, 100000 + k));
                } else {
                    l.push(format!("connect c{k} B q{k} wait={}", r.bool() as u8));
                }
                l.push("settle".into());
                l.push(format!("injectm A portOpened $open{nopen} {}", 7000 + k));
                l.push("settle".into());
                nopen += 1;
                ports.push(format!("q{k}"));
            }
            4..=6 => {
                if let Some(p) = ports.first().cloned() {
                    l.push(format!(
                        "pconnect pc{k} B {p} n={} wait={} ids={}",
                        r.range(1, 5),
                        r.bool() as u8,
                        if r.bool() { "custom" } else { "default" }
                    ));
                    l.push("settle".into());
                    // hand out credits so that a batch split over several frames can continue
                    for _ in 0..3 {
                        l.push(format!("injectm A portCredits ${p} 8"));
                        l.push("settle".into());
                    }
                }
            }
            7 | 8 => {
                if let Some(p) = ports.first().cloned() {
                    let n = r.below(3 * chunk + 2) as usize;
                    l.push(format!("send s{k} B {p} {}", hex(&r.bytes(n))));
                    l.push("settle".into());
                    l.push(format!("injectm A portCredits ${p} {}", n.max(1)));
                    l.push("settle".into());
                }
            }
            _ => {
                if let Some(p) = ports.first().cloned() {
                    match r.below(3) {
                        0 => l.push(format!("close cl{k} B {p}")),
                        1 => l.push(format!("drop B {p} rx")),
                        _ => l.push(format!("drop B {p} tx")),
                    }
                    l.push("settle".into());
                }
            }
        }
    }
    l.push("dropall".into());
    l.push("settle".into());
    l.push("end".into());
    l
}

/// C11 at port level (exact mode): a stream of messages with a close / receiver drop / sender drop
/// at a random position (also inside a chunked message), followed by further sends, the receiver
/// draining until end-of-stream or until nothing is left.
/// C11: a `close()` of the receiving half that waits for space in the event queue behind a stalled sink is
/// cancelled there; the application then calls `close()` again.  The second call must still reach the sender:
/// with all wires open again the sender must be closed and a new send must fail (predicates only: both
/// directions carry data and the sink is stalled).
fn link_close_cancel(r: &mut Rng, _i: u64) -> Vec<String> {
    let mut c = gen_cfg(r);
    let s = r.below(2) as usize;
    let (sn, rn) = if s == 0 { ("A", "B") } else { ("B", "A") };
    // minimal queues on the closing side so that a few sends fill them; enough credit for these sends
    c.sq[1 - s] = 1;
    c.tq[1 - s] = 1;
    c.buf[s] = c.buf[s].max(8);
    let mut l = vec!["mode monitor".to_string()];
    l.extend(cfg_lines(&c));
    l.push("start".into());
    l.push(format!("connect c0 {sn} p"));
    l.push(format!("accept a0 {rn} p"));
    l.push("settle".into());
    if r.bool() {
        let n0 = r.range(1, 6) as usize;
        l.push(format!("send s0 {sn} p {}", payload(r, n0)));
        l.push("settle".into());
        l.push(format!("recvmsg r0 {rn} p"));
        l.push("settle".into());
    }
    l.push(format!("window {rn} 0"));
    let fill = r.range(4, 6);
    for j in 0..fill {
        l.push(format!("send f{j} {rn} p {:02x}", j + 1));
    }
    l.push("settle".into());
    l.push(format!("close cl {rn} p"));
    l.push("settle".into());
    l.push("cancel cl".into());
    l.push("settle".into());
    l.push(format!("window {rn} inf"));
    l.push("settle".into());
    if r.chance(1, 3) {
        // (a third attempt, cancelled at once)
        l.push(format!("close clb {rn} p"));
        l.push("cancel clb".into());
        l.push("settle".into());
    }
    l.push(format!("close cl2 {rn} p"));
    l.push("settle".into());
    l.push("settle".into());
    l.push(format!("isclosed q1 {sn} p"));
    l.push("settle".into());
    l.push(format!("send sx {sn} p 0a0b"));
    l.push("settle".into());
    for j in 0..fill {
        l.push(format!("recvmsg g{j} {sn} p"));
        l.push("settle".into());
    }
    l.push(format!("cancelcalls {rn} p tx"));
    l.push(format!("cancelcalls {sn} p rx"));
    l.push(format!("cancelcalls {sn} p tx"));
    l.push("settle".into());
    l.push("dropall".into());
    l.push("settle".into());
    l.push("end".into());
    l
}

fn link_close(r: &mut Rng, _i: u64) -> Vec<String> {
    let c = gen_cfg(r);
    let s = r.below(2) as usize;
    let (sn, rn) = if s == 0 { ("A", "B") } else { ("B", "A") };
    let (chunk, buf, maxdata) = (c.chunk[1 - s], c.buf[1 - s], c.maxdata[1 - s]);
    let mut l = vec!["mode exact".to_string()];
    l.extend(cfg_lines(&c));
    l.push("start".into());
    l.push(format!("connect c0 {sn} p"));
    l.push(format!("accept a0 {rn} p"));
    l.push("settle".into());
    l.push(format!("release {rn} 0"));
    let n = r.range(2, 7);
    let at = r.below(n + 1);
    let kind = r.below(4); // 0 close, 1 drop receiver, 2 drop sender, 3 close then drop receiver
    let mut k = 0;
    let mut recvs = 0;
    let mut sender_dropped = false;
    let mut receiver_dropped = false;
    for i in 0..n {
        if i == at {
            // the receive handle must be idle for close/drop to take effect at this point
            if recvs > 0 {
                l.push(format!("cancelcalls {rn} p rx"));
                l.push("settle".into());
            }
            match kind {
                0 => l.push(format!("close cl {rn} p")),
                1 => {
                    l.push(format!("drop {rn} p rx"));
                    receiver_dropped = true;
                }
                2 => {
                    l.push(format!("drop {sn} p tx"));
                    sender_dropped = true;
                }
                _ => {
                    l.push(format!("close cl {rn} p"));
                    l.push("settle".into());
                    l.push(format!("flushstep {rn}"));
                    l.push(format!("drop {rn} p rx"));
                    receiver_dropped = true;
                }
            }
            l.push("settle".into());
            // sometimes the sender learns of it only later: the notification is delivered by flushstep
            if r.bool() {
                l.push(format!("flushstep {rn}"));
            }
            if r.chance(1, 3) && !sender_dropped {
                k += 1;
                l.push(format!("isclosed q{k} {sn} p"));
                l.push("settle".into());
            }
        }
        if sender_dropped {
            break;
        }
        k += 1;
        match r.below(4) {
            0 | 1 => {
                let len = msg_len(r, chunk, buf, maxdata).min(3 * buf as usize);
                l.push(format!("send s{k} {sn} p {}", payload(r, len)));
            }
            2 => {
                let parts = r.range(1, 3);
                let ps: Vec<String> = (0..parts).map(|_| { let n = msg_len(r, chunk, buf, maxdata).min(30); payload(r, n) }).collect();
                l.push(format!("chunks s{k} {sn} p {} end={}", ps.join(","), *r.pick(&["finish", "final"])));
            }
            _ => {
                let len = msg_len(r, chunk, buf, maxdata).min(buf as usize);
                l.push(format!("trysend s{k} {sn} p {}", payload(r, len)));
            }
        }
        l.push("settle".into());
        l.push(format!("flushstep {rn}"));
        // the receiver consumes now and then
        if !receiver_dropped && r.chance(2, 3) {
            recvs += 1;
            l.push(format!("recvmsg r{recvs} {rn} p"));
            l.push("settle".into());
            l.push(format!("flushstep {rn}"));
        }
        // a send that is still waiting for credits is cancelled to keep one call per handle
        l.push(format!("cancel s{k}"));
        l.push("settle".into());
    }
    if !sender_dropped && r.bool() {
        l.push(format!("drop {sn} p tx"));
        l.push("settle".into());
    }
    if !receiver_dropped {
        for _ in 0..(n + 3) {
            recvs += 1;
            l.push(format!("recvmsg r{recvs} {rn} p"));
            l.push("settle".into());
            l.push(format!("flushstep {rn}"));
        }
        l.push("settle".into());
        l.push("expect-drained".into());
    }
    l.push(format!("release {rn} inf"));
    if r.chance(1, 2) {
        // tear the port down half by half in a random order (a closed receiver may be dropped long after
        // everything else), then check on a second port that the connection is still alive
        l.push(format!("cancelcalls {rn} p rx"));
        l.push(format!("cancelcalls {sn} p tx"));
        l.push("settle".into());
        let mut halves = vec![(sn, "tx"), (sn, "rx"), (rn, "tx"), (rn, "rx")];
        if r.chance(1, 2) && !receiver_dropped {
            l.push(format!("close clz {rn} p"));
            l.push("settle".into());
        }
        while !halves.is_empty() {
            let i = r.below(halves.len() as u64) as usize;
            let (x, h) = halves.remove(i);
            l.push(format!("drop {x} p {h}"));
            if r.chance(2, 3) {
                l.push("settle".into());
            }
        }
        l.push("settle".into());
        l.push(format!("connect cz {sn} q"));
        l.push(format!("accept az {rn} q"));
        l.push("settle".into());
        l.push(format!("send sz {sn} q {}", payload(r, 3)));
        l.push("settle".into());
        l.push(format!("recvany rz {rn} q"));
        l.push("settle".into());
    }
    l.push("dropall".into());
    l.push("settle".into());
    l.push("end".into());
    l
}

/// A port forwarder (`Receiver::forward`, as used by forwarded `rch::bin` channels) between two ports of one
/// connection: A sends on p, B forwards p into q, A receives on q.  The downstream receiver reads little, closes
/// gracefully at some point and drains; everything whose send on p completed must still arrive on q (C11 across
/// a forwarder that is busy relaying when the close arrives).
fn link_forward(r: &mut Rng, _i: u64) -> Vec<String> {
    let c = gen_cfg(r);
    let mut l = vec!["mode monitor".to_string()];
    let fine = r.bool();
    if fine {
        l.push("fine".into());
    }
    l.extend(cfg_lines(&c));
    l.push("start".into());
    l.push("connect c0 A p".into());
    l.push("accept a0 B p".into());
    l.push("settle".into());
    l.push("connect c1 B q".into());
    l.push("accept a1 A q".into());
    l.push("settle".into());
    l.push("forward f B p q".into());
    l.push("settle".into());
    // sizes: A -> B uses B's receive side, B -> A uses A's
    let (chunk, buf, maxdata) = (c.chunk[1], c.buf[1].min(c.buf[0]), c.maxdata[0].min(c.maxdata[1]));
    let n = r.range(2, 9);
    let close_at = r.below(n + 1);
    let mut recvs = 0;
    let mut closed = false;
    for i in 0..n {
        if i == close_at {
            if recvs > 0 {
                l.push("cancelcalls A q rx".into());
                l.push("settle".into());
            }
            l.push("close clq A q".into());
            closed = true;
            match r.below(3) {
                0 => l.push("settle".into()),
                1 if fine => l.push(format!("yield {}", r.range(1, 30))),
                _ => {}
            }
        }
        let id = format!("s{i}");
        if r.chance(1, 4) {
            let parts = r.range(1, 3);
            let ps: Vec<String> = (0..parts).map(|_| { let n = msg_len(r, chunk, buf, maxdata).min(40); payload(r, n) }).collect();
            l.push(format!("chunks {id} A p {} end=finish", ps.join(",")));
        } else {
            let len = msg_len(r, chunk, buf, maxdata).min(3 * buf as usize).min(maxdata as usize);
            l.push(format!("send {id} A p {}", payload(r, len)));
        }
        if fine && r.bool() {
            l.push(format!("yield {}", r.range(1, 40)));
        }
        l.push("settle".into());
        // the downstream receiver reads now and then (rarely before the close, so that the forwarder backs up)
        if r.chance(if closed { 1 } else { 1 }, if closed { 2 } else { 4 }) {
            recvs += 1;
            l.push(format!("recvmsg r{recvs} A q"));
            l.push("settle".into());
        }
        // one call per handle: a send still waiting for credits is dropped
        l.push(format!("cancel {id}"));
        l.push("settle".into());
    }
    if !closed {
        if recvs > 0 {
            l.push("cancelcalls A q rx".into());
            l.push("settle".into());
        }
        l.push("close clq A q".into());
        l.push("settle".into());
    }
    // the upstream sender goes away; the downstream receiver drains to end-of-stream
    l.push("drop A p tx".into());
    l.push("settle".into());
    for _ in 0..(n + 4) {
        recvs += 1;
        l.push(format!("recvmsg r{recvs} A q"));
        l.push("settle".into());
    }
    l.push("settle".into());
    l.push("dropall".into());
    l.push("settle".into());
    l.push("end".into());
    l
}


/// Common prologue of the forwarder scripts: A sends on p, B forwards p into q, A receives on q.
fn fwd_prologue(l: &mut Vec<String>) {
    l.push("start".into());
    l.push("connect c0 A p".into());
    l.push("accept a0 B p".into());
    l.push("settle".into());
    l.push("connect c1 B q".into());
    l.push("accept a1 A q".into());
    l.push("settle".into());
    l.push("forward f B p q".into());
    l.push("settle".into());
}

/// Exact mode for the forwarder (`chmux::forward`, chunk granularity): both wires are stepped (one item at a
/// time with a settle after each), so the real forwarding loop is a deterministic function of the script and
/// must emit, frame by frame, what M_forward emits: whole messages, messages above the forwarder's
/// `max_data_size` (relayed chunk by chunk), chunk streams that are finished, dropped or cancelled mid-way,
/// port batches, a graceful close or a drop of the destination receiver at any position, upstream end-of-stream.
fn link_fwd_exact(r: &mut Rng, _i: u64) -> Vec<String> {
    let mut c = gen_cfg(r);
    // the forwarding endpoint's event queue is shared by the relayed frames and the credit returns of the
    // source port: keep it roomy so that no credit return is deferred (not determined by the script)
    c.sq[1] = 16;
    let mut l = vec!["mode exact".to_string()];
    l.extend(cfg_lines(&c));
    fwd_prologue(&mut l);
    l.push("release A 0".into());
    l.push("release B 0".into());
    // sizes: A -> B is governed by B's receive side; what B relays is governed by A's
    let (chunk, buf, maxdata) = (c.chunk[1], c.buf[1], c.maxdata[1]);
    let n = r.range(2, 8);
    let end_at = r.below(n + 2); // position of the close / drop of the destination receiver (may be never)
    let end_kind = r.below(3); // 0 close, 1 drop, 2 close then drop
    let mut recvs = 0;
    let mut ended = false;
    let mut reading = true;
    let mut read = |l: &mut Vec<String>, recvs: &mut u32, times: u64| {
        for _ in 0..times {
            *recvs += 1;
            l.push(format!("recvmsg r{recvs} A q", recvs = *recvs));
            l.push("settle".into());
            l.push("flushall".into());
        }
    };
    for i in 0..n {
        if i == end_at {
            ended = true;
            l.push("cancelcalls A q rx".into());
            l.push("settle".into());
            if end_kind != 1 {
                l.push("close clq A q".into());
                l.push("settle".into());
                l.push("flushall".into());
            }
            if end_kind != 0 {
                l.push("drop A q rx".into());
                l.push("settle".into());
                l.push("flushall".into());
                reading = false;
            }
        }
        let id = format!("s{i}");
        match r.below(10) {
            0..=3 => {
                // whole message, often above the forwarder's max_data_size
                let len = match r.below(3) {
                    0 => (maxdata + r.range(1, 12)) as usize,
                    _ => msg_len(r, chunk, buf, maxdata).min(60),
                };
                l.push(format!("send {id} A p {}", payload(r, len)));
            }
            4..=7 => {
                let parts = r.range(1, 4);
                let ps: Vec<String> = (0..parts)
                    .map(|_| {
                        let n = match r.below(5) {
                            0 => 0,
                            1 => (maxdata + 1) as usize,
                            _ => msg_len(r, chunk, buf, maxdata).min(30),
                        };
                        payload(r, n)
                    })
                    .collect();
                let end = *r.pick(&["finish", "final", "drop", "drop", "finish"]);
                l.push(format!("chunks {id} A p {} end={end}", ps.join(",")));
            }
            _ => {
                l.push(format!("pconnect {id} A p n={} wait=1", r.range(1, 3)));
            }
        }
        l.push("settle".into());
        l.push("flushall".into());
        // the destination reads (or not: then the forwarder backs up and the origin's call stays pending)
        if reading && r.chance(2, 3) {
            read(&mut l, &mut recvs, r.range(1, 3));
        }
        // one call per handle: a call still pending is dropped (a chunk stream is then cancelled mid-way)
        l.push(format!("cancel {id}"));
        l.push("settle".into());
        l.push("flushall".into());
    }
    let _ = ended;
    // the origin goes away; the destination drains
    l.push("drop A p tx".into());
    l.push("settle".into());
    l.push("flushall".into());
    if reading {
        read(&mut l, &mut recvs, n + 5);
    }
    l.push("settle".into());
    l.push("release A inf".into());
    l.push("release B inf".into());
    l.push("dropall".into());
    l.push("settle".into());
    l.push("end".into());
    l
}


/// Monitor mode for the forwarder at chunk granularity: messages above the forwarder's `max_data_size`
/// (`Received::Chunks` -> `ChunkSender`), chunk streams that are finished, dropped, or cancelled while the
/// forwarder is in its chunk loop (with single-poll scheduling: between any two polls), the destination reading
/// concurrently or lagging behind, a graceful close or a drop of the destination receiver at any position.
/// Only the predicates on the real frames and results apply.
fn link_fwd_chunks(r: &mut Rng, _i: u64) -> Vec<String> {
    let c = gen_cfg(r);
    let mut l = vec!["mode monitor".to_string()];
    let fine = r.bool();
    if fine {
        l.push("fine".into());
    }
    l.extend(cfg_lines(&c));
    fwd_prologue(&mut l);
    let (chunk, buf, maxdata) = (c.chunk[1], c.buf[1], c.maxdata[1]);
    let n = r.range(3, 10);
    let end_at = r.below(n + 3);
    let end_kind = r.below(3);
    let mut recvs = 0;
    let mut reading = true;
    for i in 0..n {
        if i == end_at {
            if recvs > 0 {
                l.push("cancelcalls A q rx".into());
                l.push("settle".into());
            }
            if end_kind != 1 {
                l.push("close clq A q".into());
                if r.bool() {
                    l.push("settle".into());
                }
            }
            if end_kind != 0 {
                l.push("drop A q rx".into());
                l.push("settle".into());
                reading = false;
            }
        }
        let id = format!("s{i}");
        if r.chance(2, 3) {
            let parts = r.range(1, 4);
            let ps: Vec<String> = (0..parts)
                .map(|_| {
                    let n = match r.below(6) {
                        0 => 0,
                        1 | 2 => (maxdata + r.range(0, 9)) as usize,
                        _ => msg_len(r, chunk, buf, maxdata).min(40),
                    };
                    payload(r, n)
                })
                .collect();
            let end = *r.pick(&["finish", "final", "drop", "finish"]);
            l.push(format!("chunks {id} A p {} end={end}", ps.join(",")));
        } else {
            let len = match r.below(3) {
                0 => msg_len(r, chunk, buf, maxdata).min(40),
                _ => (maxdata + r.range(1, 2 * maxdata + 2)) as usize,
            };
            l.push(format!("send {id} A p {}", payload(r, len)));
        }
        // the destination reads concurrently, later, or not at all
        let mode = r.below(4);
        if reading && mode == 0 {
            recvs += 1;
            l.push(format!("recvmsg r{recvs} A q"));
        }
        if fine && r.bool() {
            l.push(format!("yield {}", r.range(1, 60)));
        } else {
            l.push("settle".into());
        }
        if reading && mode == 1 {
            for _ in 0..r.range(1, 3) {
                recvs += 1;
                l.push(format!("recvmsg r{recvs} A q"));
                l.push("settle".into());
            }
        }
        // a call that is still pending is dropped wherever it is: upstream chunk streams end mid-way
        l.push(format!("cancel {id}"));
        l.push("settle".into());
    }
    l.push("drop A p tx".into());
    l.push("settle".into());
    if reading {
        for _ in 0..(n + 5) {
            recvs += 1;
            l.push(format!("recvmsg r{recvs} A q"));
            l.push("settle".into());
        }
    }
    l.push("settle".into());
    l.push("dropall".into());
    l.push("settle".into());
    l.push("end".into());
    l
}

/// Forwarding of port requests (`Received::Requests`): the origin sends batches of 2..4 port requests (custom
/// ids in most runs) on p, the forwarder relays them on q with fresh ports and the same ids, the destination
/// accepts some and rejects others (in any order); then a distinct label is sent into every half and must come
/// out of the half with the same id, and every origin connect must resolve as the request with its id was
/// answered.  Data messages travel between the batches.
fn link_fwd_ports(r: &mut Rng, _i: u64) -> Vec<String> {
    let c = gen_cfg(r);
    let mut l = vec!["mode monitor".to_string()];
    l.extend(cfg_lines(&c));
    fwd_prologue(&mut l);
    let (chunk, buf, maxdata) = (c.chunk[1], c.buf[1], c.maxdata[1]);
    let rounds = r.range(1, 3);
    let mut recvs = 0;
    for rd in 0..rounds {
        if r.bool() {
            let len = msg_len(r, chunk, buf, maxdata).min(maxdata as usize).min(20);
            l.push(format!("send d{rd} A p {}", payload(r, len)));
            l.push("settle".into());
            recvs += 1;
            l.push(format!("recvmsg rd{recvs} A q"));
            l.push("settle".into());
            l.push(format!("cancel d{rd}"));
            l.push("settle".into());
        }
        let n = r.range(2, 4);
        let custom = r.chance(3, 4);
        l.push(format!("pconnect pc{rd} A p n={n} wait=1{}", if custom { " ids=custom" } else { "" }));
        l.push("settle".into());
        l.push(format!("recvmsg rq{rd} A q"));
        l.push("settle".into());
        // answer the requests in a random order: accept / reject / reject(no ports)
        let mut order: Vec<u64> = (0..n).collect();
        for i in (1..order.len()).rev() {
            let j = r.below(i as u64 + 1) as usize;
            order.swap(i, j);
        }
        let mut accepted = Vec::new();
        for &j in &order {
            match r.below(4) {
                0 => l.push(format!("reqreject rj{rd}x{j} A rq{rd}.0.{j} 0")),
                1 => l.push(format!("reqreject rj{rd}x{j} A rq{rd}.0.{j} 1")),
                _ => {
                    l.push(format!("reqaccept ra{rd}x{j} A rq{rd}.0.{j} n{rd}x{j}"));
                    accepted.push(j);
                }
            }
            if r.bool() {
                l.push("settle".into());
            }
        }
        l.push("settle".into());
        l.push("settle".into());
        // labels through every half, both directions (a half whose request was rejected does not exist:
        // the operation reports `no-such-handle`)
        for i in 0..n {
            l.push(format!("send x{rd}x{i} A pc{rd}.{i} a{rd}{i:02x}01"));
        }
        for &j in &accepted {
            l.push(format!("send y{rd}x{j} A n{rd}x{j} b{rd}{j:02x}02"));
        }
        l.push("settle".into());
        for &j in &accepted {
            l.push(format!("recv v{rd}x{j} A n{rd}x{j}"));
        }
        for i in 0..n {
            l.push(format!("recv w{rd}x{i} A pc{rd}.{i}"));
        }
        l.push("settle".into());
        l.push("settle".into());
    }
    l.push("drop A p tx".into());
    l.push("settle".into());
    for _ in 0..3 {
        recvs += 1;
        l.push(format!("recvmsg rz{recvs} A q"));
        l.push("settle".into());
    }
    l.push("dropall".into());
    l.push("settle".into());
    l.push("end".into());
    l
}

/// C06 workloads.  `fault`: (wire, item index, kind) scheduled before the connection is made, so
/// that cut points inside the handshake are covered as well.  Workload 99 is the idle connection.
pub fn fault_workload(r: &mut Rng, w: u64, fault: Option<(&str, u64, &str)>) -> Vec<String> {
    let mut l = vec!["mode fault".to_string()];
    // timeouts differ per endpoint, also by more than a factor of two (the ping interval must follow
    // the *peer's* timeout)
    let (mut ta, mut tb) = *r.pick(&[(1000u64, 1000u64), (2000, 1500), (10000, 400), (400, 10000), (3000, 1000), (1000, 2500)]);
    if w == 99 && r.chance(1, 3) {
        // idle connection with a timeout on one side only (0 = none): the side without a timeout must still send
        // the keep-alive pings its peer needs
        if r.bool() {
            ta = 0;
        } else {
            tb = 0;
        }
    }
    let tt = |t: u64| if t == 0 { "none".to_string() } else { t.to_string() };
    l.push(format!("cfg A chunk=8 buf=16 maxdata=64 timeout={} sq=2 tq=2 rq=2", tt(ta)));
    l.push(format!("cfg B chunk=8 buf=16 maxdata=64 timeout={} sq=2 tq=2 rq=2", tt(tb)));
    if let Some((wire, at, kind)) = fault {
        l.push(format!("wire {wire} faultafter={at} kind={kind}"));
        if kind == "stallboth" {
            let other = if wire == "A" { "B" } else { "A" };
            l.push(format!("wire {other} faultafter={at} kind=stall"));
        }
    }
    l.push("start".into());
    if w == 99 {
        // idle but healthy: nothing but pings for a long time, then traffic still works
        l.push("connect c1 A p1".into());
        l.push("accept a1 B p1".into());
        l.push("settle".into());
        l.push(format!("advance {}", 1000 * ta.max(tb)));
        l.push("send s1 A p1 0102030405".into());
        l.push("recvmsg r1 B p1".into());
        l.push("settle".into());
        l.push(format!("advance {}", 37 * ta.max(400)));
        l.push("send s2 B p1 0a0b".into());
        l.push("recvmsg r2 A p1".into());
        l.push("settle".into());
        l.push("expect-alive".into());
        l.push("dropall".into());
        l.push("settle".into());
        l.push("end".into());
        return l;
    }
    l.push("connect c1 A p1".into());
    l.push("accept a1 B p1".into());
    l.push("settle".into());
    if w % 2 == 0 {
        l.push("connect c2 B p2".into());
        l.push("accept a2 A p2".into());
        l.push("settle".into());
    }
    // traffic, including a chunked message larger than the receive buffer
    let n1 = 20 + (w * 7) % 30;
    l.push(format!("send s1 A p1 {}", payload(r, n1 as usize)));
    l.push("recvmsg r1 B p1".into());
    l.push("settle".into());
    if w % 2 == 0 {
        l.push(format!("send s2 B p2 {}", payload(r, 5)));
        l.push("recvmsg r2 A p2".into());
        l.push("settle".into());
    }
    if w % 3 == 0 {
        l.push("pconnect pc A p1 n=1 wait=1".into());
        l.push("recvmsg rq B p1".into());
        l.push("settle".into());
    }
    if w % 3 == 1 {
        l.push(format!("chunks s3 A p1 {},{} end=finish", payload(r, 9), payload(r, 12)));
        l.push("recvmsg r3 B p1".into());
        l.push("settle".into());
    }
    // operations that are pending when the fault strikes (or stay pending on a healthy connection)
    l.push("connect c3 A p3 wait=1".into());
    l.push("accept a4 A p4".into());
    l.push("recvmsg r5 A p1".into());
    l.push("closed cl6 A p1".into());
    l.push(format!("send s7 B p1 {}", payload(r, 40)));
    l.push("settle".into());
    l.push(format!("advance {}", 3 * ta.max(tb)));
    // operations started after the fault
    l.push("send s9 A p1 01".into());
    l.push("recvmsg r9 B p1".into());
    l.push("connect c9 B p9 wait=1".into());
    l.push("accept a9 B p9b".into());
    l.push("settle".into());
    l.push(format!("advance {}", 3 * (ta + tb)));
    l.push("end".into());
    l
}
