//! Script generators, one family per property.  Every random choice comes from the `Rng`
//! handed in (forked from the single VERIF_SEED stream).

use crate::prng::Rng;

pub fn generate(kind: &str, r: &mut Rng, i: u64) -> Vec<String> {
    match kind {
        "smoke" => smoke(r, i),
        _ => panic!("unknown generator {kind}"),
    }
}

fn smoke(_r: &mut Rng, _i: u64) -> Vec<String> {
    let s = "cfg A chunk=8 buf=16 maxdata=32\ncfg B chunk=8 buf=16 maxdata=32\nstart\nconnect c1 A p\naccept a1 B p\nsettle\n\
             send s1 A p 000102030405060708090a0b0c0d0e0f1011\nrecv r1 B p\nsettle\nrecv r2 B p\nsettle\ndropall\nsettle\nend";
    s.lines().map(|l| l.to_string()).collect()
}
