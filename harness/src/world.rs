//! Script interpreter for connection-level scenarios: two real chmux endpoints joined by
//! script-owned wires, API objects owned by actor tasks so that every call can be started,
//! left pending across settles and cancelled at any await at which it is pending.
//!
//! Script and trace share one vocabulary (see DESIGN.md 3.4); the interpreter echoes every
//! script line it executes (prefixed `op`) and actors append `ret`/`cancelled` lines.

use bytes::Bytes;
use remoc::chmux::{
    self, ChMux, Cfg, Client, ConnectError, Listener, ListenerError, PortReq, Received, Receiver, RecvChunkError,
    RecvError, Request, SendError, Sender, TrySendError,
};
use std::{
    collections::{BTreeSet, HashMap},
    sync::{Arc, Mutex},
    time::Duration,
};
use tokio::sync::{mpsc, oneshot};

use crate::{
    hex::{hex, unhex},
    trace::tr,
    transport::{INF, StreamFault, Wire},
};

pub fn side_idx(s: &str) -> usize {
    match s {
        "A" => 0,
        "B" => 1,
        _ => panic!("bad side {s}"),
    }
}

pub fn side_name(i: usize) -> &'static str {
    if i == 0 { "A" } else { "B" }
}

type Pending = Arc<Mutex<BTreeSet<String>>>;

fn send_err(e: &SendError) -> String {
    match e {
        SendError::ChMux => "err chmux".into(),
        SendError::Closed { gracefully } => format!("err closed gracefully={}", *gracefully as u8),
    }
}

fn connect_err(e: &ConnectError) -> &'static str {
    match e {
        ConnectError::LocalPortsExhausted => "err local-ports-exhausted",
        ConnectError::RemotePortsExhausted => "err remote-ports-exhausted",
        ConnectError::TooManyPendingConnectionRequests => "err too-many-pending",
        ConnectError::Rejected => "err rejected",
        ConnectError::ChMux => "err chmux",
    }
}

fn listener_err(e: &ListenerError) -> &'static str {
    match e {
        ListenerError::LocalPortsExhausted => "err local-ports-exhausted",
        ListenerError::MultiplexerError => "err chmux",
    }
}

pub enum ChunkEnd {
    Finish,
    Final,
    Drop,
}

pub enum SCmd {
    Send { k: String, data: Bytes, cancel: oneshot::Receiver<()> },
    TrySend { k: String, data: Bytes },
    Chunks { k: String, parts: Vec<Bytes>, end: ChunkEnd, cancel: oneshot::Receiver<()> },
    Connect { k: String, n: usize, wait: bool, custom_ids: bool, cancel: oneshot::Receiver<()> },
    Closed { k: String, cancel: oneshot::Receiver<()> },
    IsClosed { k: String },
    OverrideGraceful { on: bool },
    /// hand the sender over to a forwarder (the actor ends)
    Take { reply: oneshot::Sender<Sender> },
    Drop,
}

pub enum RCmd {
    Recv { k: String, cancel: oneshot::Receiver<()> },
    RecvAny { k: String, cancel: oneshot::Receiver<()> },
    RecvChunk { k: String, cancel: oneshot::Receiver<()> },
    Close { k: String, cancel: oneshot::Receiver<()> },
    /// Receive one whole message following the documented protocol: recv_any, and after
    /// `Received::Chunks` recv_chunk until it returns None or an error.
    /// `drain: false` = answer `Received::Chunks` by returning (the next receive call skips the rest of the message)
    RecvMsg { k: String, side: usize, name: String, drain: bool, cancel: oneshot::Receiver<()> },
    SetMaxData { n: usize },
    Probe { k: String },
    /// `Receiver::forward` into the sender that arrives on `tx`; both ports are dropped when it returns,
    /// as the forwarding task of `rch::bin` does
    Forward { k: String, tx: oneshot::Receiver<Sender>, cancel: oneshot::Receiver<()> },
    Drop,
}

pub enum LCmd {
    Accept { k: String, name: String, cancel: oneshot::Receiver<()> },
    Inspect { k: String, req: String, cancel: oneshot::Receiver<()> },
    /// messages waiting in the listener queues (verification hook)
    QueueLen { reply: oneshot::Sender<usize> },
    Drop,
}

/// Things actors hand back to the interpreter.
pub enum Produced {
    Port { name: String, side: usize, tx: Sender, rx: Receiver },
    Req { name: String, side: usize, req: Request },
}

pub struct World {
    pub cfgs: [Cfg; 2],
    pub wires: [Wire; 2],
    pub clients: [Option<Client>; 2],
    pub listeners: [Option<mpsc::UnboundedSender<LCmd>>; 2],
    pub senders: HashMap<String, mpsc::UnboundedSender<SCmd>>,
    pub receivers: HashMap<String, mpsc::UnboundedSender<RCmd>>,
    pub requests: HashMap<String, Request>,
    /// calls that own the listener (accept/inspect) or a request object (reqaccept/reqreject): id ↦ (side, on listener)
    pub lcalls: HashMap<String, (usize, bool)>,
    pub cancels: HashMap<String, oneshot::Sender<()>>,
    /// pending call ids per handle key, so that dropping a handle first cancels its calls
    pub calls_of: HashMap<String, Vec<String>>,
    /// Credit probes per port handle (hook `verif`): sender pool, receiver (used, limit).
    pub probes: std::collections::BTreeMap<String, (Box<dyn Fn() -> Option<u32>>, Box<dyn Fn() -> Option<(u32, u32)>>)>,
    pub pending: Pending,
    pub produced_tx: mpsc::UnboundedSender<Produced>,
    pub produced_rx: mpsc::UnboundedReceiver<Produced>,
    pub started: bool,
    pub run_done: Arc<Mutex<[Option<String>; 2]>>,
    /// `ChMux::new` calls still in their handshake.
    pub starting: Vec<(usize, tokio::task::JoinHandle<NewResult>)>,
    /// local/remote port numbers per handle key, for `$name` placeholders in injected frames
    pub port_nums: HashMap<String, (u32, u32)>,
    /// client ports of the OpenPort requests sent by each side, in order (`$open<i>`)
    pub opens: [Vec<u32>; 2],
    trace_scanned: usize,
}

type NewResult = Result<
    (ChMux<crate::transport::ScriptSink, crate::transport::ScriptStream>, Client, Listener),
    chmux::ChMuxError<std::io::Error, std::io::Error>,
>;

fn done(pending: &Pending, k: &str, line: String) {
    pending.lock().unwrap().remove(k);
    tr(format!("ret {k} {line}"));
}

fn cancelled(pending: &Pending, k: &str) {
    pending.lock().unwrap().remove(k);
    tr(format!("cancelled {k}"));
}

fn sender_actor(
    name: String, side: usize, mut tx: Sender, mut rx: mpsc::UnboundedReceiver<SCmd>, pending: Pending,
    produced: mpsc::UnboundedSender<Produced>,
) {
    tokio::spawn(async move {
        while let Some(cmd) = rx.recv().await {
            match cmd {
                SCmd::Send { k, data, cancel } => {
                    tokio::select! {
                        biased;
                        r = tx.send(data) => done(&pending, &k, match r { Ok(()) => "ok".into(), Err(e) => send_err(&e) }),
                        _ = cancel => cancelled(&pending, &k),
                    }
                }
                SCmd::TrySend { k, data } => {
                    let r = tx.try_send(&data);
                    done(
                        &pending,
                        &k,
                        match r {
                            Ok(()) => "ok".into(),
                            Err(TrySendError::Full) => "full".into(),
                            Err(TrySendError::Send(e)) => send_err(&e),
                        },
                    );
                }
                SCmd::Chunks { k, parts, end, cancel } => {
                    let fut = async {
                        let mut cs = tx.send_chunks();
                        let n = parts.len();
                        for (i, p) in parts.into_iter().enumerate() {
                            if i + 1 == n && matches!(end, ChunkEnd::Final) {
                                return cs.send_final(p).await.map(|_| "ok");
                            }
                            cs = cs.send(p).await?;
                        }
                        match end {
                            ChunkEnd::Finish | ChunkEnd::Final => cs.finish().await.map(|_| "ok"),
                            ChunkEnd::Drop => {
                                drop(cs);
                                Ok("dropped")
                            }
                        }
                    };
                    tokio::select! {
                        biased;
                        r = fut => done(&pending, &k, match r { Ok(s) => s.into(), Err(e) => send_err(&e) }),
                        _ = cancel => cancelled(&pending, &k),
                    }
                }
                SCmd::Connect { k, n, wait, custom_ids, cancel } => {
                    let alloc = tx.port_allocator();
                    let fut = async {
                        let mut ports = Vec::new();
                        for _ in 0..n {
                            let port = alloc.allocate().await;
                            if custom_ids {
                                let id = (*port).wrapping_mul(7).wrapping_add(1);
                                tr(format!("apiid {} {}", *port, id));
                                ports.push(PortReq::new(port).with_id(id));
                            } else {
                                ports.push(PortReq::new(port));
                            }
                        }
                        let nums: Vec<u32> = ports.iter().map(|p| *p.port).collect();
                        (nums, tx.connect(ports, wait).await)
                    };
                    tokio::select! {
                        biased;
                        (nums, r) = fut => match r {
                            Ok(connects) => {
                                done(&pending, &k, format!("ok ports={}", crate::hex::nat_list(&nums)));
                                for (i, c) in connects.into_iter().enumerate() {
                                    let kk = format!("{k}.{i}");
                                    pending.lock().unwrap().insert(kk.clone());
                                    let pending = pending.clone();
                                    let produced = produced.clone();
                                    tokio::spawn(async move {
                                        match c.await {
                                            Ok((tx, rx)) => {
                                                let line = format!("ok local={} remote={}", tx.local_port(), tx.remote_port());
                                                let _ = produced.send(Produced::Port { name: kk.clone(), side, tx, rx });
                                                done(&pending, &kk, line);
                                            }
                                            Err(e) => done(&pending, &kk, connect_err(&e).into()),
                                        }
                                    });
                                }
                            }
                            Err(e) => done(&pending, &k, send_err(&e)),
                        },
                        _ = cancel => cancelled(&pending, &k),
                    }
                }
                SCmd::Closed { k, cancel } => {
                    let fut = tx.closed();
                    tokio::select! {
                        biased;
                        _ = fut => done(&pending, &k, "closed".into()),
                        _ = cancel => cancelled(&pending, &k),
                    }
                }
                SCmd::IsClosed { k } => done(&pending, &k, format!("isclosed={}", tx.is_closed() as u8)),
                SCmd::OverrideGraceful { on } => tx.set_override_graceful_close(on),
                SCmd::Take { reply } => {
                    let _ = reply.send(tx);
                    return;
                }
                SCmd::Drop => break,
            }
        }
        let _ = name;
        drop(tx);
    });
}

fn receiver_actor(
    _name: String, side: usize, mut rxp: Receiver, mut rx: mpsc::UnboundedReceiver<RCmd>, pending: Pending,
    produced: mpsc::UnboundedSender<Produced>,
) {
    tokio::spawn(async move {
        while let Some(cmd) = rx.recv().await {
            match cmd {
                RCmd::Recv { k, cancel } => {
                    tokio::select! {
                        biased;
                        r = rxp.recv() => done(&pending, &k, match r {
                            Ok(Some(d)) => format!("data {}", hex(&Vec::<u8>::from(d))),
                            Ok(None) => "none".into(),
                            Err(RecvError::ChMux) => "err chmux".into(),
                            Err(RecvError::ExceedsMaxDataSize(n)) => format!("err maxdata {n}"),
                            Err(RecvError::ExceedsMaxPortCount(n)) => format!("err maxports {n}"),
                        }),
                        _ = cancel => cancelled(&pending, &k),
                    }
                }
                RCmd::RecvAny { k, cancel } => {
                    tokio::select! {
                        biased;
                        r = rxp.recv_any() => match r {
                            Ok(Some(Received::Data(d))) => done(&pending, &k, format!("data {}", hex(&Vec::<u8>::from(d)))),
                            Ok(Some(Received::Chunks)) => done(&pending, &k, "chunks".into()),
                            Ok(Some(Received::Requests(reqs))) => {
                                let desc: Vec<String> = reqs.iter().map(|r| format!("{}:{}:{}", r.remote_port(), r.id(), r.is_wait() as u8)).collect();
                                for (i, req) in reqs.into_iter().enumerate() {
                                    let _ = produced.send(Produced::Req { name: format!("{k}.{i}"), side, req });
                                }
                                done(&pending, &k, format!("requests {}", if desc.is_empty() { "-".into() } else { desc.join(",") }));
                            }
                            Ok(None) => done(&pending, &k, "none".into()),
                            Err(RecvError::ChMux) => done(&pending, &k, "err chmux".into()),
                            Err(RecvError::ExceedsMaxDataSize(n)) => done(&pending, &k, format!("err maxdata {n}")),
                            Err(RecvError::ExceedsMaxPortCount(n)) => done(&pending, &k, format!("err maxports {n}")),
                        },
                        _ = cancel => cancelled(&pending, &k),
                    }
                }
                RCmd::RecvChunk { k, cancel } => {
                    tokio::select! {
                        biased;
                        r = rxp.recv_chunk() => done(&pending, &k, match r {
                            Ok(Some(d)) => format!("chunk {}", hex(&d)),
                            Ok(None) => "none".into(),
                            Err(RecvChunkError::ChMux) => "err chmux".into(),
                            Err(RecvChunkError::Cancelled) => "err cancelled".into(),
                        }),
                        _ = cancel => cancelled(&pending, &k),
                    }
                }
                RCmd::Close { k, cancel } => {
                    tokio::select! {
                        biased;
                        _ = rxp.close() => done(&pending, &k, "ok".into()),
                        _ = cancel => cancelled(&pending, &k),
                    }
                }
                RCmd::RecvMsg { k, side, name, drain, cancel } => {
                    pending.lock().unwrap().remove(&k);
                    let fut = async {
                        let k0 = format!("{k}.0");
                        tr(format!("opd recvany {k0} {} {name}", side_name(side)));
                        pending.lock().unwrap().insert(k0.clone());
                        let r = rxp.recv_any().await;
                        let mut chunked = false;
                        match r {
                            Ok(Some(Received::Data(d))) => done(&pending, &k0, format!("data {}", hex(&Vec::<u8>::from(d)))),
                            Ok(Some(Received::Chunks)) => {
                                chunked = drain;
                                done(&pending, &k0, "chunks".into())
                            }
                            Ok(Some(Received::Requests(reqs))) => {
                                let desc: Vec<String> = reqs.iter().map(|r| format!("{}:{}:{}", r.remote_port(), r.id(), r.is_wait() as u8)).collect();
                                for (i, req) in reqs.into_iter().enumerate() {
                                    let _ = produced.send(Produced::Req { name: format!("{k0}.{i}"), side, req });
                                }
                                done(&pending, &k0, format!("requests {}", if desc.is_empty() { "-".into() } else { desc.join(",") }));
                            }
                            Ok(None) => done(&pending, &k0, "none".into()),
                            Err(RecvError::ChMux) => done(&pending, &k0, "err chmux".into()),
                            Err(RecvError::ExceedsMaxDataSize(n)) => done(&pending, &k0, format!("err maxdata {n}")),
                            Err(RecvError::ExceedsMaxPortCount(n)) => done(&pending, &k0, format!("err maxports {n}")),
                        }
                        let mut i = 1;
                        while chunked {
                            let ki = format!("{k}.{i}");
                            tr(format!("opd recvchunk {ki} {} {name}", side_name(side)));
                            pending.lock().unwrap().insert(ki.clone());
                            match rxp.recv_chunk().await {
                                Ok(Some(d)) => done(&pending, &ki, format!("chunk {}", hex(&d))),
                                Ok(None) => {
                                    done(&pending, &ki, "none".into());
                                    chunked = false;
                                }
                                Err(RecvChunkError::ChMux) => {
                                    done(&pending, &ki, "err chmux".into());
                                    chunked = false;
                                }
                                Err(RecvChunkError::Cancelled) => {
                                    done(&pending, &ki, "err cancelled".into());
                                    chunked = false;
                                }
                            }
                            i += 1;
                        }
                    };
                    tokio::select! {
                        biased;
                        _ = fut => {}
                        _ = cancel => {
                            // drop whichever sub-call was pending
                            let mut p = pending.lock().unwrap();
                            let subs: Vec<String> = p.iter().filter(|c| c.starts_with(&format!("{k}."))).cloned().collect();
                            for c in subs {
                                p.remove(&c);
                                tr(format!("opd cancel {c}"));
                                tr(format!("cancelled {c}"));
                            }
                        }
                    }
                }
                RCmd::SetMaxData { n } => rxp.set_max_data_size(n),
                RCmd::Probe { k } => {
                    let (mon, to_return) = rxp.verif_credits();
                    // the buffer monitor is gone once the dispatcher has ended: no limit to compare with
                    let (used, limit) = match mon {
                        Some((u, l)) => (u.to_string(), l.to_string()),
                        None => ("none".to_string(), "none".to_string()),
                    };
                    done(&pending, &k, format!("probe queue={} used={} limit={} toreturn={}", rxp.verif_queue_len(), used, limit, to_return));
                }
                RCmd::Forward { k, tx, cancel } => {
                    let Ok(mut tx) = tx.await else {
                        done(&pending, &k, "err no-sender".into());
                        continue;
                    };
                    tokio::select! {
                        biased;
                        r = rxp.forward(&mut tx) => done(&pending, &k, match r {
                            Ok(n) => format!("ok total={n}"),
                            Err(remoc::chmux::ForwardError::Send(e)) => format!("err send {}", send_err(&e)),
                            Err(remoc::chmux::ForwardError::Recv(_)) => "err recv".into(),
                        }),
                        _ = cancel => cancelled(&pending, &k),
                    }
                    drop(tx);
                    break;
                }
                RCmd::Drop => break,
            }
        }
        drop(rxp);
    });
}

fn listener_actor(
    side: usize, mut listener: Listener, mut rx: mpsc::UnboundedReceiver<LCmd>, pending: Pending,
    produced: mpsc::UnboundedSender<Produced>,
) {
    tokio::spawn(async move {
        while let Some(cmd) = rx.recv().await {
            match cmd {
                LCmd::Accept { k, name, cancel } => {
                    tokio::select! {
                        biased;
                        r = listener.accept() => match r {
                            Ok(Some((tx, rx))) => {
                                let line = format!("ok local={} remote={}", tx.local_port(), tx.remote_port());
                                let _ = produced.send(Produced::Port { name, side, tx, rx });
                                done(&pending, &k, line);
                            }
                            Ok(None) => done(&pending, &k, "none".into()),
                            Err(e) => done(&pending, &k, listener_err(&e).into()),
                        },
                        _ = cancel => cancelled(&pending, &k),
                    }
                }
                LCmd::Inspect { k, req, cancel } => {
                    tokio::select! {
                        biased;
                        r = listener.inspect() => match r {
                            Ok(Some(rq)) => {
                                let line = format!("req remote={} id={} wait={}", rq.remote_port(), rq.id(), rq.is_wait() as u8);
                                let _ = produced.send(Produced::Req { name: req, side, req: rq });
                                done(&pending, &k, line);
                            }
                            Ok(None) => done(&pending, &k, "none".into()),
                            Err(e) => done(&pending, &k, listener_err(&e).into()),
                        },
                        _ = cancel => cancelled(&pending, &k),
                    }
                }
                LCmd::QueueLen { reply } => {
                    let _ = reply.send(listener.verif_queue_len());
                }
                LCmd::Drop => break,
            }
        }
        drop(listener);
    });
}

pub fn parse_kv(tokens: &[&str]) -> HashMap<String, String> {
    tokens.iter().filter_map(|t| t.split_once('=')).map(|(a, b)| (a.to_string(), b.to_string())).collect()
}

fn parse_n(s: &str) -> u64 {
    if s == "inf" { INF } else { s.parse().unwrap_or_else(|_| panic!("bad number {s}")) }
}

pub fn apply_cfg(cfg: &mut Cfg, kv: &HashMap<String, String>) {
    for (k, v) in kv {
        match k.as_str() {
            "chunk" => cfg.chunk_size = v.parse().unwrap(),
            "buf" => cfg.receive_buffer = v.parse().unwrap(),
            "maxdata" => cfg.max_data_size = v.parse().unwrap(),
            "maxports" => cfg.max_received_ports = v.parse().unwrap(),
            "sq" => cfg.shared_send_queue = v.parse().unwrap(),
            "tq" => cfg.transport_send_queue = v.parse().unwrap(),
            "rq" => cfg.transport_receive_queue = v.parse().unwrap(),
            "cq" => cfg.connect_queue = v.parse().unwrap(),
            "ports" => cfg.max_ports = v.parse().unwrap(),
            "timeout" => {
                cfg.connection_timeout = if v == "none" { None } else { Some(Duration::from_millis(v.parse().unwrap())) }
            }
            _ => panic!("unknown cfg key {k}"),
        }
    }
}

pub fn cfg_line(side: &str, c: &Cfg) -> String {
    format!(
        "cfg {} chunk={} buf={} maxdata={} maxports={} sq={} tq={} rq={} cq={} ports={} timeout={}",
        side,
        c.chunk_size,
        c.receive_buffer,
        c.max_data_size,
        c.max_received_ports,
        c.shared_send_queue,
        c.transport_send_queue,
        c.transport_receive_queue,
        c.connect_queue,
        c.max_ports,
        match c.connection_timeout {
            Some(d) => d.as_millis().to_string(),
            None => "none".into(),
        }
    )
}

impl World {
    pub fn new() -> Self {
        let (produced_tx, produced_rx) = mpsc::unbounded_channel();
        let mut base = Cfg::default();
        base.connection_timeout = None;
        World {
            cfgs: [base.clone(), base],
            wires: [Wire::new('A', 'B'), Wire::new('B', 'A')],
            clients: [None, None],
            listeners: [None, None],
            senders: HashMap::new(),
            receivers: HashMap::new(),
            requests: HashMap::new(),
            lcalls: HashMap::new(),
            cancels: HashMap::new(),
            calls_of: HashMap::new(),
            probes: Default::default(),
            pending: Arc::new(Mutex::new(BTreeSet::new())),
            produced_tx,
            produced_rx,
            started: false,
            run_done: Arc::new(Mutex::new([None, None])),
            starting: Vec::new(),
            port_nums: HashMap::new(),
            opens: [Vec::new(), Vec::new()],
            trace_scanned: 0,
        }
    }

    /// Quiescence: under the paused clock a 1 ns sleep returns exactly when every task is idle.
    pub async fn settle(&mut self) {
        tokio::time::sleep(Duration::from_nanos(1)).await;
        self.collect();
    }

    /// Register ports / requests produced by actors since the last call.
    pub fn collect(&mut self) {
        self.collect_starts();
        while let Ok(p) = self.produced_rx.try_recv() {
            match p {
                Produced::Port { name, side, tx, rx } => {
                    tr(format!("port {} {} local={} remote={}", name, side_name(side), tx.local_port(), tx.remote_port()));
                    let key = format!("{}@{}", name, side_name(side));
                    self.port_nums.insert(key.clone(), (tx.local_port(), tx.remote_port()));
                    self.probes.insert(key.clone(), (Box::new(tx.verif_credits_probe()), Box::new(rx.verif_credits_probe())));
                    let (stx, srx) = mpsc::unbounded_channel();
                    sender_actor(key.clone(), side, tx, srx, self.pending.clone(), self.produced_tx.clone());
                    self.senders.insert(key.clone(), stx);
                    let (rtx, rrx) = mpsc::unbounded_channel();
                    receiver_actor(key.clone(), side, rx, rrx, self.pending.clone(), self.produced_tx.clone());
                    self.receivers.insert(key, rtx);
                }
                Produced::Req { name, side, req } => {
                    self.requests.insert(format!("{}@{}", name, side_name(side)), req);
                }
            }
        }
    }

    fn begin_on(&mut self, key: &str, k: &str) -> oneshot::Receiver<()> {
        self.calls_of.entry(key.to_string()).or_default().push(k.to_string());
        self.begin(k)
    }

    /// Cancel every pending call issued on a handle (its actor must be idle to see `Drop`).
    fn cancel_calls_of(&mut self, key: &str) {
        for k in self.calls_of.remove(key).unwrap_or_default() {
            if let Some(c) = self.cancels.remove(&k) {
                let _ = c.send(());
            }
        }
    }

    fn begin(&mut self, k: &str) -> oneshot::Receiver<()> {
        let (ctx, crx) = oneshot::channel();
        self.cancels.insert(k.to_string(), ctx);
        self.pending.lock().unwrap().insert(k.to_string());
        crx
    }

    /// One `credits` line per live port handle: the real counters at this quiescent point.
    pub fn log_credits(&self) {
        for (key, (pool, mon)) in &self.probes {
            let (name, side) = key.split_once('@').unwrap();
            let pool = pool().map(|v| v.to_string()).unwrap_or("none".into());
            let (used, limit) = match mon() {
                Some((u, l)) => (u.to_string(), l.to_string()),
                None => ("none".into(), "none".into()),
            };
            tr(format!("credits {name} {side} pool={pool} used={used} limit={limit}"));
        }
    }

    /// One `listen` line per side with a listener: requests waiting in its queues (when no call owns the
    /// listener) and request objects held by the script or by pending accept/reject calls.
    pub async fn log_listen(&mut self) {
        for side in 0..2 {
            let Some(l) = self.listeners[side].clone() else { continue };
            let (mut busy, mut held) = (false, 0usize);
            {
                let p = self.pending.lock().unwrap();
                self.lcalls.retain(|k, _| p.contains(k));
                for (s, on_listener) in self.lcalls.values() {
                    if *s == side {
                        if *on_listener { busy = true } else { held += 1 }
                    }
                }
            }
            held += self.requests.keys().filter(|k| k.ends_with(&format!("@{}", side_name(side)))).count();
            if busy {
                tr(format!("listen {} q=busy held={held}", side_name(side)));
                continue;
            }
            let (rtx, rrx) = oneshot::channel();
            if l.send(LCmd::QueueLen { reply: rtx }).is_err() {
                continue;
            }
            if let Ok(q) = rrx.await {
                tr(format!("listen {} q={q} held={held}", side_name(side)));
            }
        }
    }

    pub fn pending_list(&self) -> String {
        let p = self.pending.lock().unwrap();
        if p.is_empty() { "-".into() } else { p.iter().cloned().collect::<Vec<_>>().join(",") }
    }

    fn spawn_new(&mut self, side: usize) {
        let cfg = self.cfgs[side].clone();
        tr(cfg_line(side_name(side), &cfg));
        let sink = self.wires[side].sink();
        let stream = self.wires[1 - side].stream();
        self.starting.push((side, tokio::spawn(async move { ChMux::new(cfg, sink, stream).await })));
    }

    /// Install the endpoints whose handshake has finished.
    fn collect_starts(&mut self) {
        use futures::FutureExt;
        let mut still = Vec::new();
        for (side, mut h) in std::mem::take(&mut self.starting) {
            if !h.is_finished() {
                still.push((side, h));
                continue;
            }
            match (&mut h).now_or_never() {
                Some(Ok(Ok((mux, client, listener)))) => {
                    tr(format!("new {} ok", side_name(side)));
                    self.clients[side] = Some(client);
                    let (ltx, lrx) = mpsc::unbounded_channel();
                    listener_actor(side, listener, lrx, self.pending.clone(), self.produced_tx.clone());
                    self.listeners[side] = Some(ltx);
                    let run_done = self.run_done.clone();
                    tokio::spawn(async move {
                        let r = mux.run().await;
                        let s = match r {
                            Ok(()) => "ok".to_string(),
                            Err(chmux::ChMuxError::SinkError(_)) => "sink".into(),
                            Err(chmux::ChMuxError::StreamError(_)) => "stream".into(),
                            Err(chmux::ChMuxError::StreamClosed) => "closed".into(),
                            Err(chmux::ChMuxError::Reset) => "reset".into(),
                            Err(chmux::ChMuxError::Timeout) => "timeout".into(),
                            Err(chmux::ChMuxError::Protocol(m)) => format!("protocol {}", m.replace(' ', "_")),
                        };
                        tr(format!("run {} {}", side_name(side), s));
                        tr(format!("runtime {} {}", side_name(side), crate::trace::now_ms()));
                        run_done.lock().unwrap()[side] = Some(s);
                    });
                }
                Some(Ok(Err(e))) => {
                    tr(format!("new {} err {}", side_name(side), format!("{e:?}").split(['(', ' ']).next().unwrap_or("?")))
                }
                Some(Err(_)) => tr(format!("new {} panic", side_name(side))),
                None => still.push((side, h)),
            }
        }
        self.starting = still;
    }

    async fn start(&mut self) {
        for side in 0..2 {
            self.spawn_new(side);
        }
        // The handshake needs the wires to move; whatever the script configured applies.
        self.settle().await;
        for (side, _) in &self.starting {
            tr(format!("new {} hang", side_name(*side)));
        }
        self.started = true;
    }

    /// Record the client ports of OpenPort requests put on the wires since the last call.
    fn scan_opens(&mut self) {
        let lines = crate::trace::snapshot_from(self.trace_scanned);
        self.trace_scanned += lines.len();
        for l in lines {
            let t: Vec<&str> = l.split_whitespace().collect();
            if t.len() == 3 && t[0] == "tx" {
                if let Some(bytes) = unhex(t[2]) {
                    if bytes.len() >= 5 && bytes[0] == 4 {
                        let p = u32::from_le_bytes([bytes[1], bytes[2], bytes[3], bytes[4]]);
                        self.opens[side_idx(t[1])].push(p);
                    }
                }
            }
        }
    }

    /// Substitute `$name` (local port of handle name on the real side), `$name.r` (its remote port)
    /// and `$open<i>` (client port of the i-th OpenPort sent by the real side) in a message text.
    fn subst(&mut self, real_side: usize, tok: &str) -> String {
        self.scan_opens();
        tok.split(',')
            .map(|part| {
                if let Some(name) = part.strip_prefix('$') {
                    if let Some(i) = name.strip_prefix("open") {
                        if let Ok(i) = i.parse::<usize>() {
                            return self.opens[real_side].get(i).map(|p| p.to_string()).unwrap_or("4000000000".into());
                        }
                    }
                    let (n, remote) = match name.strip_suffix(".r") {
                        Some(n) => (n, true),
                        None => (name, false),
                    };
                    match self.port_nums.get(&format!("{}@{}", n, side_name(real_side))) {
                        Some((l, r)) => (if remote { *r } else { *l }).to_string(),
                        None => "4000000001".into(),
                    }
                } else {
                    part.to_string()
                }
            })
            .collect::<Vec<_>>()
            .join(",")
    }

    /// Execute one script line.  Returns false on `end`.
    pub async fn exec(&mut self, line: &str) -> bool {
        let t: Vec<&str> = line.split_whitespace().collect();
        if t.is_empty() || t[0].starts_with('#') {
            return true;
        }
        self.collect();
        tr(format!("op {line}"));
        match t[0] {
            // markers for the model driver only
            "mode" | "expect-drained" | "expect-alive" | "note" | "fine" => {}
            "yield" => {
                for _ in 0..t[1].parse::<u32>().unwrap() {
                    tokio::task::yield_now().await;
                }
                self.collect();
            }
            "cfg" => {
                let kv = parse_kv(&t[2..]);
                apply_cfg(&mut self.cfgs[side_idx(t[1])], &kv);
            }
            "wire" => {
                let kv = parse_kv(&t[2..]);
                let w = &self.wires[side_idx(t[1])];
                if let Some(v) = kv.get("window") {
                    w.set_window(parse_n(v));
                }
                if let Some(v) = kv.get("release") {
                    w.set_release(parse_n(v));
                }
                if let Some(v) = kv.get("budget") {
                    w.0.lock().unwrap().budget = parse_n(v);
                }
                if let (Some(at), Some(kind)) = (kv.get("faultafter"), kv.get("kind")) {
                    let kind = match kind.as_str() {
                        "sink" => crate::transport::FaultKind::Sink,
                        "stream" => crate::transport::FaultKind::Stream,
                        "eof" => crate::transport::FaultKind::Eof,
                        _ => crate::transport::FaultKind::Stall,
                    };
                    w.0.lock().unwrap().fault_at = Some((parse_n(at), kind));
                }
            }
            "window" => self.wires[side_idx(t[1])].set_window(parse_n(t[2])),
            "release" => self.wires[side_idx(t[1])].set_release(parse_n(t[2])),
            "addrelease" => self.wires[side_idx(t[1])].add_release(parse_n(t[2])),
            "addwindow" => self.wires[side_idx(t[1])].add_window(parse_n(t[2])),
            "fault" => {
                let w = &self.wires[side_idx(t[1])];
                // same trace line as a scheduled fault: the observer of a sink fault is the sending side, of a stream
                // fault the receiving side of that wire
                let observer = if t[2] == "sink" { t[1] } else if t[1] == "A" { "B" } else { "A" };
                tr(format!("fault {} {} at=now t={}", observer, t[2], crate::trace::now_ms()));
                match t[2] {
                    "sink" => w.fault_sink(),
                    "stream" => w.fault_stream(StreamFault::Error),
                    "eof" => w.fault_stream(StreamFault::Eof),
                    x => panic!("bad fault {x}"),
                }
            }
            "inject" => self.wires[side_idx(t[1])].inject(Bytes::from(unhex(t[2]).expect("hex"))),
            "start" => self.start().await,
            "startb" => {
                // only side B is a real endpoint; the script plays the peer by injecting frames on wire A
                self.spawn_new(1);
                self.started = true;
            }
            "injectm" => {
                // injectm <wire> <message text with $placeholders>: frame as sent by the peer of the real side
                let wire = side_idx(t[1]);
                let real = 1 - wire;
                let toks: Vec<String> = t[2..].iter().map(|x| self.subst(real, x)).collect();
                let refs: Vec<&str> = toks.iter().map(|x| x.as_str()).collect();
                match crate::wiretext::parse_msg(&refs) {
                    Some(m) => {
                        let bytes = remoc::chmux::verif_hooks::encode(&m);
                        tr(format!("injected {} {}", t[1], toks.join(" ")));
                        self.wires[wire].inject(Bytes::from(bytes));
                    }
                    None => tr(format!("injected {} unparsable {}", t[1], toks.join(" "))),
                }
            }
            "probe" => {
                // probe k side name: queue length and credits of an idle receiver
                let (k, key) = (t[1].to_string(), format!("{}@{}", t[3], t[2]));
                match self.receivers.get(&key).cloned() {
                    Some(r) => {
                        self.pending.lock().unwrap().insert(k.clone());
                        let _ = r.send(RCmd::Probe { k });
                    }
                    None => tr(format!("ret {k} err no-such-handle")),
                }
            }
            "settle" => {
                self.settle().await;
                self.log_credits();
                self.log_listen().await;
                tr(format!("settled pending={}", self.pending_list()));
            }
            "advance" => {
                // keep-alive pings during the idle period are legitimate traffic: the livelock guard of
                // the wires must not count them (ping interval >= 100 ms for every generated timeout)
                let ms: u64 = t[1].parse().unwrap();
                for w in &self.wires {
                    let mut w = w.0.lock().unwrap();
                    w.budget = w.budget.saturating_add(ms / 100 + 100);
                }
                tokio::time::sleep(Duration::from_millis(ms)).await;
                self.collect();
                tr(format!("time {}", crate::trace::now_ms()));
                tr(format!("settled pending={}", self.pending_list()));
            }
            "connect" => {
                // connect k side name wait=0|1
                let (k, side, name) = (t[1].to_string(), side_idx(t[2]), t[3].to_string());
                let kvs = parse_kv(&t[4..]);
                let wait = kvs.get("wait").map(|v| v == "1").unwrap_or(true);
                let custom_id: Option<u32> = kvs.get("id").and_then(|v| v.parse().ok());
                let cancel = self.begin(&k);
                match self.clients[side].clone() {
                    None => done(&self.pending, &k, "err no-client".into()),
                    Some(client) => {
                        let pending = self.pending.clone();
                        let produced = self.produced_tx.clone();
                        tokio::spawn(async move {
                            let fut = async {
                                let req = match custom_id {
                                    Some(id) => {
                                        // explicit port request with an id that differs from the port number
                                        let port = client.port_allocator().allocate().await;
                                        tr(format!("apiid {} {}", *port, id));
                                        Some(PortReq::new(port).with_id(id))
                                    }
                                    None => None,
                                };
                                let mut c = client.connect_ext(req, wait).await?;
                                c.sent().await;
                                tr(format!("sent {k}"));
                                c.await
                            };
                            tokio::select! {
                                biased;
                                r = fut => match r {
                                    Ok((tx, rx)) => {
                                        let line = format!("ok local={} remote={}", tx.local_port(), tx.remote_port());
                                        let _ = produced.send(Produced::Port { name, side, tx, rx });
                                        done(&pending, &k, line);
                                    }
                                    Err(e) => done(&pending, &k, connect_err(&e).into()),
                                },
                                _ = cancel => cancelled(&pending, &k),
                            }
                        });
                    }
                }
            }
            "accept" => {
                let (k, side, name) = (t[1].to_string(), side_idx(t[2]), t[3].to_string());
                let cancel = self.begin(&k);
                self.lcalls.insert(k.clone(), (side, true));
                match &self.listeners[side] {
                    Some(l) => {
                        let _ = l.send(LCmd::Accept { k, name, cancel });
                    }
                    None => done(&self.pending, &k, "err no-listener".into()),
                }
            }
            "inspect" => {
                let (k, side, req) = (t[1].to_string(), side_idx(t[2]), t[3].to_string());
                let cancel = self.begin(&k);
                self.lcalls.insert(k.clone(), (side, true));
                match &self.listeners[side] {
                    Some(l) => {
                        let _ = l.send(LCmd::Inspect { k, req, cancel });
                    }
                    None => done(&self.pending, &k, "err no-listener".into()),
                }
            }
            "reqaccept" => {
                // reqaccept k side req name
                let (k, side, reqn, name) = (t[1].to_string(), side_idx(t[2]), t[3], t[4].to_string());
                let cancel = self.begin(&k);
                self.lcalls.insert(k.clone(), (side, false));
                match self.requests.remove(&format!("{}@{}", reqn, side_name(side))) {
                    None => done(&self.pending, &k, "err no-such-request".into()),
                    Some(req) => {
                        let pending = self.pending.clone();
                        let produced = self.produced_tx.clone();
                        tokio::spawn(async move {
                            tokio::select! {
                                biased;
                                r = req.accept() => match r {
                                    Ok((tx, rx)) => {
                                        let line = format!("ok local={} remote={}", tx.local_port(), tx.remote_port());
                                        let _ = produced.send(Produced::Port { name, side, tx, rx });
                                        done(&pending, &k, line);
                                    }
                                    Err(e) => done(&pending, &k, listener_err(&e).into()),
                                },
                                _ = cancel => cancelled(&pending, &k),
                            }
                        });
                    }
                }
            }
            "reqreject" => {
                let (k, side, reqn) = (t[1].to_string(), side_idx(t[2]), t[3]);
                let no_ports = t.get(4).map(|v| *v == "1").unwrap_or(false);
                let cancel = self.begin(&k);
                self.lcalls.insert(k.clone(), (side, false));
                match self.requests.remove(&format!("{}@{}", reqn, side_name(side))) {
                    None => done(&self.pending, &k, "err no-such-request".into()),
                    Some(req) => {
                        let pending = self.pending.clone();
                        tokio::spawn(async move {
                            tokio::select! {
                                biased;
                                _ = req.reject(no_ports) => done(&pending, &k, "ok".into()),
                                _ = cancel => cancelled(&pending, &k),
                            }
                        });
                    }
                }
            }
            "reqdrop" => {
                self.requests.remove(&format!("{}@{}", t[2], t[1]));
            }
            "send" | "trysend" | "chunks" | "pconnect" | "closed" | "isclosed" | "override" => {
                let (k, key) = (t[1].to_string(), format!("{}@{}", t[3], t[2]));
                let Some(s) = self.senders.get(&key).cloned() else {
                    tr(format!("ret {k} err no-such-handle"));
                    return true;
                };
                let cancel = self.begin_on(&format!("{key}:tx"), &k);
                let cmd = match t[0] {
                    "send" => SCmd::Send { k, data: Bytes::from(unhex(t[4]).expect("hex")), cancel },
                    "trysend" => SCmd::TrySend { k, data: Bytes::from(unhex(t[4]).expect("hex")) },
                    "chunks" => {
                        let parts =
                            if t[4] == "none" { Vec::new() } else { t[4].split(',').map(|h| Bytes::from(unhex(h).expect("hex"))).collect() };
                        let end = match parse_kv(&t[5..]).get("end").map(|s| s.as_str()) {
                            Some("final") => ChunkEnd::Final,
                            Some("drop") => ChunkEnd::Drop,
                            _ => ChunkEnd::Finish,
                        };
                        SCmd::Chunks { k, parts, end, cancel }
                    }
                    "pconnect" => {
                        let kv = parse_kv(&t[4..]);
                        SCmd::Connect {
                            k,
                            n: kv.get("n").map(|v| v.parse().unwrap()).unwrap_or(1),
                            wait: kv.get("wait").map(|v| v == "1").unwrap_or(true),
                            custom_ids: kv.get("ids").map(|v| v == "custom").unwrap_or(false),
                            cancel,
                        }
                    }
                    "closed" => SCmd::Closed { k, cancel },
                    "isclosed" => SCmd::IsClosed { k },
                    _ => {
                        self.pending.lock().unwrap().remove(&k);
                        SCmd::OverrideGraceful { on: t.get(4).map(|v| *v == "1").unwrap_or(true) }
                    }
                };
                let _ = s.send(cmd);
            }
            "forward" => {
                // forward k side rxport txport
                let (k, side) = (t[1].to_string(), t[2]);
                let (rkey, tkey) = (format!("{}@{}", t[3], side), format!("{}@{}", t[4], side));
                let cancel = self.begin_on(&format!("{rkey}:rx"), &k);
                let (stx, srx) = oneshot::channel();
                match (self.receivers.get(&rkey), self.senders.remove(&tkey)) {
                    (Some(r), Some(sd)) => {
                        let _ = sd.send(SCmd::Take { reply: stx });
                        let _ = r.send(RCmd::Forward { k, tx: srx, cancel });
                    }
                    _ => done(&self.pending, &k, "err no-such-handle".into()),
                }
            }
            "labelall" => {
                // every sender sends its own (local, remote) port numbers; every receiver receives once
                let k = t[1].to_string();
                let mut keys: Vec<String> = self.senders.keys().cloned().collect();
                keys.sort();
                for key in keys {
                    let (name, side) = key.split_once('@').unwrap();
                    let (l, r) = self.port_nums.get(&key).copied().unwrap_or((0, 0));
                    let data = format!("L:{l}:{r}").into_bytes();
                    let id = format!("{k}.s.{name}.{side}");
                    tr(format!("opd send {id} {side} {name} {}", hex(&data)));
                    let cancel = self.begin_on(&format!("{key}:tx"), &id);
                    let _ = self.senders[&key].send(SCmd::Send { k: id, data: Bytes::from(data), cancel });
                }
                let mut keys: Vec<String> = self.receivers.keys().cloned().collect();
                keys.sort();
                for key in keys {
                    let (name, side) = key.split_once('@').unwrap();
                    let id = format!("{k}.r.{name}.{side}");
                    tr(format!("opd recv {id} {side} {name}"));
                    let cancel = self.begin_on(&format!("{key}:rx"), &id);
                    let _ = self.receivers[&key].send(RCmd::Recv { k: id, cancel });
                }
            }
            "alloccheck" => {
                // how many ports can still be allocated on this side
                let side = side_idx(t[1]);
                match &self.clients[side] {
                    Some(c) => {
                        let alloc = c.port_allocator();
                        let mut held = Vec::new();
                        while let Some(p) = alloc.try_allocate() {
                            held.push(p);
                            if held.len() > 100_000 {
                                break;
                            }
                        }
                        tr(format!(
                            "alloc {} free={} max={}{}",
                            t[1],
                            held.len(),
                            self.cfgs[side].max_ports,
                            if t.get(2) == Some(&"final") { " final" } else { "" }
                        ));
                    }
                    None => tr(format!("alloc {} free=unknown", t[1])),
                }
            }
            "tasks" => {
                tr(format!("tasks {}", tokio::runtime::Handle::current().metrics().num_alive_tasks()));
            }
            "flushstep" => {
                // deliver what is queued on a wire one item at a time, settling after each
                let w = side_idx(t[1]);
                let mut guard = 0;
                while self.wires[w].queued() > 0 && guard < 10_000 {
                    tr(format!("opd addrelease {} 1", t[1]));
                    self.wires[w].add_release(1);
                    self.settle().await;
                    self.log_credits();
                    tr(format!("settled pending={}", self.pending_list()));
                    guard += 1;
                }
            }
            "flushall" => {
                // both wires stepped: deliver what is queued one item at a time (wire A first), settling
                // after each, until both are empty
                let mut guard = 0;
                loop {
                    let w = if self.wires[0].queued() > 0 {
                        0
                    } else if self.wires[1].queued() > 0 {
                        1
                    } else {
                        break;
                    };
                    if guard >= 10_000 {
                        break;
                    }
                    tr(format!("opd addrelease {} 1", side_name(w)));
                    self.wires[w].add_release(1);
                    self.settle().await;
                    self.log_credits();
                    tr(format!("settled pending={}", self.pending_list()));
                    guard += 1;
                }
            }
            "recvmsg" | "recvskip" => {
                let drain = t[0] == "recvmsg";
                let (k, side, name) = (t[1].to_string(), side_idx(t[2]), t[3].to_string());
                let key = format!("{}@{}", t[3], t[2]);
                let Some(r) = self.receivers.get(&key).cloned() else {
                    tr(format!("ret {k} err no-such-handle"));
                    return true;
                };
                let cancel = self.begin_on(&format!("{key}:rx"), &k);
                let _ = r.send(RCmd::RecvMsg { k, side, name, drain, cancel });
            }
            "recv" | "recvany" | "recvchunk" | "close" | "setmaxdata" => {
                let (k, key) = (t[1].to_string(), format!("{}@{}", t[3], t[2]));
                let Some(r) = self.receivers.get(&key).cloned() else {
                    tr(format!("ret {k} err no-such-handle"));
                    return true;
                };
                if t[0] == "setmaxdata" {
                    let _ = r.send(RCmd::SetMaxData { n: t[4].parse().unwrap() });
                    return true;
                }
                let cancel = self.begin_on(&format!("{key}:rx"), &k);
                let cmd = match t[0] {
                    "recv" => RCmd::Recv { k, cancel },
                    "recvany" => RCmd::RecvAny { k, cancel },
                    "recvchunk" => RCmd::RecvChunk { k, cancel },
                    _ => RCmd::Close { k, cancel },
                };
                let _ = r.send(cmd);
            }
            "cancelcalls" => {
                // cancelcalls side name tx|rx: cancel every call issued on that handle
                let key = format!("{}@{}:{}", t[2], t[1], t[3]);
                self.cancel_calls_of(&key);
            }
            "cancel" => {
                if let Some(c) = self.cancels.remove(t[1]) {
                    let _ = c.send(());
                }
            }
            "drop" => {
                // drop side name tx|rx
                let key = format!("{}@{}", t[2], t[1]);
                match t[3] {
                    "tx" => {
                        self.cancel_calls_of(&format!("{key}:tx"));
                        if let Some(s) = self.senders.remove(&key) {
                            let _ = s.send(SCmd::Drop);
                        }
                    }
                    _ => {
                        self.cancel_calls_of(&format!("{key}:rx"));
                        if let Some(r) = self.receivers.remove(&key) {
                            let _ = r.send(RCmd::Drop);
                        }
                    }
                }
            }
            "dropclient" => {
                self.clients[side_idx(t[1])] = None;
            }
            "droplistener" => {
                if let Some(l) = self.listeners[side_idx(t[1])].take() {
                    let _ = l.send(LCmd::Drop);
                }
            }
            "terminate" => {
                if let Some(c) = &self.clients[side_idx(t[1])] {
                    c.terminate();
                }
            }
            "dropports" => {
                // drop every request and port handle that the script did not drop by name
                self.requests.clear();
                let mut keys: Vec<String> = self.calls_of.keys().cloned().collect();
                keys.sort();
                for key in keys {
                    self.cancel_calls_of(&key);
                }
                for (_, s) in self.senders.drain() {
                    let _ = s.send(SCmd::Drop);
                }
                for (_, r) in self.receivers.drain() {
                    let _ = r.send(RCmd::Drop);
                }
            }
            "dropall" => {
                // drop every API object of both sides (requests first, then ports, clients, listeners)
                self.requests.clear();
                let mut keys: Vec<String> = self.calls_of.keys().cloned().collect();
                keys.sort();
                for key in keys {
                    self.cancel_calls_of(&key);
                }
                let mut pend: Vec<String> = self.cancels.keys().cloned().collect();
                pend.sort();
                for k in pend {
                    if let Some(c) = self.cancels.remove(&k) {
                        let _ = c.send(());
                    }
                }
                for (_, s) in self.senders.drain() {
                    let _ = s.send(SCmd::Drop);
                }
                for (_, r) in self.receivers.drain() {
                    let _ = r.send(RCmd::Drop);
                }
                for side in 0..2 {
                    self.clients[side] = None;
                    if let Some(l) = self.listeners[side].take() {
                        let _ = l.send(LCmd::Drop);
                    }
                }
            }
            "end" => {
                self.settle().await;
                let rd = self.run_done.lock().unwrap().clone();
                tr(format!(
                    "end pending={} runA={} runB={} wireA={:?} wireB={:?} livelock={}",
                    self.pending_list(),
                    rd[0].clone().unwrap_or("running".into()),
                    rd[1].clone().unwrap_or("running".into()),
                    self.wires[0].counts(),
                    self.wires[1].counts(),
                    (self.wires[0].livelock() || self.wires[1].livelock()) as u8
                ));
                return false;
            }
            other => panic!("unknown script op {other}"),
        }
        true
    }
}

/// Run one script (lines) on a fresh paused single-threaded runtime; returns the trace.
pub fn run_script(lines: &[String]) -> Vec<String> {
    let _ = crate::trace::take();
    // `fine`: the scheduler returns to the script after every task poll, so that `yield n` places the next
    // operation between any two polls of the endpoints' tasks (otherwise a yield runs them until idle)
    let mut b = tokio::runtime::Builder::new_current_thread();
    b.enable_time().start_paused(true);
    if lines.iter().any(|l| l.trim() == "fine") {
        b.event_interval(1);
    }
    let rt = b.build().unwrap();
    let lines = lines.to_vec();
    let res = std::panic::catch_unwind(std::panic::AssertUnwindSafe(|| {
        rt.block_on(async move {
            crate::trace::reset_clock();
            let mut w = World::new();
            for l in &lines {
                if !w.exec(l).await {
                    break;
                }
            }
            // Leak the world: dropping live actors at teardown is not part of any scenario.
            std::mem::forget(w);
        });
    }));
    if res.is_err() {
        tr("panic harness-or-remoc".into());
    }
    // shutdown without waiting for lingering tasks
    rt.shutdown_background();
    crate::trace::take()
}
