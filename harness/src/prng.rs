//! SplitMix64: every random choice of a harness run derives from one state seeded by
//! `VERIF_SEED`, so a disagreement replays exactly.

#[derive(Clone, Debug)]
pub struct Rng(pub u64);

impl Rng {
    pub fn new(seed: u64) -> Self {
        Rng(seed.wrapping_mul(0x9E37_79B9_7F4A_7C15) ^ 0xD1B5_4A32_D192_ED03)
    }

    pub fn from_env() -> Self {
        let seed = std::env::var("VERIF_SEED").ok().and_then(|s| s.parse::<u64>().ok()).unwrap_or(1);
        Self::new(seed)
    }

    pub fn next_u64(&mut self) -> u64 {
        self.0 = self.0.wrapping_add(0x9E37_79B9_7F4A_7C15);
        let mut z = self.0;
        z = (z ^ (z >> 30)).wrapping_mul(0xBF58_476D_1CE4_E5B9);
        z = (z ^ (z >> 27)).wrapping_mul(0x94D0_49BB_1331_11EB);
        z ^ (z >> 31)
    }

    /// Uniform in `0..n` (`n > 0`).
    pub fn below(&mut self, n: u64) -> u64 {
        self.next_u64() % n
    }

    pub fn range(&mut self, lo: u64, hi_incl: u64) -> u64 {
        lo + self.below(hi_incl - lo + 1)
    }

    pub fn bool(&mut self) -> bool {
        self.next_u64() & 1 == 1
    }

    /// True with probability `num/den`.
    pub fn chance(&mut self, num: u64, den: u64) -> bool {
        self.below(den) < num
    }

    pub fn pick<'a, T>(&mut self, xs: &'a [T]) -> &'a T {
        &xs[self.below(xs.len() as u64) as usize]
    }

    /// Derive an independent stream (for sub-generators).
    pub fn fork(&mut self) -> Rng {
        Rng::new(self.next_u64())
    }

    pub fn bytes(&mut self, n: usize) -> Vec<u8> {
        (0..n).map(|_| self.next_u64() as u8).collect()
    }
}
