//! Shared pieces of the typed-channel harnesses (`bin/base.rs`, `bin/wiring.rs`):
//! real connections over `tokio::io::duplex`, an item type whose (de)serialization can be told
//! to fail after a chosen number of elements, a future adaptor that drops the wrapped future at
//! a chosen poll, and a real-time watchdog (a blocked helper thread inhibits the paused clock).

use std::{
    collections::HashMap,
    future::Future,
    pin::Pin,
    sync::{
        Mutex,
        atomic::{AtomicU64, Ordering},
    },
    task::{Context, Poll},
    time::Duration,
};

use remoc::{RemoteSend, rch};
use serde::{
    Deserialize, Deserializer, Serialize, Serializer,
    de::{DeserializeSeed, SeqAccess, Visitor},
    ser::{SerializeSeq, SerializeTuple},
};

// ------------------------------------------------------------------------------------------
// failure switches, keyed by the tag inside the value (serialization may run on a helper thread)
// ------------------------------------------------------------------------------------------

static SER_FAIL: Mutex<Option<HashMap<u32, usize>>> = Mutex::new(None);
static DE_FAIL: Mutex<Option<HashMap<u32, usize>>> = Mutex::new(None);

pub fn set_ser_fail(tag: u32, at: Option<usize>) {
    let mut g = SER_FAIL.lock().unwrap();
    let m = g.get_or_insert_with(HashMap::new);
    match at {
        Some(a) => {
            m.insert(tag, a);
        }
        None => {
            m.remove(&tag);
        }
    }
}

pub fn set_de_fail(tag: u32, at: Option<usize>) {
    let mut g = DE_FAIL.lock().unwrap();
    let m = g.get_or_insert_with(HashMap::new);
    match at {
        Some(a) => {
            m.insert(tag, a);
        }
        None => {
            m.remove(&tag);
        }
    }
}

pub fn clear_fails() {
    *SER_FAIL.lock().unwrap() = None;
    *DE_FAIL.lock().unwrap() = None;
    set_de_gate(None);
}

// A "slow deserializer": the deserializer of the item with the gated tag, when it runs on a helper
// thread (streamed items), waits at the start of the payload until the gate is opened.  While it
// waits, the queue between the receiving task and the deserializer thread fills up and `recv` is
// left waiting for queue space: the state in which the harness cancels it.
static DE_GATE: Mutex<Option<(u32, std::thread::ThreadId)>> = Mutex::new(None);
static DE_GATE_OPEN: (Mutex<bool>, std::sync::Condvar) = (Mutex::new(true), std::sync::Condvar::new());
static DE_BLOCKED: std::sync::atomic::AtomicBool = std::sync::atomic::AtomicBool::new(false);

/// arms (closes) the gate for `tag`; must be called on the runtime thread, which never waits at the gate
pub fn set_de_gate(tag: Option<u32>) {
    *DE_GATE.lock().unwrap() = tag.map(|t| (t, std::thread::current().id()));
    *DE_GATE_OPEN.0.lock().unwrap() = tag.is_none();
    DE_GATE_OPEN.1.notify_all();
    DE_BLOCKED.store(false, Ordering::SeqCst);
}

pub fn open_de_gate() {
    *DE_GATE_OPEN.0.lock().unwrap() = true;
    DE_GATE_OPEN.1.notify_all();
}

/// a deserializer thread is waiting at the gate right now
pub fn de_blocked() -> bool {
    DE_BLOCKED.load(Ordering::SeqCst)
}

fn de_gate_wait(tag: u32) {
    let armed = matches!(*DE_GATE.lock().unwrap(), Some((t, main)) if t == tag && main != std::thread::current().id());
    if !armed {
        return;
    }
    let mut open = DE_GATE_OPEN.0.lock().unwrap();
    while !*open {
        DE_BLOCKED.store(true, Ordering::SeqCst);
        open = DE_GATE_OPEN.1.wait(open).unwrap();
    }
    DE_BLOCKED.store(false, Ordering::SeqCst);
}

fn ser_fail(tag: u32) -> Option<usize> {
    SER_FAIL.lock().unwrap().as_ref().and_then(|m| m.get(&tag).copied())
}

fn de_fail(tag: u32) -> Option<usize> {
    DE_FAIL.lock().unwrap().as_ref().and_then(|m| m.get(&tag).copied())
}

// ------------------------------------------------------------------------------------------
// the item
// ------------------------------------------------------------------------------------------

/// A value with a byte payload and 0..n embedded channel halves.  Serialized as the tuple
/// `(tag, halves, payload as a sequence of single bytes)`; the payload sequence fails at the
/// element index registered for the tag (after the halves have allocated their ports).
#[derive(Debug)]
pub struct Item {
    pub tag: u32,
    pub halves: Vec<rch::mpsc::Sender<u8>>,
    pub data: Vec<u8>,
    /// trailing bytes that are serialized after the payload but that the deserializer does not read (a newer
    /// sender-side version of the type with a field the receiver does not know): the failure index of the
    /// serializer counts on into this part
    pub pad: usize,
}

impl Item {
    pub fn new(tag: u32, data: Vec<u8>) -> Self {
        Self { tag, halves: Vec::new(), data, pad: 0 }
    }
}

struct FailBytes<'a> {
    data: &'a [u8],
    fail: Option<usize>,
    /// take a short real-time nap before writing this element (only used for the unread trailing part, so that
    /// the receiving side has surely consumed everything written before)
    nap_at: Option<usize>,
}

impl Serialize for FailBytes<'_> {
    fn serialize<S: Serializer>(&self, s: S) -> Result<S::Ok, S::Error> {
        let mut seq = s.serialize_seq(Some(self.data.len()))?;
        for (i, b) in self.data.iter().enumerate() {
            if self.fail == Some(i) {
                return Err(serde::ser::Error::custom("injected serialization failure"));
            }
            if self.nap_at == Some(i) {
                std::thread::sleep(std::time::Duration::from_millis(4));
            }
            seq.serialize_element(b)?;
        }
        if self.fail == Some(self.data.len()) {
            return Err(serde::ser::Error::custom("injected serialization failure"));
        }
        seq.end()
    }
}

impl Serialize for Item {
    fn serialize<S: Serializer>(&self, s: S) -> Result<S::Ok, S::Error> {
        let fail = ser_fail(self.tag);
        let n = self.data.len();
        let mut t = s.serialize_tuple(if self.pad > 0 { 4 } else { 3 })?;
        t.serialize_element(&self.tag)?;
        t.serialize_element(&self.halves)?;
        t.serialize_element(&FailBytes { data: &self.data, fail: fail.filter(|i| *i <= n), nap_at: None })?;
        if self.pad > 0 {
            let zeros = vec![0u8; self.pad];
            t.serialize_element(&FailBytes { data: &zeros, fail: fail.filter(|i| *i > n).map(|i| i - n - 1), nap_at: if self.pad >= 40 { Some(34) } else { None } })?;
        }
        t.end()
    }
}

struct BytesSeed {
    fail: Option<usize>,
}

impl<'de> DeserializeSeed<'de> for BytesSeed {
    type Value = Vec<u8>;
    fn deserialize<D: Deserializer<'de>>(self, d: D) -> Result<Vec<u8>, D::Error> {
        struct V(Option<usize>);
        impl<'de> Visitor<'de> for V {
            type Value = Vec<u8>;
            fn expecting(&self, f: &mut std::fmt::Formatter) -> std::fmt::Result {
                f.write_str("byte sequence")
            }
            fn visit_seq<A: SeqAccess<'de>>(self, mut seq: A) -> Result<Vec<u8>, A::Error> {
                let mut out = Vec::new();
                loop {
                    if self.0 == Some(out.len()) {
                        return Err(serde::de::Error::custom("injected deserialization failure"));
                    }
                    match seq.next_element::<u8>()? {
                        Some(b) => out.push(b),
                        None => break,
                    }
                }
                Ok(out)
            }
        }
        d.deserialize_seq(V(self.fail))
    }
}

impl<'de> Deserialize<'de> for Item {
    fn deserialize<D: Deserializer<'de>>(d: D) -> Result<Self, D::Error> {
        struct V;
        impl<'de> Visitor<'de> for V {
            type Value = Item;
            fn expecting(&self, f: &mut std::fmt::Formatter) -> std::fmt::Result {
                f.write_str("item tuple")
            }
            fn visit_seq<A: SeqAccess<'de>>(self, mut seq: A) -> Result<Item, A::Error> {
                let tag: u32 = seq.next_element()?.ok_or_else(|| serde::de::Error::custom("tag missing"))?;
                let halves: Vec<rch::mpsc::Sender<u8>> =
                    seq.next_element()?.ok_or_else(|| serde::de::Error::custom("halves missing"))?;
                de_gate_wait(tag);
                let data = seq
                    .next_element_seed(BytesSeed { fail: de_fail(tag) })?
                    .ok_or_else(|| serde::de::Error::custom("payload missing"))?;
                Ok(Item { tag, halves, data, pad: 0 })
            }
        }
        d.deserialize_tuple(3, V)
    }
}

/// Counts the bytes the codec writes (total, and up to an injected failure).
struct CountingWriter(usize);

impl std::io::Write for CountingWriter {
    fn write(&mut self, buf: &[u8]) -> std::io::Result<usize> {
        self.0 += buf.len();
        Ok(buf.len())
    }
    fn flush(&mut self) -> std::io::Result<()> {
        Ok(())
    }
}

/// (bytes written, serialization succeeded) of a value without embedded halves under the default codec.
pub fn encoded_len<T: Serialize>(v: &T) -> (usize, bool) {
    use remoc::codec::Codec;
    let mut w = CountingWriter(0);
    let ok = <remoc::codec::Default as Codec>::serialize(&mut w, v).is_ok();
    (w.0, ok)
}

// ------------------------------------------------------------------------------------------
// connections
// ------------------------------------------------------------------------------------------

pub struct Side<Tx, Rx> {
    pub tx: rch::base::Sender<Tx>,
    pub rx: rch::base::Receiver<Rx>,
    pub conn: tokio::task::JoinHandle<bool>,
}

/// Establish a real remoc connection between two endpoints over an in-memory byte pipe.
/// Returns `None` when the connection could not be established (e.g. invalid configuration pair).
pub async fn connect_pair<AB, BA>(cfg_a: remoc::Cfg, cfg_b: remoc::Cfg, pipe: usize) -> Option<(Side<AB, BA>, Side<BA, AB>)>
where
    AB: RemoteSend,
    BA: RemoteSend,
{
    let (a, b) = tokio::io::duplex(pipe);
    let (ar, aw) = tokio::io::split(a);
    let (br, bw) = tokio::io::split(b);
    let (ra, rb) = tokio::join!(
        remoc::Connect::io::<_, _, AB, BA, remoc::codec::Default>(cfg_a, ar, aw),
        remoc::Connect::io::<_, _, BA, AB, remoc::codec::Default>(cfg_b, br, bw)
    );
    if std::env::var("VERIF_DEBUG").is_ok() {
        if let Err(e) = &ra { eprintln!("connect A: {e}"); }
        if let Err(e) = &rb { eprintln!("connect B: {e}"); }
    }
    let (ca, txa, rxa) = ra.ok()?;
    let (cb, txb, rxb) = rb.ok()?;
    let ja = tokio::spawn(async move { ca.await.is_ok() });
    let jb = tokio::spawn(async move { cb.await.is_ok() });
    Some((Side { tx: txa, rx: rxa, conn: ja }, Side { tx: txb, rx: rxb, conn: jb }))
}

/// Small chmux configuration with the given limits (no connection timeout: the clock is paused).
pub fn small_cfg(chunk: u32, buf: u32, max_data: usize, max_ports: u32) -> remoc::Cfg {
    let mut c = remoc::Cfg::default();
    c.connection_timeout = None;
    c.chunk_size = chunk;
    c.receive_buffer = buf;
    c.max_data_size = max_data;
    c.max_ports = max_ports;
    c.shared_send_queue = 2;
    c.transport_send_queue = 1;
    c.transport_receive_queue = 1;
    c.connect_queue = 4;
    c
}

// ------------------------------------------------------------------------------------------
// cancellation at a chosen poll
// ------------------------------------------------------------------------------------------

/// Polls the inner future at most `polls` times; the next poll drops it and yields `None`.
pub struct CancelAt<F: Future> {
    inner: Option<Pin<Box<F>>>,
    left: usize,
    pub polled: usize,
}

impl<F: Future> CancelAt<F> {
    pub fn new(f: F, polls: Option<usize>) -> Self {
        Self { inner: Some(Box::pin(f)), left: polls.unwrap_or(usize::MAX), polled: 0 }
    }
}

impl<F: Future> Future for CancelAt<F> {
    type Output = Option<F::Output>;
    fn poll(self: Pin<&mut Self>, cx: &mut Context) -> Poll<Self::Output> {
        let this = unsafe { self.get_unchecked_mut() };
        if this.left == 0 {
            this.inner = None;
            return Poll::Ready(None);
        }
        this.left -= 1;
        this.polled += 1;
        match this.inner.as_mut().expect("polled after completion").as_mut().poll(cx) {
            Poll::Ready(v) => {
                this.inner = None;
                Poll::Ready(Some(v))
            }
            Poll::Pending => {
                if this.left == 0 {
                    // make sure we are polled again so that the drop happens now, not at an arbitrary later wake-up
                    cx.waker().wake_by_ref();
                }
                Poll::Pending
            }
        }
    }
}

/// Drops the inner future once it has stayed pending for `rounds` consecutive polls during which
/// `cond` held (and asks to be polled again every scheduler round while `cond` holds); yields `None` then.
pub struct CancelWhen<F: Future, C: Fn() -> bool> {
    inner: Option<Pin<Box<F>>>,
    cond: C,
    rounds: usize,
    seen: usize,
    /// self-wake budget (real time, the condition is set by a helper thread): afterwards the adaptor stops
    /// asking to be polled again
    until: std::time::Instant,
}

impl<F: Future, C: Fn() -> bool> CancelWhen<F, C> {
    pub fn new(f: F, cond: C, rounds: usize) -> Self {
        Self { inner: Some(Box::pin(f)), cond, rounds, seen: 0, until: std::time::Instant::now() + Duration::from_secs(20) }
    }
}

impl<F: Future, C: Fn() -> bool + Unpin> Future for CancelWhen<F, C> {
    type Output = Option<F::Output>;
    fn poll(self: Pin<&mut Self>, cx: &mut Context) -> Poll<Self::Output> {
        let this = unsafe { self.get_unchecked_mut() };
        match this.inner.as_mut().expect("polled after completion").as_mut().poll(cx) {
            Poll::Ready(v) => {
                this.inner = None;
                Poll::Ready(Some(v))
            }
            Poll::Pending => {
                if (this.cond)() {
                    this.seen += 1;
                    if this.seen >= this.rounds {
                        this.inner = None;
                        return Poll::Ready(None);
                    }
                } else {
                    this.seen = 0;
                }
                if std::time::Instant::now() < this.until {
                    if this.seen == 0 {
                        // give the helper thread a chance on a loaded machine
                        std::thread::yield_now();
                    }
                    cx.waker().wake_by_ref();
                }
                Poll::Pending
            }
        }
    }
}

// ------------------------------------------------------------------------------------------
// settle / hang detection
// ------------------------------------------------------------------------------------------

/// Returns when the runtime is quiescent (paused clock; see DESIGN.md 3.3).
pub async fn settle() {
    tokio::time::sleep(Duration::from_nanos(1)).await;
}

/// Run `f` under the one-hour virtual timeout: `None` = it can never complete (hang).
pub async fn no_hang<F: Future>(f: F) -> Option<F::Output> {
    tokio::time::timeout(Duration::from_secs(3600), f).await.ok()
}

static PROGRESS: AtomicU64 = AtomicU64::new(0);

/// Called by the harness whenever a case makes progress.
pub fn progress() {
    PROGRESS.fetch_add(1, Ordering::Relaxed);
}

/// Real-time watchdog: if no progress is reported for `secs` seconds the process prints what it
/// has and exits with code 3 (a blocked helper thread keeps the paused clock from advancing, so
/// the virtual timeout cannot fire in that situation).
pub fn start_watchdog(secs: u64, on_fire: impl Fn() + Send + 'static) {
    std::thread::spawn(move || {
        let mut last = PROGRESS.load(Ordering::Relaxed);
        let mut idle = 0;
        loop {
            std::thread::sleep(Duration::from_millis(250));
            let now = PROGRESS.load(Ordering::Relaxed);
            if now == last {
                idle += 1;
                if idle >= secs * 4 {
                    on_fire();
                    std::process::exit(3);
                }
            } else {
                idle = 0;
                last = now;
            }
        }
    });
}

pub fn runtime() -> tokio::runtime::Runtime {
    tokio::runtime::Builder::new_current_thread().enable_all().start_paused(true).build().unwrap()
}

/// remoc probes once per process whether helper threads work (`exec::are_threads_available`), waiting
/// for a plain `std::thread`; under a paused clock that wait looks like quiescence.  Do it up front.
pub fn warm_up() {
    let rt = tokio::runtime::Builder::new_current_thread().enable_all().build().unwrap();
    rt.block_on(async {
        let _ = remoc::exec::are_threads_available().await;
    });
}
