//! Script interpreter for remote functions (`remoc::rfn::{RFn, RFnMut, RFnOnce}`), properties
//! C12 / C19.
//!
//! One case = one wrapped function.  The function adds `by` to a shared counter in every segment,
//! suspends between segments (harness-controlled gate or `yield_now`), logs start / segment /
//! finish / drop (a drop guard detects an abandoned execution) from *inside* the closure and
//! returns a reply that identifies its call (tag) and its execution (nonce).  The `FnMut` /
//! `FnOnce` closures additionally count their own invocations (`seq`), so that the order in which
//! the provider took the requests is observable.  The wrapper is created with `provided_1` (or
//! `new_1`), sent over a real connection (`remoc::Connect::io` over `tokio::io::duplex`) unless the
//! case is local, and called through hand-spawned call tasks that the script can abort at chosen
//! points.  Every observable event is appended to one global log in real execution order
//! (single-threaded runtime, paused clock: `settle` returns at quiescence).
//!
//! Script lines (`key=value` tokens):
//!   case <name> fl=<const|mut|once> remote=<0|1> keep=<0|1> limit=<n> init=<v> exact=<0|1>
//!   call <c> h=<i> nseg=<n> gated=<0|1> by=<n> arg=<ok|unser|undeser|big> res=<ok|unser|undeser|big>
//!   clone <i> | drophandle <i> | step <c> | abort <c> | yield <n> | settle | kill | dropprov | end
use std::{
    cell::RefCell,
    collections::HashMap,
    future::Future,
    pin::Pin,
    sync::Arc,
    task::{Context, Poll, Waker},
    time::Duration,
};

use remoc::rfn::{CallError, RFn, RFnMut, RFnMutProvider, RFnOnce, RFnOnceProvider, RFnProvider};
use serde::{Deserialize, Serialize};

// ------------------------------------------------------------------------------------------------
// global log, gates, the shared counter

#[derive(Default)]
struct Shared {
    log: Vec<String>,
    gates: HashMap<u32, (u32, Option<Waker>)>,
    execs: u32,
    value: u64,
    active: u32,
}

thread_local! {
    static SH: RefCell<Shared> = RefCell::new(Shared::default());
}

fn log(line: String) {
    crate::typed::progress();
    SH.with(|s| s.borrow_mut().log.push(line));
}

struct GateFut(u32);

impl Future for GateFut {
    type Output = ();
    fn poll(self: Pin<&mut Self>, cx: &mut Context<'_>) -> Poll<()> {
        SH.with(|s| {
            let mut s = s.borrow_mut();
            let e = s.gates.entry(self.0).or_insert((0, None));
            if e.0 > 0 {
                e.0 -= 1;
                Poll::Ready(())
            } else {
                e.1 = Some(cx.waker().clone());
                Poll::Pending
            }
        })
    }
}

fn open_gate(tag: u32) {
    let w = SH.with(|s| {
        let mut s = s.borrow_mut();
        let e = s.gates.entry(tag).or_insert((0, None));
        e.0 += 1;
        e.1.take()
    });
    if let Some(w) = w {
        w.wake();
    }
}

// ------------------------------------------------------------------------------------------------
// arguments and results with controllable (de)serialisation behaviour

/// 0 = fine, 1 = serialisation fails, 2 = deserialisation fails
#[derive(Debug, Clone, Copy, Default)]
pub struct Flag(pub u8);

impl Serialize for Flag {
    fn serialize<S: serde::Serializer>(&self, s: S) -> Result<S::Ok, S::Error> {
        if self.0 == 1 {
            return Err(serde::ser::Error::custom("harness: value refuses to be serialised"));
        }
        s.serialize_u8(self.0)
    }
}

impl<'de> Deserialize<'de> for Flag {
    fn deserialize<D: serde::Deserializer<'de>>(d: D) -> Result<Self, D::Error> {
        let v = u8::deserialize(d)?;
        if v == 2 {
            return Err(serde::de::Error::custom("harness: value refuses to be deserialised"));
        }
        Ok(Flag(v))
    }
}

/// Padding serialised as one byte string (fast also for more than `DEFAULT_MAX_ITEM_SIZE` bytes).
#[derive(Debug, Clone, Default)]
pub struct Pad(pub Vec<u8>);

impl Serialize for Pad {
    fn serialize<S: serde::Serializer>(&self, s: S) -> Result<S::Ok, S::Error> {
        s.serialize_bytes(&self.0)
    }
}

impl<'de> Deserialize<'de> for Pad {
    fn deserialize<D: serde::Deserializer<'de>>(d: D) -> Result<Self, D::Error> {
        struct V;
        impl<'de> serde::de::Visitor<'de> for V {
            type Value = Pad;
            fn expecting(&self, f: &mut std::fmt::Formatter) -> std::fmt::Result {
                write!(f, "bytes")
            }
            fn visit_bytes<E: serde::de::Error>(self, v: &[u8]) -> Result<Pad, E> {
                Ok(Pad(v.to_vec()))
            }
            fn visit_byte_buf<E: serde::de::Error>(self, v: Vec<u8>) -> Result<Pad, E> {
                Ok(Pad(v))
            }
            fn visit_seq<A: serde::de::SeqAccess<'de>>(self, mut a: A) -> Result<Pad, A::Error> {
                let mut v = Vec::new();
                while let Some(b) = a.next_element::<u8>()? {
                    v.push(b);
                }
                Ok(Pad(v))
            }
        }
        d.deserialize_byte_buf(V)
    }
}

/// more than `remoc::rch::DEFAULT_MAX_ITEM_SIZE` (16 MiB): the only way to exceed the item size
/// limit of a remote function, whose channels cannot be configured
const BIG: usize = 16_777_216 + 4096;

fn kind_code(s: &str) -> u8 {
    match s {
        "unser" => 1,
        "undeser" => 2,
        "big" => 3,
        _ => 0,
    }
}

#[derive(Serialize, Deserialize, Debug, Clone, Default)]
pub struct Arg {
    pub tag: u32,
    pub nseg: u8,
    pub gated: bool,
    pub by: u64,
    /// how the result is to behave
    pub res: u8,
    pub flag: Flag,
    pub pad: Pad,
}

#[derive(Serialize, Deserialize, Debug, Clone)]
pub struct Rep {
    pub tag: u32,
    pub x: u32,
    pub v1: u64,
    pub v2: u64,
    pub flag: Flag,
    pub pad: Pad,
}

type Res = Result<Rep, CallError>;
type F = RFn<(Arg,), Res>;
type FM = RFnMut<(Arg,), Res>;
type FO = RFnOnce<(Arg,), Res>;

#[derive(Serialize, Deserialize)]
pub enum Xfer {
    Const(F),
    Mut(FM),
    Once(FO),
}

// ------------------------------------------------------------------------------------------------
// the wrapped function

struct ExecGuard {
    tag: u32,
    x: u32,
    k: u32,
    done: bool,
}

impl Drop for ExecGuard {
    fn drop(&mut self) {
        SH.with(|s| s.borrow_mut().active -= 1);
        if !self.done {
            log(format!("ev drop {} x={} k={}", self.tag, self.x, self.k));
        }
    }
}

fn bump(by: u64) -> (u64, u64) {
    SH.with(|s| {
        let mut s = s.borrow_mut();
        let before = s.value;
        s.value = s.value.wrapping_add(by);
        (before, s.value)
    })
}

/// The body: segment 0 runs at the first poll, every further segment after one suspension.
/// `seq` is the invocation count of the closure (0 for `Fn`).
async fn body(arg: Arg, seq: u32) -> Res {
    let x = SH.with(|s| {
        let mut s = s.borrow_mut();
        s.execs += 1;
        s.active += 1;
        s.execs
    });
    let mut g = ExecGuard { tag: arg.tag, x, k: 0, done: false };
    let active = SH.with(|s| s.borrow().active);
    log(format!("ev start {} x={} seq={} nseg={} by={} active={}", arg.tag, x, seq, arg.nseg.max(1), arg.by, active));
    let (v1, mut v2) = bump(arg.by);
    log(format!("ev seg {} x={} k=0 v={}", arg.tag, x, v2));
    g.k = 1;
    for k in 1..arg.nseg.max(1) as u32 {
        if arg.gated {
            GateFut(arg.tag).await
        } else {
            tokio::task::yield_now().await
        }
        v2 = bump(arg.by).1;
        log(format!("ev seg {} x={} k={} v={}", arg.tag, x, k, v2));
        g.k = k + 1;
    }
    g.done = true;
    log(format!("ev fin {} x={} v1={} v2={}", arg.tag, x, v1, v2));
    let (flag, pad) = match arg.res {
        1 => (Flag(1), Pad(Vec::new())),
        2 => (Flag(2), Pad(Vec::new())),
        3 => (Flag(0), Pad(vec![0u8; BIG])),
        _ => (Flag(0), Pad(vec![7u8; (arg.tag % 5) as usize])),
    };
    Ok(Rep { tag: arg.tag, x, v1, v2, flag, pad })
}

fn class(e: &CallError) -> String {
    match e {
        CallError::Dropped => "dropped".into(),
        CallError::RemoteReceive(k) => {
            let s = format!("{k:?}");
            if s.contains("MaxItemSizeExceeded") {
                "recv-maxsize".into()
            } else if s.contains("Deserialize") {
                "recv-deserialize".into()
            } else {
                "recv-other".into()
            }
        }
        CallError::RemoteConnect(_) => "connect".into(),
        CallError::RemoteListen(_) => "listen".into(),
    }
}

// ------------------------------------------------------------------------------------------------
// the interpreter

fn kv<'a>(toks: &'a [&'a str], key: &str) -> Option<&'a str> {
    toks.iter().find_map(|t| t.strip_prefix(key).and_then(|r| r.strip_prefix('=')))
}

fn kvn(toks: &[&str], key: &str, default: u64) -> u64 {
    kv(toks, key).and_then(|v| v.parse().ok()).unwrap_or(default)
}

enum Provider {
    Const(RFnProvider),
    Mut(RFnMutProvider),
    Once(RFnOnceProvider),
}

impl Provider {
    /// has the provider task ended?  (`done()` completes when the task has dropped `keep_rx`)
    fn task_ended(&mut self) -> bool {
        let waker = futures::task::noop_waker();
        let mut cx = Context::from_waker(&waker);
        match self {
            Provider::Const(p) => {
                let f = p.done();
                tokio::pin!(f);
                f.poll(&mut cx).is_ready()
            }
            Provider::Mut(p) => {
                let f = p.done();
                tokio::pin!(f);
                f.poll(&mut cx).is_ready()
            }
            Provider::Once(p) => {
                let f = p.done();
                tokio::pin!(f);
                f.poll(&mut cx).is_ready()
            }
        }
    }
}

#[derive(Clone)]
enum Handle {
    Const(F),
    /// `call(&mut self)`: one call at a time, later calls wait for the handle
    Mut(Arc<tokio::sync::Mutex<Option<FM>>>),
    /// `call(self)`
    Once(Arc<std::sync::Mutex<Option<FO>>>),
}

struct Conn {
    tasks: Vec<tokio::task::JoinHandle<()>>,
    a_tx: remoc::rch::base::Sender<Xfer>,
    b_rx: remoc::rch::base::Receiver<Xfer>,
}

async fn connect() -> Conn {
    let (a_io, b_io) = tokio::io::duplex(1 << 16);
    let (a_r, a_w) = tokio::io::split(a_io);
    let (b_r, b_w) = tokio::io::split(b_io);
    let mut cfg = remoc::Cfg::default();
    cfg.connection_timeout = None;
    let a = remoc::Connect::io::<_, _, Xfer, (), remoc::codec::Default>(cfg.clone(), a_r, a_w);
    let b = remoc::Connect::io::<_, _, (), Xfer, remoc::codec::Default>(cfg, b_r, b_w);
    let (a, b) = tokio::join!(a, b);
    let (conn_a, a_tx, _a_rx) = a.expect("connect A");
    let (conn_b, _b_tx, b_rx) = b.expect("connect B");
    let t1 = tokio::spawn(async move {
        let _ = conn_a.await;
    });
    let t2 = tokio::spawn(async move {
        let _ = conn_b.await;
    });
    Conn { tasks: vec![t1, t2], a_tx, b_rx }
}

thread_local! {
    static REALTIME: std::cell::Cell<bool> = const { std::cell::Cell::new(false) };
}

async fn settle_only() {
    if REALTIME.with(|r| r.get()) {
        // debugging aid (`realtime=1`): wall-clock runtime, "quiescence" = 300 ms without a stimulus
        tokio::time::sleep(Duration::from_millis(300)).await;
    } else {
        tokio::time::sleep(Duration::from_nanos(1)).await;
    }
}

struct Run {
    provider: Option<Provider>,
    prov_dropped: bool,
    handles: Vec<Option<Handle>>,
    calls: HashMap<u32, tokio::task::JoinHandle<()>>,
    conn: Option<Conn>,
}

impl Run {
    async fn settle(&mut self) {
        settle_only().await;
        let prov = match (&mut self.provider, self.prov_dropped) {
            (_, true) => "dropped",
            (None, false) => "kept",
            (Some(p), false) => {
                if p.task_ended() {
                    "ended"
                } else {
                    "alive"
                }
            }
        };
        let mut p: Vec<u32> = self.calls.iter().filter(|(_, h)| !h.is_finished()).map(|(c, _)| *c).collect();
        p.sort();
        let pending: Vec<String> = p.iter().map(|c| c.to_string()).collect();
        let (value, active) = SH.with(|s| {
            let s = s.borrow();
            (s.value, s.active)
        });
        log(format!(
            "settled prov={prov} value={value} active={active} pending={}",
            if pending.is_empty() { "-".to_string() } else { pending.join(",") }
        ));
    }
}

/// Run one script; returns the trace lines.
pub async fn run_case(script: &[String]) -> Vec<String> {
    SH.with(|s| *s.borrow_mut() = Shared::default());
    let head: Vec<&str> = script[0].split_whitespace().collect();
    assert_eq!(head[0], "case");
    log(script[0].clone());
    let fl = kv(&head, "fl").unwrap_or("const").to_string();
    let remote = kvn(&head, "remote", 1) == 1;
    let keep = kvn(&head, "keep", 0) == 1;
    let limit = kvn(&head, "limit", 32) as usize;
    let init = kvn(&head, "init", 0);
    SH.with(|s| s.borrow_mut().value = init);

    // the wrapper and its provider
    let (first, provider): (Xfer, Option<Provider>) = match fl.as_str() {
        "const" => {
            let fun = |arg: Arg| body(arg, 0);
            if keep {
                (Xfer::Const(RFn::new_1(fun)), None)
            } else {
                let (f, p) = RFn::provided_1(fun);
                (Xfer::Const(f), Some(Provider::Const(p)))
            }
        }
        "mut" => {
            let mut seq = 0u32;
            let fun = move |arg: Arg| {
                seq += 1;
                body(arg, seq)
            };
            if keep {
                (Xfer::Mut(RFnMut::new_1(fun)), None)
            } else {
                let (f, p) = RFnMut::provided_1(fun);
                (Xfer::Mut(f), Some(Provider::Mut(p)))
            }
        }
        "once" => {
            let fun = move |arg: Arg| body(arg, 1);
            if keep {
                (Xfer::Once(RFnOnce::new_1(fun)), None)
            } else {
                let (f, p) = RFnOnce::provided_1(fun);
                (Xfer::Once(f), Some(Provider::Once(p)))
            }
        }
        other => panic!("unknown flavour {other}"),
    };
    if let Some(Provider::Const(p)) = &provider {
        p.set_max_concurrency(limit);
    }

    let mut run = Run { provider, prov_dropped: false, handles: Vec::new(), calls: HashMap::new(), conn: None };
    let got = if remote {
        run.conn = Some(connect().await);
        let conn = run.conn.as_mut().unwrap();
        if conn.a_tx.send(first).await.is_err() {
            panic!("send wrapper");
        }
        conn.b_rx.recv().await.expect("recv wrapper").expect("wrapper")
    } else {
        first
    };
    run.handles.push(Some(match got {
        Xfer::Const(f) => Handle::Const(f),
        Xfer::Mut(f) => Handle::Mut(Arc::new(tokio::sync::Mutex::new(Some(f)))),
        Xfer::Once(f) => Handle::Once(Arc::new(std::sync::Mutex::new(Some(f)))),
    }));
    run.settle().await;

    for line in &script[1..] {
        let toks: Vec<&str> = line.split_whitespace().collect();
        if toks.is_empty() || toks[0].starts_with('#') {
            continue;
        }
        log(format!("op {line}"));
        match toks[0] {
            "call" => {
                let c: u32 = toks[1].parse().unwrap();
                let h = kvn(&toks, "h", 0) as usize;
                let akind = kind_code(kv(&toks, "arg").unwrap_or("ok"));
                let arg = Arg {
                    tag: c,
                    nseg: kvn(&toks, "nseg", 1) as u8,
                    gated: kvn(&toks, "gated", 1) == 1,
                    by: kvn(&toks, "by", 0),
                    res: kind_code(kv(&toks, "res").unwrap_or("ok")),
                    flag: Flag(if akind == 3 { 0 } else { akind }),
                    pad: Pad(if akind == 3 { vec![0u8; BIG] } else { vec![5u8; (c % 7) as usize] }),
                };
                match run.handles.get(h).and_then(|x| x.clone()) {
                    Some(handle) => {
                        let jh = tokio::spawn(async move {
                            let r = match handle {
                                Handle::Const(f) => {
                                    log(format!("ev inv {c}"));
                                    f.call(arg).await
                                }
                                Handle::Mut(m) => {
                                    let mut g = m.lock_owned().await;
                                    match g.as_mut() {
                                        Some(f) => {
                                            log(format!("ev inv {c}"));
                                            f.call(arg).await
                                        }
                                        None => {
                                            log(format!("ev noclient {c}"));
                                            return;
                                        }
                                    }
                                }
                                Handle::Once(m) => {
                                    let f = m.lock().unwrap().take();
                                    match f {
                                        Some(f) => {
                                            log(format!("ev inv {c}"));
                                            f.call(arg).await
                                        }
                                        None => {
                                            log(format!("ev noclient {c}"));
                                            return;
                                        }
                                    }
                                }
                            };
                            match r {
                                Ok(rep) => log(format!(
                                    "ev ret {c} ok tag={} x={} v1={} v2={} pad={}",
                                    rep.tag,
                                    rep.x,
                                    rep.v1,
                                    rep.v2,
                                    rep.pad.0.len()
                                )),
                                Err(e) => log(format!("ev ret {c} err {}", class(&e))),
                            }
                        });
                        run.calls.insert(c, jh);
                    }
                    None => log(format!("ev noclient {c}")),
                }
            }
            "clone" => {
                let i: usize = toks[1].parse().unwrap();
                let h = run.handles.get(i).and_then(|x| x.clone());
                run.handles.push(h);
            }
            "drophandle" => {
                let i: usize = toks[1].parse().unwrap();
                if let Some(h) = run.handles.get_mut(i) {
                    *h = None;
                }
            }
            "step" => {
                let c: u32 = toks[1].parse().unwrap();
                open_gate(c);
            }
            "abort" => {
                let c: u32 = toks[1].parse().unwrap();
                if let Some(h) = run.calls.get(&c) {
                    if !h.is_finished() {
                        h.abort();
                        log(format!("ev abandon {c}"));
                    } else {
                        log(format!("ev abandon-late {c}"));
                    }
                }
            }
            "yield" => {
                let n: u64 = toks[1].parse().unwrap();
                for _ in 0..n {
                    tokio::task::yield_now().await;
                }
            }
            "settle" => run.settle().await,
            "kill" => {
                if let Some(conn) = run.conn.take() {
                    for t in &conn.tasks {
                        t.abort();
                    }
                    drop(conn);
                }
            }
            "dropprov" => {
                if run.provider.take().is_some() {
                    run.prov_dropped = true;
                }
            }
            "end" => {
                run.settle().await;
                // hang detection: whatever is still pending at quiescence can never complete
                let mut hung: Vec<u32> = run.calls.iter().filter(|(_, h)| !h.is_finished()).map(|(c, _)| *c).collect();
                hung.sort();
                for c in hung {
                    log(format!("ev hang {c}"));
                }
                for h in run.handles.iter_mut() {
                    *h = None;
                }
                run.settle().await;
            }
            other => panic!("unknown op {other}"),
        }
    }
    log("cleanup".to_string());
    for (_, h) in run.calls.drain() {
        h.abort();
    }
    if let Some(conn) = run.conn.take() {
        for t in &conn.tasks {
            t.abort();
        }
    }
    drop(run);
    settle_only().await;
    log("endcase".to_string());
    SH.with(|s| std::mem::take(&mut s.borrow_mut().log))
}

pub fn run_script(script: &[String]) -> Vec<String> {
    let fine = script[0].split_whitespace().any(|t| t == "fine=1");
    let realtime = script[0].split_whitespace().any(|t| t == "realtime=1");
    REALTIME.with(|r| r.set(realtime));
    let mut b = tokio::runtime::Builder::new_current_thread();
    b.enable_time().start_paused(!realtime);
    if fine {
        // one yield of the script = one round of single polls of the other tasks
        b.event_interval(1);
    }
    let rt = b.build().unwrap();
    let script = script.to_vec();
    let res = std::panic::catch_unwind(std::panic::AssertUnwindSafe(|| rt.block_on(run_case(&script))));
    match res {
        Ok(lines) => lines,
        Err(e) => {
            let msg = e.downcast_ref::<String>().cloned().or_else(|| e.downcast_ref::<&str>().map(|s| s.to_string())).unwrap_or_default();
            let mut lines = SH.with(|s| std::mem::take(&mut s.borrow_mut().log));
            lines.push(format!("panic {}", msg.replace('\n', " ")));
            lines.push("endcase".to_string());
            lines
        }
    }
}
