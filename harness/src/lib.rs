//! Correspondence harness for the remoc verification models.
//!
//! Every binary under `src/bin` drives the real `remoc` crate (path dependency on
//! `/repo/remoc`, rebuilt from the working tree on every check) and prints a trace
//! in the line protocol understood by the Lean model drivers under `/verif/lean/Driver`.

pub mod gens;
pub mod hex;
pub mod prng;
pub mod trace;
pub mod transport;
pub mod wiretext;
pub mod world;
pub mod rtcworld;
pub mod rtcgens;
pub mod typed;
pub mod rfnworld;
pub mod rfngens;
