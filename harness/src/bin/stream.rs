//! C09 on a byte stream: a real endpoint built with `remoc::Connect::io` over an in-memory duplex
//! talks to a *spec peer* implemented here at byte level, from the published layout only (no call
//! into remoc's codec): 4-byte little-endian length prefix, message codes, flag bits, LE fields.
//!
//! The trace (for `Driver/Wire.lean`) contains
//!   * `sbytes <hex>`   every chunk of raw bytes the real endpoint wrote,
//!   * `enc <msg> | <hex>` / `frm <payload> | <framed>` for every frame the spec peer wrote, so that
//!     the peer's own encoder is checked against the Lean spec (`encode`, `frame`) on every run,
//!   * `sret …` outcomes: did `Connect::io` complete, did the value echoed by the peer arrive, is the
//!     connection still alive after a frame of exactly / one more than the maximum frame length.
//! The driver unframes the real byte stream with the spec's `unframe`, decodes every frame with the
//! spec decoder and judges the outcomes.
//!
//! usage: stream <cases>     (seed from VERIF_SEED)

use std::{sync::{Arc, Mutex}, time::Duration};

use tokio::io::{AsyncReadExt, AsyncWriteExt};
use verif_harness::{hex::hex, prng::Rng};

fn le32(n: u32) -> [u8; 4] {
    n.to_le_bytes()
}

/// spec peer encoders (independent of remoc): payload bytes and text form
fn m_reset() -> (Vec<u8>, String) {
    (vec![1], "reset".into())
}
#[derive(serde::Serialize, serde::Deserialize, Debug, Clone)]
enum Val {
    Small(u32),
    Large(Vec<u8>),
}

fn m_hello(version: u8, timeout_ms: u64, chunk: u32, buf: u32, cq: u16) -> (Vec<u8>, String) {
    let mut b = vec![2];
    b.extend(b"CHMUX\0");
    b.push(version);
    b.extend(timeout_ms.to_le_bytes());
    b.extend(le32(chunk));
    b.extend(le32(buf));
    b.extend(cq.to_le_bytes());
    (b, format!("hello {version} {timeout_ms} {chunk} {buf} {cq}"))
}
fn m_open_port(p: u32, wait: bool, id: Option<u32>) -> (Vec<u8>, String) {
    let mut b = vec![4];
    b.extend(le32(p));
    b.push(wait as u8 | if id.is_some() { 2 } else { 0 });
    if let Some(id) = id {
        b.extend(le32(id));
    }
    (b, format!("openPort {p} {} {}", wait as u8, id.map(|i| i.to_string()).unwrap_or("-".into())))
}
fn m_port_opened(c: u32, s: u32) -> (Vec<u8>, String) {
    let mut b = vec![5];
    b.extend(le32(c));
    b.extend(le32(s));
    (b, format!("portOpened {c} {s}"))
}
fn m_data(port: u32, first: bool, last: bool) -> (Vec<u8>, String) {
    let mut b = vec![7];
    b.extend(le32(port));
    b.push(first as u8 | (last as u8) << 1);
    (b, format!("data {port} {} {}", first as u8, last as u8))
}
fn m_ping() -> (Vec<u8>, String) {
    (vec![3], "ping".into())
}

fn frame(payload: &[u8]) -> Vec<u8> {
    let mut f = le32(payload.len() as u32).to_vec();
    f.extend_from_slice(payload);
    f
}

struct Peer<W> {
    w: W,
    rng: Rng,
    log: Arc<Mutex<Vec<String>>>,
}

impl<W: tokio::io::AsyncWrite + Unpin> Peer<W> {
    /// writes raw bytes in random pieces (the stream decoder of the real endpoint must reassemble)
    async fn write_raw(&mut self, bytes: &[u8]) -> bool {
        let mut at = 0;
        while at < bytes.len() {
            let n = (self.rng.range(1, 9) as usize).min(bytes.len() - at);
            if self.w.write_all(&bytes[at..at + n]).await.is_err() {
                return false;
            }
            let _ = self.w.flush().await;
            at += n;
            if self.rng.chance(1, 2) {
                tokio::task::yield_now().await;
            }
        }
        true
    }
    async fn send_msg(&mut self, m: (Vec<u8>, String)) -> bool {
        let f = frame(&m.0);
        self.log.lock().unwrap().push(format!("enc {} | {}", m.1, hex(&m.0)));
        self.log.lock().unwrap().push(format!("frm {} | {}", hex(&m.0), hex(&f)));
        self.write_raw(&f).await
    }
    async fn send_payload(&mut self, p: &[u8]) -> bool {
        let f = frame(p);
        self.log.lock().unwrap().push(format!("frm {} | {}", hex(p), hex(&f)));
        self.write_raw(&f).await
    }
}

async fn settle() {
    tokio::time::sleep(Duration::from_millis(1)).await;
}

async fn run_case(i: u64, r: &mut Rng, log: Arc<Mutex<Vec<String>>>) {
    // a Hello frame is 26 bytes: on a stream transport it fits the receive limit 16 + chunk_size only for
    // chunk_size >= 10 (theorem hello_exceeds_budget_small_chunk), so smaller sizes cannot connect at all
    let real_chunk = *r.pick(&[10u32, 11, 16, 33, 100, 1024]);
    let peer_chunk = *r.pick(&[4u32, 8, 16, 64, 1000]);
    let variant = i % 3; // 0: echo only, 1: frame of exactly the maximum length, 2: one byte more
    let mut cfg = remoc::Cfg::default();
    cfg.chunk_size = real_chunk;
    cfg.receive_buffer = (real_chunk * 4).max(64);
    cfg.connection_timeout = None;
    let real_buf = cfg.receive_buffer;
    let real_cq = cfg.connect_queue;
    let l = |s: String| log.lock().unwrap().push(s);
    l(format!("trace stream-{i}"));
    l(format!("scfg realchunk={real_chunk} realbuf={real_buf} realcq={real_cq} peerchunk={peer_chunk} variant={variant}"));

    let (real_io, peer_io) = tokio::io::duplex(1 << 20);
    let (rr, rw) = tokio::io::split(real_io);
    let (mut pr, pw) = tokio::io::split(peer_io);

    // ---- the real endpoint
    let alive = Arc::new(Mutex::new(None::<bool>));
    let log2 = log.clone();
    let alive2 = alive.clone();
    let real = tokio::spawn(async move {
        let l = |s: String| log2.lock().unwrap().push(s);
        match remoc::Connect::io::<_, _, Val, Val, remoc::codec::Default>(cfg, rr, rw).await {
            Ok((conn, mut tx, mut rx)) => {
                l("sret connect ok".into());
                let a3 = alive2.clone();
                *a3.lock().unwrap() = Some(true);
                tokio::spawn(async move {
                    let _ = conn.await;
                    *a3.lock().unwrap() = Some(false);
                });
                match tx.send(Val::Small(0xA1B2C3D4u32)).await {
                    Ok(()) => l("sret send ok".into()),
                    Err(e) => l(format!("sret send err {e}").replace('\n', " ")),
                }
                match tokio::time::timeout(Duration::from_secs(3600), rx.recv()).await {
                    Ok(Ok(Some(Val::Small(v)))) => l(format!("sret recv {v}")),
                    Ok(Ok(Some(Val::Large(v)))) => l(format!("sret recv large {}", v.len())),
                    Ok(Ok(None)) => l("sret recv end".into()),
                    Ok(Err(e)) => l(format!("sret recv err {e}").replace('\n', " ")),
                    Err(_) => l("sret recv hang".into()),
                }
                // a value much larger than the local chunk size: it travels in chunks of the size the *peer* announced,
                // which may exceed the local receive limit 16 + chunk_size (the limit applies to incoming frames only)
                match tx.send(Val::Large(vec![0x5a; 300])).await {
                    Ok(()) => l("sret send2 ok".into()),
                    Err(e) => l(format!("sret send2 err {e}").replace('\n', " ")),
                }
                // keep the halves alive until the case is over
                tokio::time::sleep(Duration::from_secs(100_000)).await;
                drop((tx, rx));
            }
            Err(e) => {
                l(format!("sret connect err {e}").replace('\n', " "));
            }
        }
    });

    // ---- the spec peer: reader task parses frames with the published framing
    let (ftx, mut frx) = tokio::sync::mpsc::unbounded_channel::<Vec<u8>>();
    let log3 = log.clone();
    let reader = tokio::spawn(async move {
        let mut acc: Vec<u8> = Vec::new();
        let mut buf = vec![0u8; 4096];
        loop {
            match pr.read(&mut buf).await {
                Ok(0) | Err(_) => break,
                Ok(n) => {
                    log3.lock().unwrap().push(format!("sbytes {}", hex(&buf[..n])));
                    acc.extend_from_slice(&buf[..n]);
                    while acc.len() >= 4 {
                        let len = u32::from_le_bytes([acc[0], acc[1], acc[2], acc[3]]) as usize;
                        if len > (1 << 24) || acc.len() < 4 + len {
                            break;
                        }
                        let f = acc[4..4 + len].to_vec();
                        acc.drain(..4 + len);
                        let _ = ftx.send(f);
                    }
                }
            }
        }
    });

    let mut peer = Peer { w: pw, rng: r.fork(), log: log.clone() };
    // frames that are not v3 messages may precede the peer's Reset/Hello (an older or foreign protocol talking first):
    // the handshake ignores whatever it cannot decode until the Hello arrives
    let mut ok = true;
    if r.chance(1, 2) {
        for _ in 0..r.range(1, 3) {
            let junk: Vec<u8> = match r.below(4) {
                0 => vec![0xee, 1, 2],
                1 => vec![],
                2 => vec![2, 0x43, 0x48],
                _ => vec![4, 1],
            };
            l(format!("sjunk {}", hex(&junk)));
            ok &= peer.send_payload(&junk).await;
        }
    }
    ok &= peer.send_msg(m_reset()).await;
    ok &= peer.send_msg(m_hello(3, 0, peer_chunk, 1 << 16, 4)).await;
    let my_port: u32 = 77 + (i as u32 % 5);
    let mut sent_open = false;
    let mut real_rx_port: Option<u32> = None; // the real endpoint's port answering our request
    let mut next_is_payload = false;
    let mut hdr_last = false;
    let mut msg: Vec<u8> = Vec::new();
    let mut echoed = false;
    let mut served = 0u32;
    // interact until nothing more arrives (virtual clock: the timeout fires at quiescence)
    while ok {
        let f = match tokio::time::timeout(Duration::from_secs(5), frx.recv()).await {
            Ok(Some(f)) => f,
            _ => break,
        };
        if next_is_payload {
            next_is_payload = false;
            // echo the first value the real endpoint sent (reassembled from its chunks) back to its receiver
            if !echoed {
                msg.extend_from_slice(&f);
                if let (true, Some(rp)) = (hdr_last, real_rx_port) {
                    echoed = true;
                    // in chunks of at most the chunk size the real endpoint announced
                    let parts: Vec<Vec<u8>> = msg.chunks(real_chunk as usize).map(|c| c.to_vec()).collect();
                    let n = parts.len();
                    for (i, part) in parts.into_iter().enumerate() {
                        ok &= peer.send_msg(m_data(rp, i == 0, i + 1 == n)).await;
                        ok &= peer.send_payload(&part).await;
                    }
                }
            }
            continue;
        }
        match f.first().copied() {
            Some(2) if !sent_open => {
                sent_open = true;
                ok &= peer.send_msg(m_open_port(my_port, true, Some(my_port))).await;
            }
            Some(4) if f.len() >= 5 => {
                let cp = u32::from_le_bytes([f[1], f[2], f[3], f[4]]);
                served += 1;
                ok &= peer.send_msg(m_port_opened(cp, 1000 + served)).await;
            }
            Some(5) if f.len() >= 9 => {
                real_rx_port = Some(u32::from_le_bytes([f[5], f[6], f[7], f[8]]));
            }
            Some(7) if f.len() >= 6 => {
                next_is_payload = true;
                if f[5] & 1 != 0 {
                    msg.clear();
                }
                hdr_last = f[5] & 2 != 0;
            }
            _ => {}
        }
    }
    settle().await;
    // ---- maximum frame length
    if let (true, Some(rp)) = (variant > 0 && echoed, real_rx_port) {
        let max = 16 + real_chunk;
        if variant == 1 {
            // a data payload of exactly chunk_size bytes: a legal frame, must be accepted
            ok &= peer.send_msg(m_data(rp, true, true)).await;
            let p = vec![0u8; real_chunk as usize];
            ok &= peer.send_payload(&p).await;
            l(format!("sframe len={} max={max}", real_chunk));
        } else {
            // a frame announcing one byte more than the maximum frame length
            let p = vec![3u8; max as usize + 1];
            let f = frame(&p);
            l(format!("frm {} | {}", hex(&p), hex(&f)));
            let _ = peer.write_raw(&f).await;
            l(format!("sframe len={} max={max}", max + 1));
        }
        let _ = ok;
        let _ = peer.send_msg(m_ping()).await;
        tokio::time::sleep(Duration::from_secs(10)).await;
    }
    settle().await;
    let a = *alive.lock().unwrap();
    l(format!(
        "sret alive {}",
        match a {
            Some(true) => "1",
            Some(false) => "0",
            None => "never",
        }
    ));
    real.abort();
    reader.abort();
    let _ = real.await;
    let _ = reader.await;
    l("sdone".into());
}

fn main() {
    let cases: u64 = std::env::args().nth(1).and_then(|s| s.parse().ok()).unwrap_or(30);
    let mut r = Rng::from_env();
    let log = Arc::new(Mutex::new(Vec::new()));
    for i in 0..cases {
        let rt = tokio::runtime::Builder::new_current_thread().enable_time().start_paused(true).build().unwrap();
        let mut rc = r.fork();
        let log2 = log.clone();
        rt.block_on(async move { run_case(i, &mut rc, log2).await });
        drop(rt);
        for line in log.lock().unwrap().drain(..) {
            println!("{line}");
        }
    }
    eprintln!("STAT stream.cases {cases}");
}
