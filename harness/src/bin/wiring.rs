//! C05: channel halves embedded in values are wired one-to-one to their counterparts.
//!
//! Real values with 0–12 halves (mpsc, oneshot, watch, broadcast, bin, lr; sender and receiver halves) at
//! Vec / Option / tuple / enum / HashMap / nested positions are sent over a chain of 1–3 real connections
//! (`remoc::Connect::io` over `tokio::io::duplex`, `max_ports` and receive buffers small).  Every half has a
//! unique label; the label is sent into the channel and must come out at exactly its counterpart, and
//! nothing else.  Fault scenarios make halves unconnectable (ports exhausted on either side, value never
//! received, connection cut): both ends must observe an error, nothing may hang (paused clock).
//!
//! usage: wiring gen <count>        generate cases (seed from VERIF_SEED)
//!        wiring fixed              fixed regression / finding witnesses
//!        wiring run <spec-file>…   run the cases of spec files (corpus / replay)

use std::{
    collections::HashMap,
    io::Write,
    time::Duration,
};

use remoc::{codec, rch};
use serde::{Deserialize, Serialize};
use verif_harness::{prng::Rng, trace::tr, typed::*};

type Lab = u32;

#[derive(Serialize, Deserialize)]
enum H {
    MTx(rch::mpsc::Sender<Lab>),
    MRx(rch::mpsc::Receiver<Lab>),
    OTx(rch::oneshot::Sender<Lab>),
    ORx(rch::oneshot::Receiver<Lab>),
    WTx(rch::watch::Sender<Lab>),
    WRx(rch::watch::Receiver<Lab>),
    BRx(rch::broadcast::Receiver<Lab>),
    BinTx(rch::bin::Sender),
    BinRx(rch::bin::Receiver),
    LTx(rch::lr::Sender<Lab>),
    LRx(rch::lr::Receiver<Lab>),
}

/// a labelled half
#[derive(Serialize, Deserialize)]
struct L {
    label: Lab,
    h: H,
}

#[derive(Serialize, Deserialize)]
enum E {
    Unit,
    One(L),
    Pair(L, L),
    Boxed(Box<Value>),
}

#[derive(Serialize, Deserialize)]
struct Value {
    id: u32,
    vec: Vec<L>,
    opt: Option<L>,
    tup: (Option<L>, u8, Option<L>),
    en: E,
    map: HashMap<u32, L>,
}

impl Value {
    fn empty(id: u32) -> Self {
        Value { id, vec: Vec::new(), opt: None, tup: (None, 7, None), en: E::Unit, map: HashMap::new() }
    }

    fn flatten(self, out: &mut Vec<L>) {
        out.extend(self.vec);
        out.extend(self.opt);
        out.extend(self.tup.0);
        out.extend(self.tup.2);
        match self.en {
            E::Unit => (),
            E::One(a) => out.push(a),
            E::Pair(a, b) => {
                out.push(a);
                out.push(b);
            }
            E::Boxed(v) => v.flatten(out),
        }
        out.extend(self.map.into_values());
    }
}

// ------------------------------------------------------------------------------------------
// uniform access to the two ends of a channel
// ------------------------------------------------------------------------------------------

enum AnyTx {
    M(rch::mpsc::Sender<Lab>),
    O(Option<rch::oneshot::Sender<Lab>>),
    W(rch::watch::Sender<Lab>),
    B(rch::broadcast::Sender<Lab>),
    Bin(rch::bin::Sender),
    L(rch::lr::Sender<Lab>),
}

enum AnyRx {
    M(rch::mpsc::Receiver<Lab>),
    O(Option<rch::oneshot::Receiver<Lab>>),
    W(rch::watch::Receiver<Lab>),
    B(rch::broadcast::Receiver<Lab>),
    Bin(rch::bin::Receiver),
    L(rch::lr::Receiver<Lab>),
}

fn short<E: std::fmt::Debug>(e: &E) -> String {
    let s = format!("{e:?}");
    let s: String = s.chars().filter(|c| c.is_alphanumeric()).take(28).collect();
    if s.is_empty() { "err".into() } else { s }
}

impl AnyTx {
    /// send one label and wait until the result of the transmission is known
    async fn send(&mut self, v: Lab) -> Result<(), String> {
        match self {
            AnyTx::M(tx) => match tx.send(v).await {
                Ok(h) => h.await.map_err(|e| format!("sending-{}", short(&e.kind()))),
                Err(e) => Err(format!("send-{}", short(&e.without_item()))),
            },
            AnyTx::O(tx) => match tx.take() {
                Some(t) => match t.send(v) {
                    Ok(h) => h.await.map_err(|e| format!("sending-{}", short(&e.kind()))),
                    Err(e) => Err(format!("send-{}", short(&e.without_item()))),
                },
                None => Err("used".into()),
            },
            AnyTx::W(tx) => match tx.send(v) {
                Ok(()) => {
                    // errors of the forwarding task are reported asynchronously
                    settle().await;
                    match tx.error() {
                        Some(e) => Err(format!("watch-{}", short(&e))),
                        None => Ok(()),
                    }
                }
                Err(e) => Err(format!("send-{}", short(&e))),
            },
            AnyTx::B(tx) => match tx.send(v) {
                Ok(b) => {
                    let mut err = None;
                    for s in b.into_sendings() {
                        if let Err(e) = s.await {
                            err = Some(format!("sending-{}", short(&e.kind())));
                        }
                    }
                    match err {
                        Some(e) => Err(e),
                        None => Ok(()),
                    }
                }
                Err(e) => Err(format!("send-{}", short(&e.without_item()))),
            },
            AnyTx::Bin(tx) => match tx.get().await {
                Ok(t) => t.send(v.to_le_bytes().to_vec().into()).await.map_err(|e| format!("send-{}", short(&e))),
                Err(e) => Err(format!("connect-{}", short(&e))),
            },
            AnyTx::L(tx) => tx.send(v).await.map_err(|e| format!("send-{}", short(&e.kind))),
        }
    }
}

impl AnyRx {
    /// `Ok(Some(v))` a value, `Ok(None)` clean end, `Err` an error
    async fn recv(&mut self) -> Result<Option<Lab>, String> {
        match self {
            AnyRx::M(rx) => rx.recv().await.map_err(|e| format!("recv-{}", short(&e))),
            AnyRx::O(rx) => match rx.take() {
                Some(r) => match r.await {
                    Ok(v) => Ok(Some(v)),
                    Err(rch::oneshot::RecvError::Closed) => Ok(None),
                    Err(e) => Err(format!("recv-{}", short(&e))),
                },
                None => Ok(None),
            },
            AnyRx::W(rx) => match rx.changed().await {
                Ok(()) => match rx.borrow_and_update() {
                    Ok(v) => Ok(Some(*v)),
                    Err(e) => Err(format!("recv-{}", short(&e))),
                },
                Err(_) => match rx.borrow() {
                    // the sender is gone: a clean end unless the last state is an error
                    Ok(_) => Ok(None),
                    Err(e) => Err(format!("recv-{}", short(&e))),
                },
            },
            AnyRx::B(rx) => match rx.recv().await {
                Ok(v) => Ok(Some(v)),
                Err(rch::broadcast::RecvError::Closed) => Ok(None),
                Err(e) => Err(format!("recv-{}", short(&e))),
            },
            AnyRx::Bin(rx) => match rx.get().await {
                Ok(r) => match r.recv().await {
                    Ok(Some(d)) => {
                        let v: Vec<u8> = d.into();
                        if v.len() == 4 { Ok(Some(u32::from_le_bytes([v[0], v[1], v[2], v[3]]))) } else { Err("badlen".into()) }
                    }
                    Ok(None) => Ok(None),
                    Err(e) => Err(format!("recv-{}", short(&e))),
                },
                Err(e) => Err(format!("connect-{}", short(&e))),
            },
            AnyRx::L(rx) => rx.recv().await.map_err(|e| format!("recv-{}", short(&e))),
        }
    }
}

enum End {
    Tx(AnyTx),
    Rx(AnyRx),
}

fn end_of(h: H) -> End {
    match h {
        H::MTx(t) => End::Tx(AnyTx::M(t)),
        H::MRx(r) => End::Rx(AnyRx::M(r)),
        H::OTx(t) => End::Tx(AnyTx::O(Some(t))),
        H::ORx(r) => End::Rx(AnyRx::O(Some(r))),
        H::WTx(t) => End::Tx(AnyTx::W(t)),
        H::WRx(r) => End::Rx(AnyRx::W(r)),
        H::BRx(r) => End::Rx(AnyRx::B(r)),
        H::BinTx(t) => End::Tx(AnyTx::Bin(t)),
        H::BinRx(r) => End::Rx(AnyRx::Bin(r)),
        H::LTx(t) => End::Tx(AnyTx::L(t)),
        H::LRx(r) => End::Rx(AnyRx::L(r)),
    }
}

// ------------------------------------------------------------------------------------------
// case specification
// ------------------------------------------------------------------------------------------

#[derive(Clone, Debug)]
struct HalfSpec {
    label: Lab,
    kind: String,    // mpsc oneshot watch bcast bin lr
    travels: String, // tx | rx | both (bin, lr: finding FB2)
    pos: String,     // vec opt tup0 tup2 one pair nested map
    prequeue: bool,  // mpsc rx travelling with an item already queued
    /// bin / lr: before the value with this half is sent, a send of a value containing the OTHER half of the same
    /// channel fails after serialization ("ports": sender endpoint out of ports, "oversize": max_item_size) and hands
    /// the half back — the interlock must have returned to "local", so that this send is the ordinary local-remote case
    prefail: String,
}

#[derive(Clone, Debug)]
struct Case {
    name: String,
    hops: usize,
    scenario: String, // normal rxports txports norecv connfail
    chunk: u32,
    buf: u32,
    maxdata: usize,
    slack: u32, // max_ports = base need + slack (normal) …
    /// "base": the value travels over the connections' own base channels (re-serialized at every hop);
    /// "bin": it travels over a base channel built on a bin channel that was forwarded across the connections,
    /// so that `chmux::forward` relays the data and the port requests at the intermediate endpoints
    via: String,
    halves: Vec<HalfSpec>,
}

fn kv(line: &str) -> HashMap<String, String> {
    line.split_whitespace().filter_map(|w| w.split_once('=')).map(|(k, v)| (k.to_string(), v.to_string())).collect()
}

impl Case {
    fn spec_lines(&self) -> Vec<String> {
        let mut v = vec![format!(
            "case {} hops={} scenario={} chunk={} buf={} maxdata={} slack={} via={}",
            self.name, self.hops, self.scenario, self.chunk, self.buf, self.maxdata, self.slack, self.via
        )];
        for h in &self.halves {
            v.push(format!(
                "half {} kind={} travels={} pos={} prequeue={} prefail={}",
                h.label, h.kind, h.travels, h.pos, h.prequeue as u8, h.prefail
            ));
        }
        v.push("end".into());
        v
    }

    fn parse(lines: &[String]) -> Vec<Case> {
        let mut out = Vec::new();
        let mut cur: Option<Case> = None;
        for l in lines {
            let l = l.trim();
            let l = l.strip_prefix("spec ").unwrap_or(l);
            if l.starts_with('#') || l.is_empty() {
                continue;
            }
            if let Some(rest) = l.strip_prefix("case ") {
                let name = rest.split_whitespace().next().unwrap().to_string();
                let m = kv(rest);
                cur = Some(Case {
                    name,
                    hops: m["hops"].parse().unwrap(),
                    scenario: m["scenario"].clone(),
                    chunk: m["chunk"].parse().unwrap(),
                    buf: m["buf"].parse().unwrap(),
                    maxdata: m["maxdata"].parse().unwrap(),
                    slack: m.get("slack").and_then(|s| s.parse().ok()).unwrap_or(4),
                    via: m.get("via").cloned().unwrap_or_else(|| "base".into()),
                    halves: vec![],
                });
            } else if let Some(rest) = l.strip_prefix("half ") {
                let label: Lab = rest.split_whitespace().next().unwrap().parse().unwrap();
                let m = kv(rest);
                if let Some(c) = cur.as_mut() {
                    c.halves.push(HalfSpec {
                        label,
                        kind: m["kind"].clone(),
                        travels: m["travels"].clone(),
                        pos: m["pos"].clone(),
                        prequeue: m.get("prequeue").map(|s| s == "1").unwrap_or(false),
                        prefail: m.get("prefail").cloned().unwrap_or_else(|| "-".into()),
                    });
                }
            } else if l == "end" {
                if let Some(c) = cur.take() {
                    out.push(c);
                }
            }
        }
        out
    }
}

// ------------------------------------------------------------------------------------------
// building the value
// ------------------------------------------------------------------------------------------

fn place(v: &mut Value, pos: &str, l: L) {
    match pos {
        "opt" if v.opt.is_none() => v.opt = Some(l),
        "tup0" if v.tup.0.is_none() => v.tup.0 = Some(l),
        "tup2" if v.tup.2.is_none() => v.tup.2 = Some(l),
        "one" if matches!(v.en, E::Unit) => v.en = E::One(l),
        "pair" => match std::mem::replace(&mut v.en, E::Unit) {
            E::One(a) => v.en = E::Pair(a, l),
            E::Unit => v.en = E::One(l),
            other => {
                v.en = other;
                v.vec.push(l)
            }
        },
        "nested" => match &mut v.en {
            E::Boxed(b) => b.vec.push(l),
            E::Unit => {
                let mut b = Value::empty(v.id + 1);
                b.vec.push(l);
                v.en = E::Boxed(Box::new(b));
            }
            _ => v.vec.push(l),
        },
        "map" => {
            v.map.insert(l.label, l);
        }
        _ => v.vec.push(l),
    }
}

/// label offset of a half that goes through a failing preliminary send first
const PRE: Lab = 700_000;

/// creates the channel of one half spec: the travelling halves, the ends kept at the origin, and the halves that
/// stay at the origin but are first put into a preliminary value whose send fails (`prefail`)
fn make(spec: &HalfSpec) -> (Vec<L>, Vec<(Lab, End)>, Vec<L>) {
    let label = spec.label;
    let pre = spec.prefail != "-";
    if pre && (spec.kind == "bin" || spec.kind == "lr") && (spec.travels == "tx" || spec.travels == "rx") {
        return match (spec.kind.as_str(), spec.travels.as_str()) {
            ("bin", "tx") => {
                let (t, r) = rch::bin::channel();
                (vec![L { label, h: H::BinTx(t) }], vec![], vec![L { label: label + PRE, h: H::BinRx(r) }])
            }
            ("bin", _) => {
                let (t, r) = rch::bin::channel();
                (vec![L { label, h: H::BinRx(r) }], vec![], vec![L { label: label + PRE, h: H::BinTx(t) }])
            }
            (_, "tx") => {
                let (t, r) = rch::lr::channel::<Lab, codec::Default>();
                (vec![L { label, h: H::LTx(t) }], vec![], vec![L { label: label + PRE, h: H::LRx(r) }])
            }
            _ => {
                let (t, r) = rch::lr::channel::<Lab, codec::Default>();
                (vec![L { label, h: H::LRx(r) }], vec![], vec![L { label: label + PRE, h: H::LTx(t) }])
            }
        };
    }
    let (a, b) = make_plain(spec);
    (a, b, vec![])
}

fn make_plain(spec: &HalfSpec) -> (Vec<L>, Vec<(Lab, End)>) {
    let label = spec.label;
    let tx = spec.travels == "tx";
    match spec.kind.as_str() {
        "mpsc" => {
            let (t, r) = rch::mpsc::channel::<Lab, codec::Default>(4);
            if tx {
                (vec![L { label, h: H::MTx(t) }], vec![(label, End::Rx(AnyRx::M(r)))])
            } else {
                if spec.prequeue {
                    let _ = t.try_send(label + 100_000);
                }
                (vec![L { label, h: H::MRx(r) }], vec![(label, End::Tx(AnyTx::M(t)))])
            }
        }
        "oneshot" => {
            let (t, r) = rch::oneshot::channel::<Lab, codec::Default>();
            if tx {
                (vec![L { label, h: H::OTx(t) }], vec![(label, End::Rx(AnyRx::O(Some(r))))])
            } else {
                (vec![L { label, h: H::ORx(r) }], vec![(label, End::Tx(AnyTx::O(Some(t))))])
            }
        }
        "watch" => {
            let (t, r) = rch::watch::channel::<Lab, codec::Default>(0);
            if tx {
                (vec![L { label, h: H::WTx(t) }], vec![(label, End::Rx(AnyRx::W(r)))])
            } else {
                (vec![L { label, h: H::WRx(r) }], vec![(label, End::Tx(AnyTx::W(t)))])
            }
        }
        "bcast" => {
            let (t, r) = rch::broadcast::channel::<Lab, codec::Default, { rch::DEFAULT_BUFFER }>(4);
            (vec![L { label, h: H::BRx(r) }], vec![(label, End::Tx(AnyTx::B(t)))])
        }
        "bin" => {
            let (t, r) = rch::bin::channel();
            match spec.travels.as_str() {
                "tx" => (vec![L { label, h: H::BinTx(t) }], vec![(label, End::Rx(AnyRx::Bin(r)))]),
                "rx" => (vec![L { label, h: H::BinRx(r) }], vec![(label, End::Tx(AnyTx::Bin(t)))]),
                _ => (vec![L { label, h: H::BinTx(t) }, L { label: label + 500_000, h: H::BinRx(r) }], vec![]),
            }
        }
        _ => {
            let (t, r) = rch::lr::channel::<Lab, codec::Default>();
            match spec.travels.as_str() {
                "tx" => (vec![L { label, h: H::LTx(t) }], vec![(label, End::Rx(AnyRx::L(r)))]),
                "rx" => (vec![L { label, h: H::LRx(r) }], vec![(label, End::Tx(AnyTx::L(t)))]),
                _ => (vec![L { label, h: H::LTx(t) }, L { label: label + 500_000, h: H::LRx(r) }], vec![]),
            }
        }
    }
}

// ------------------------------------------------------------------------------------------
// running one case
// ------------------------------------------------------------------------------------------

fn cfg_for(case: &Case, max_ports: u32) -> remoc::Cfg {
    let mut c = small_cfg(case.chunk, case.buf, case.maxdata, max_ports);
    c.max_received_ports = 64;
    c
}

async fn exercise(label: Lab, tx: Option<&mut AnyTx>, rx: Option<&mut AnyRx>, where_tx: &str, where_rx: &str, expect_pre: bool) {
    // send the label into the channel and receive at the other end (concurrently: the result of a send into a
    // local channel is known only when the value has been taken)
    let send_part = async {
        match tx {
            Some(t) => match no_hang(t.send(label)).await {
                None => "hang".to_string(),
                Some(Ok(())) => "ok".to_string(),
                Some(Err(e)) => format!("err:{e}"),
            },
            None => "absent".into(),
        }
    };
    let recv_part = async {
        let mut got: Vec<String> = Vec::new();
        let mut recv = "absent".to_string();
        if let Some(r) = rx {
            let want = if expect_pre { 2 } else { 1 };
            recv = "ok".into();
            for _ in 0..want {
                match no_hang(r.recv()).await {
                    None => {
                        recv = "hang".into();
                        break;
                    }
                    Some(Ok(Some(v))) => got.push(v.to_string()),
                    Some(Ok(None)) => {
                        recv = "eos".into();
                        break;
                    }
                    Some(Err(e)) => {
                        recv = format!("err:{e}");
                        break;
                    }
                }
            }
        }
        (got, recv)
    };
    let (sent, (got, recv)) = tokio::join!(send_part, recv_part);
    tr(format!(
        "xfer {label} tx@{where_tx} rx@{where_rx} sent={sent} got={} recv={recv}",
        if got.is_empty() { "-".to_string() } else { got.join(",") }
    ));
}

async fn drain(label: Lab, rx: &mut AnyRx) {
    // the sender has been dropped: only a clean end (or an error) may follow, never another value
    let mut extra = Vec::new();
    let mut end = "open".to_string();
    for _ in 0..4 {
        match no_hang(rx.recv()).await {
            None => {
                end = "hang".into();
                break;
            }
            Some(Ok(Some(v))) => extra.push(v.to_string()),
            Some(Ok(None)) => {
                end = "eos".into();
                break;
            }
            Some(Err(e)) => {
                end = format!("err:{e}");
                break;
            }
        }
    }
    tr(format!("drain {label} extra={} end={end}", if extra.is_empty() { "-".to_string() } else { extra.join(",") }));
}

async fn run_case_async(case: Case) {
    let n_ports: u32 = case.halves.iter().map(|h| if h.travels == "both" { 2 } else { 1 }).sum();
    // every endpoint needs 2 ports per attached connection for the base channels plus one per travelling half
    // (forwarding endpoints: one per half and connection)
    let hops = case.hops;
    tr(format!(
        "case {} hops={} scenario={} n={} chunk={} buf={} maxdata={} via={}",
        case.name,
        hops,
        case.scenario,
        case.halves.len(),
        case.chunk,
        case.buf,
        case.maxdata,
        case.via
    ));
    for h in &case.halves {
        tr(format!(
            "half {} kind={} travels={} pos={} prequeue={} prefail={}",
            h.label, h.kind, h.travels, h.pos, h.prequeue as u8, h.prefail
        ));
    }
    // connections
    let mut senders: Vec<rch::base::Sender<Value>> = Vec::new();
    let mut receivers: Vec<rch::base::Receiver<Value>> = Vec::new();
    let mut conns = Vec::new();
    let mut origin_ports = 0u32;
    for i in 0..hops {
        // endpoint i (sending side of connection i), endpoint i+1 (receiving side)
        // an endpoint needs one port per attached connection for its base channel (the unused reverse
        // direction is dropped below) and one per travelling half and connection
        let need_a = if i == 0 { 1 + n_ports } else { 2 + 2 * n_ports };
        let need_b = if i + 1 == hops { 1 + n_ports } else { 2 + 2 * n_ports };
        // two spare ports during connection establishment, then `slack`
        let extra = if case.via == "bin" { 2 + 2 * n_ports } else { 0 };
        let mut pa = need_a + 1 + case.slack + extra;
        let mut pb = need_b + 1 + case.slack + extra;
        if i == 0 {
            origin_ports = pa;
        }
        if case.scenario == "txports" && i == 0 {
            pa = (1 + n_ports).saturating_sub(1).max(2);
        }
        if case.scenario == "rxports" && i + 1 == hops {
            pb = (1 + n_ports).saturating_sub(1).max(2);
        }
        let Some((a, b)) = connect_pair::<Value, Value>(cfg_for(&case, pa), cfg_for(&case, pb), 512).await else {
            tr("skipped connect".into());
            tr(format!("end {}", case.name));
            return;
        };
        senders.push(a.tx);
        receivers.push(b.rx);
        conns.push((a.conn, b.conn));
        drop(a.rx);
        drop(b.tx);
        settle().await;
        // the reverse direction base channels are dropped: a.rx, b.tx
    }
    // the value
    let mut value = Value::empty(1);
    let mut kept: Vec<(Lab, End)> = Vec::new();
    let mut pre_halves: Vec<(String, L)> = Vec::new();
    for hs in &case.halves {
        let (ls, ks, pre) = make(hs);
        for l in ls {
            place(&mut value, &hs.pos, l);
        }
        kept.extend(ks);
        pre_halves.extend(pre.into_iter().map(|l| (hs.prefail.clone(), l)));
    }
    // preliminary sends that fail after serialization and hand their halves back (buffered serialization: the
    // failure is found before anything is put on the port, the receiving endpoint is not involved)
    for mode in ["ports", "oversize"] {
        let mine: Vec<L> = {
            let mut v = Vec::new();
            let mut rest = Vec::new();
            for (m, l) in pre_halves.drain(..) {
                if m == mode { v.push(l) } else { rest.push((m, l)) }
            }
            pre_halves = rest;
            v
        };
        if mine.is_empty() {
            continue;
        }
        let n_pre = mine.len();
        let mut pv = Value::empty(9);
        pv.vec.extend(mine);
        let mut filler_rx = Vec::new();
        if mode == "ports" {
            // more halves than the endpoint has ports: the allocation fails after the halves above were serialized
            for k in 0..origin_ports + 1 {
                let (t, r) = rch::mpsc::channel::<Lab, codec::Default>(1);
                pv.vec.push(L { label: 800_000 + k, h: H::MTx(t) });
                filler_rx.push(r);
            }
        } else {
            senders[0].set_max_item_size(1);
        }
        let res = no_hang(senders[0].send(pv)).await;
        senders[0].set_max_item_size(rch::DEFAULT_MAX_ITEM_SIZE);
        let mut recovered = 0;
        let kind = match res {
            None => "hang",
            Some(Ok(())) => "ok",
            Some(Err(e)) => {
                let k = match &e.kind {
                    rch::base::SendErrorKind::Serialize(_) => "ser",
                    rch::base::SendErrorKind::Send(_) => "send",
                    rch::base::SendErrorKind::MaxItemSizeExceeded => "oversize",
                };
                let mut back = Vec::new();
                e.item.flatten(&mut back);
                for l in back {
                    if l.label >= PRE && l.label < 800_000 {
                        recovered += 1;
                        kept.push((l.label - PRE, end_of(l.h)));
                    }
                }
                k
            }
        };
        tr(format!("presend mode={mode} halves={n_pre} res={kind} recovered={recovered}"));
        drop(filler_rx);
        settle().await;
    }
    // hop 0: send
    let mut travelling: Option<Value> = Some(value);
    let mut arrived: Vec<L> = Vec::new();
    let mut local_fallback: Vec<L> = Vec::new();
    let mut delivered = false;
    fn send_kind(k: &rch::base::SendErrorKind) -> &'static str {
        match k {
            rch::base::SendErrorKind::Serialize(_) => "ser",
            rch::base::SendErrorKind::Send(_) => "send",
            rch::base::SendErrorKind::MaxItemSizeExceeded => "oversize",
        }
    }
    let mut senders: Vec<Option<rch::base::Sender<Value>>> = senders.into_iter().map(Some).collect();
    let mut hops_to_run = hops;
    if case.via == "bin" {
        // 1. a bin channel whose receiver half is shipped to the far endpoint, forwarded at every intermediate one
        hops_to_run = 0;
        let (btx, brx) = rch::bin::channel();
        let mut boot = Value::empty(0);
        boot.vec.push(L { label: 0, h: H::BinRx(brx) });
        let mut boot = Some(boot);
        let mut ok = true;
        for i in 0..hops {
            let v = boot.take().unwrap();
            let tx = senders[i].as_mut().unwrap();
            let rx = &mut receivers[i];
            let (sres, rres) = tokio::join!(no_hang(tx.send(v)), no_hang(rx.recv()));
            match (sres, rres) {
                (Some(Ok(())), Some(Ok(Some(v)))) => boot = Some(v),
                _ => {
                    tr(format!("bootstrap hop={i} failed"));
                    ok = false;
                    break;
                }
            }
        }
        let far_rx = match boot {
            Some(v) if ok => {
                let mut ls = Vec::new();
                v.flatten(&mut ls);
                match ls.pop().map(|l| l.h) {
                    Some(H::BinRx(r)) => Some(r),
                    _ => None,
                }
            }
            _ => None,
        };
        let raw = match far_rx {
            Some(r) => match (no_hang(btx.into_inner()).await, no_hang(r.into_inner()).await) {
                (Some(Ok(t)), Some(Ok(r))) => Some((t, r)),
                _ => None,
            },
            None => None,
        };
        match raw {
            None => tr("bootstrap failed".into()),
            Some((raw_tx, raw_rx)) => {
                // 2. the value with its halves over a base channel on top of the forwarded bin channel
                let mut btx = rch::base::Sender::<Value>::new(raw_tx);
                let mut brx = rch::base::Receiver::<Value>::new(raw_rx);
                let v = travelling.take().unwrap();
                // a send that fails hands the value back: nothing will arrive, do not wait for it
                // (the receiver's deserializer thread would keep the paused clock from advancing)
                let (sres, rres) = {
                    let send_fut = no_hang(btx.send(v));
                    let recv_fut = no_hang(brx.recv());
                    tokio::pin!(send_fut);
                    tokio::pin!(recv_fut);
                    tokio::select! {
                        biased;
                        s = &mut send_fut => {
                            if matches!(s, Some(Ok(()))) { let r = recv_fut.await; (s, Some(r)) } else { (s, None) }
                        }
                        r = &mut recv_fut => { let s = send_fut.await; (s, Some(r)) }
                    }
                };
                match sres {
                    Some(Ok(())) => tr("valuesend hop=0 res=ok".into()),
                    Some(Err(e)) => {
                        tr(format!("valuesend hop=0 res={}", send_kind(&e.kind)));
                        e.item.flatten(&mut local_fallback);
                    }
                    None => tr("valuesend hop=0 res=hang".into()),
                }
                match rres {
                    None => (),
                    Some(Some(Ok(Some(v)))) => {
                        tr("valuerecv hop=0 res=ok".into());
                        v.flatten(&mut arrived);
                        delivered = true;
                    }
                    Some(Some(Ok(None))) => tr("valuerecv hop=0 res=eos".into()),
                    Some(Some(Err(e))) => tr(format!("valuerecv hop=0 res=err-{}", short(&e))),
                    Some(None) => tr("valuerecv hop=0 res=hang".into()),
                }
                // keep the carrier channel alive while the halves are exercised; if nothing arrived it is dropped,
                // which also ends the receiver's deserializer thread (a live blocking task stops the paused clock)
                if delivered {
                    std::mem::forget((btx, brx));
                } else {
                    drop((btx, brx));
                }
            }
        }
    }
    for i in 0..hops_to_run {
        let v = travelling.take().unwrap();
        let last = i + 1 == hops_to_run;
        if last && (case.scenario == "norecv" || case.scenario == "connfail") {
            // the value is sent but never received
            let mut tx = senders[i].take().unwrap();
            let send_task = tokio::task::spawn_local(async move {
                let r = tx.send(v).await.map_err(|e| (send_kind(&e.kind), e.item));
                (r, tx)
            });
            settle().await;
            if case.scenario == "norecv" {
                tr("norecv: receiver endpoint drops its base receiver without receiving".into());
                receivers.truncate(i);
            } else {
                tr("connfail".into());
                let (ca, cb) = conns.pop().unwrap();
                ca.abort();
                cb.abort();
            }
            settle().await;
            match no_hang(send_task).await {
                None => tr(format!("valuesend hop={i} res=hang")),
                Some(Ok((Ok(()), _tx))) => tr(format!("valuesend hop={i} res=ok")),
                Some(Ok((Err((k, item)), _tx))) => {
                    tr(format!("valuesend hop={i} res={k}"));
                    // the send failed before the port requests were out: the item comes back with its halves
                    if i == 0 {
                        item.flatten(&mut local_fallback);
                    } else {
                        // at a forwarding endpoint: the halves it had received stay connected to the origin
                        item.flatten(&mut arrived);
                    }
                }
                Some(Err(_)) => tr(format!("valuesend hop={i} res=panicked")),
            }
            settle().await;
            break;
        }
        let tx = senders[i].as_mut().unwrap();
        let rx = &mut receivers[i];
        // the send completes only when the receiver takes the port requests (flow control): run both
        // (a receiver that got a non-final error keeps receiving, as a real receive loop would, until the send is through)
        let (sres, rres) = {
            let mut first_err: Option<rch::base::RecvError> = None;
            let send_fut = no_hang(tx.send(v));
            tokio::pin!(send_fut);
            let mut sres = None;
            let rres;
            loop {
                tokio::select! {
                    biased;
                    r = &mut send_fut, if sres.is_none() => {
                        let failed = !matches!(r, Some(Ok(())));
                        sres = Some(r);
                        if failed && first_err.is_none() {
                            // the value was not sent: nothing will arrive.  Let the receiver see the aborted
                            // stream first: its deserializer thread must end, a live blocking task keeps the
                            // paused clock from advancing
                            {
                                let rf = rx.recv();
                                tokio::pin!(rf);
                                for _ in 0..400 {
                                    let ready = std::future::poll_fn(|cx| std::task::Poll::Ready(rf.as_mut().poll(cx).is_ready())).await;
                                    if ready {
                                        break;
                                    }
                                    tokio::task::yield_now().await;
                                }
                            }
                            rres = None;
                            break;
                        }
                        if first_err.is_some() {
                            settle().await;
                            rres = Some(Err(first_err.take().unwrap()));
                            break;
                        }
                    }
                    r = no_hang(rx.recv()) => {
                        match r {
                            Some(Err(e)) if !e.is_final() && sres.is_none() => {
                                if first_err.is_none() {
                                    first_err = Some(e);
                                }
                            }
                            other => {
                                rres = match first_err.take() {
                                    Some(e) => Some(Err(e)),
                                    None => other,
                                };
                                break;
                            }
                        }
                    }
                }
            }
            let sres = match sres {
                Some(r) => r,
                None => send_fut.await,
            };
            (sres, rres)
        };
        let mut stop = false;
        match sres {
            None => {
                tr(format!("valuesend hop={i} res=hang"));
                stop = true;
            }
            Some(Ok(())) => tr(format!("valuesend hop={i} res=ok")),
            Some(Err(e)) => {
                tr(format!("valuesend hop={i} res={}", send_kind(&e.kind)));
                // the item is handed back: its halves are still local
                if i == 0 {
                    e.item.flatten(&mut local_fallback);
                } else {
                    e.item.flatten(&mut arrived);
                }
                stop = true;
            }
        }
        if stop {
            // an aborted streamed item leaves the receiver's deserializer thread waiting for the next item,
            // and a live blocking task keeps the paused clock from advancing: the receiver is not needed any more
            receivers.truncate(i);
        }
        match rres {
            None if stop => (),
            None => {
                tr(format!("valuerecv hop={i} res=hang"));
                stop = true;
            }
            Some(Ok(Some(v))) => {
                tr(format!("valuerecv hop={i} res=ok"));
                if last {
                    v.flatten(&mut arrived);
                    delivered = true;
                } else {
                    travelling = Some(v);
                }
            }
            Some(Ok(None)) => {
                tr(format!("valuerecv hop={i} res=eos"));
                stop = true;
            }
            Some(Err(e)) => {
                let kind = match &e {
                    rch::base::RecvError::Deserialize(_) => "deser",
                    rch::base::RecvError::MissingPorts(_) => "missingports",
                    rch::base::RecvError::MaxItemSizeExceeded => "oversize",
                    rch::base::RecvError::Receive(_) => "receive",
                };
                tr(format!("valuerecv hop={i} res={kind}"));
                // the requests that follow are dropped together with the receiver
                settle().await;
                receivers.truncate(i);
                settle().await;
                stop = true;
            }
        }
        if stop {
            break;
        }
    }
    settle().await;
    let _ = delivered;
    // exercise every label
    let mut far: HashMap<Lab, End> = HashMap::new();
    let mut far_where = "far";
    for l in arrived {
        far.insert(l.label, end_of(l.h));
    }
    if !local_fallback.is_empty() {
        far_where = "origin";
        for l in local_fallback {
            far.insert(l.label, end_of(l.h));
        }
    }
    let mut keep_tx: Vec<(Lab, AnyTx)> = Vec::new();
    let mut keep_rx: Vec<(Lab, AnyRx, bool)> = Vec::new();
    for hs in &case.halves {
        if hs.travels == "both" {
            // both halves travelled: tx label = hs.label, rx label = hs.label + 500000
            let t = far.remove(&hs.label);
            let r = far.remove(&(hs.label + 500_000));
            let (mut t, mut r) = (
                match t {
                    Some(End::Tx(t)) => Some(t),
                    _ => None,
                },
                match r {
                    Some(End::Rx(r)) => Some(r),
                    _ => None,
                },
            );
            exercise(hs.label, t.as_mut(), r.as_mut(), far_where, far_where, false).await;
            if let Some(t) = t {
                keep_tx.push((hs.label, t));
            }
            if let Some(r) = r {
                keep_rx.push((hs.label, r, false));
            }
            continue;
        }
        let k = kept.iter().position(|(l, _)| *l == hs.label).map(|i| kept.remove(i).1);
        let f = far.remove(&hs.label);
        let (mut t, mut r, wt, wr): (Option<AnyTx>, Option<AnyRx>, &str, &str) = match (k, f) {
            (Some(End::Tx(t)), Some(End::Rx(r))) => (Some(t), Some(r), "origin", far_where),
            (Some(End::Rx(r)), Some(End::Tx(t))) => (Some(t), Some(r), far_where, "origin"),
            (Some(End::Tx(t)), None) => (Some(t), None, "origin", "absent"),
            (Some(End::Rx(r)), None) => (None, Some(r), "absent", "origin"),
            (Some(End::Tx(t)), Some(End::Tx(_))) => (Some(t), None, "origin", "mismatch"),
            (Some(End::Rx(r)), Some(End::Rx(_))) => (None, Some(r), "mismatch", "origin"),
            (None, _) => (None, None, "absent", "absent"),
        };
        exercise(hs.label, t.as_mut(), r.as_mut(), wt, wr, hs.prequeue && hs.kind == "mpsc" && hs.travels == "rx").await;
        if let Some(t) = t {
            keep_tx.push((hs.label, t));
        }
        if let Some(r) = r {
            keep_rx.push((hs.label, r, true));
        }
    }
    for l in far.keys() {
        tr(format!("stray {l}"));
    }
    // all senders go away; every receiver must end without yielding anything else
    drop(keep_tx);
    settle().await;
    for (label, mut r, _) in keep_rx {
        drain(label, &mut r).await;
    }
    tr(format!("end {}", case.name));
    for (a, b) in conns {
        a.abort();
        b.abort();
    }
}

fn run_case(case: Case) -> Vec<String> {
    let start = verif_harness::trace::len();
    for l in case.spec_lines() {
        tr(format!("spec {l}"));
    }
    let name = case.name.clone();
    let res = std::panic::catch_unwind(std::panic::AssertUnwindSafe(|| {
        let rt = runtime();
        let local = tokio::task::LocalSet::new();
        local.block_on(&rt, run_case_async(case));
        rt.shutdown_timeout(Duration::from_millis(200));
    }));
    if res.is_err() {
        tr(format!("panicked {name}"));
        tr(format!("end {name}"));
    }
    verif_harness::trace::snapshot_from(start)
}

// ------------------------------------------------------------------------------------------
// generators
// ------------------------------------------------------------------------------------------

fn stat(stats: &mut HashMap<String, u64>, k: &str) {
    *stats.entry(k.to_string()).or_insert(0) += 1;
}

fn gen_case(r: &mut Rng, i: u64, stats: &mut HashMap<String, u64>) -> Case {
    let hops = match r.below(10) {
        0..=4 => 1,
        5..=7 => 2,
        _ => 3,
    };
    let scenario = match r.below(12) {
        0 => "rxports",
        1 => "txports",
        2 => "norecv",
        3 => "connfail",
        _ => "normal",
    };
    // (chunk_size, receive_buffer): at most (16 + chunk - 6) / 8 ports may share a PortData frame (finding F11),
    // so the receive buffer is kept small where the chunk size is not
    let (chunk, buf) = *r.pick(&[(10u32, 8u32), (10, 16), (10, 64), (11, 200), (16, 12), (32, 8), (32, 11), (64, 9)]);
    // fault scenarios are run without streaming of the value: a helper thread left waiting by a fault would keep
    // the paused clock from advancing (hang detection relies on it)
    let maxdata = if scenario == "normal" { *r.pick(&[4096usize, 4096, 4096, 256, 64]) } else { 4096 };
    let n = match r.below(8) {
        0 => 0,
        1 => 1,
        2 => 2,
        3..=5 => r.range(3, 6),
        _ => r.range(7, 12),
    } as usize;
    let mut halves = Vec::new();
    for k in 0..n {
        let mut kind = *r.pick(&["mpsc", "mpsc", "oneshot", "watch", "bcast", "bin", "lr"]);
        if kind == "lr" && hops > 1 {
            // a received lr half cannot be sent on
            kind = "mpsc";
        }
        let mut travels = if kind == "bcast" { "rx" } else { *r.pick(&["tx", "rx"]) };
        if (kind == "bin" || kind == "lr") && scenario == "normal" && r.chance(1, 12) {
            // both halves of a single-connection channel in the same value (finding FB2)
            travels = "both";
        }
        let pos = *r.pick(&["vec", "vec", "opt", "tup0", "tup2", "one", "pair", "nested", "map", "map"]);
        let prequeue = kind == "mpsc" && travels == "rx" && r.chance(1, 3);
        // retry with the other half after a failed send (buffered serialization only, see `prefail`)
        let prefail = if (kind == "bin" || kind == "lr") && travels != "both" && scenario == "normal" && maxdata == 4096 && r.chance(1, 3) {
            *r.pick(&["ports", "oversize"])
        } else {
            "-"
        };
        if prefail != "-" {
            stat(stats, &format!("prefail_{kind}_{prefail}"));
        }
        stat(stats, &format!("half_{kind}_{travels}"));
        stat(stats, &format!("pos_{pos}"));
        halves.push(HalfSpec { label: 1 + k as Lab, kind: kind.into(), travels: travels.into(), pos: pos.into(), prequeue, prefail: prefail.into() });
    }
    let scenario = if n < 2 && scenario != "normal" { "normal" } else { scenario };
    stat(stats, &format!("scenario_{scenario}"));
    stat(stats, &format!("hops_{hops}"));
    stat(stats, &format!("halves_{}", if n == 0 { "0" } else if n <= 2 { "1-2" } else if n <= 6 { "3-6" } else { "7-12" }));
    let via = if scenario == "normal" && r.chance(1, 5) && !halves.iter().any(|h| h.travels == "both") { "bin" } else { "base" };
    stat(stats, &format!("via_{via}"));
    Case { name: format!("wiring-{i}"), hops, scenario: scenario.into(), chunk, buf, maxdata, slack: r.range(0, 3) as u32, via: via.into(), halves }
}

fn fixed_cases() -> Vec<Case> {
    let text = r#"
# twelve mixed halves in every position over three connections
case fixed-12-3hops hops=3 scenario=normal chunk=10 buf=8 maxdata=4096 slack=1
half 1 kind=mpsc travels=tx pos=vec
half 2 kind=mpsc travels=rx pos=vec prequeue=1
half 3 kind=oneshot travels=tx pos=opt
half 4 kind=oneshot travels=rx pos=tup0
half 5 kind=watch travels=tx pos=tup2
half 6 kind=watch travels=rx pos=pair
half 7 kind=bcast travels=rx pos=pair
half 8 kind=bin travels=tx pos=map
half 9 kind=bin travels=rx pos=map
half 10 kind=mpsc travels=tx pos=map
half 11 kind=mpsc travels=rx pos=nested
half 12 kind=oneshot travels=tx pos=nested
end
# the value travels over a base channel built on a bin channel forwarded across three connections: chmux::forward relays
# the data and the port requests (ids preserved) at the two intermediate endpoints
case fixed-via-bin-3hops hops=3 scenario=normal chunk=10 buf=16 maxdata=4096 slack=1 via=bin
half 1 kind=mpsc travels=tx pos=vec
half 2 kind=mpsc travels=rx pos=map
half 3 kind=oneshot travels=tx pos=opt
half 4 kind=watch travels=rx pos=map
half 5 kind=bin travels=tx pos=pair
half 6 kind=bcast travels=rx pos=pair
half 7 kind=mpsc travels=tx pos=nested
end
# retry with the other half: a first send containing the half that stays fails after serialization (sender endpoint out
# of ports / max_item_size) and hands it back; the send of the other half must then be the ordinary local-remote case
case fixed-retry-1hop hops=1 scenario=normal chunk=10 buf=16 maxdata=4096 slack=1
half 1 kind=bin travels=rx pos=vec prefail=ports
half 2 kind=bin travels=tx pos=map prefail=oversize
half 3 kind=lr travels=rx pos=opt prefail=oversize
half 4 kind=lr travels=tx pos=vec prefail=ports
half 5 kind=mpsc travels=tx pos=vec
half 6 kind=bin travels=rx pos=pair
end
case fixed-retry-3hops hops=3 scenario=normal chunk=10 buf=8 maxdata=4096 slack=0
half 1 kind=bin travels=tx pos=nested prefail=ports
half 2 kind=oneshot travels=rx pos=opt
half 3 kind=bin travels=rx pos=map prefail=oversize
half 4 kind=watch travels=tx pos=tup0
end
case fixed-retry-via-bin hops=2 scenario=normal chunk=10 buf=16 maxdata=4096 slack=1 via=bin
half 1 kind=bin travels=rx pos=vec prefail=oversize
half 2 kind=mpsc travels=rx pos=vec prequeue=1
half 3 kind=bin travels=tx pos=vec prefail=ports
end
# lr halves (one connection only), streamed value
case fixed-lr hops=1 scenario=normal chunk=10 buf=16 maxdata=64 slack=0
half 1 kind=lr travels=tx pos=vec
half 2 kind=lr travels=rx pos=map
half 3 kind=mpsc travels=tx pos=opt
end
# receiver out of ports
# finding FB2: both halves of a locally created bin channel sent to the remote endpoint (documented as supported:
# "Forwarding, i.e. both channel ends on remote endpoints, is supported")
case fixed-bin-both hops=1 scenario=normal chunk=10 buf=16 maxdata=4096 slack=2
half 1 kind=bin travels=both pos=vec
half 2 kind=mpsc travels=tx pos=vec
end
# finding FB2: both halves of an lr channel can be sent away although the interlock is meant to refuse the second
case fixed-lr-both hops=1 scenario=normal chunk=10 buf=16 maxdata=4096 slack=2
half 1 kind=lr travels=both pos=vec
half 2 kind=mpsc travels=rx pos=opt
end
case fixed-rxports hops=1 scenario=rxports chunk=10 buf=16 maxdata=4096 slack=0
half 1 kind=mpsc travels=tx pos=vec
half 2 kind=mpsc travels=rx pos=vec
half 3 kind=oneshot travels=tx pos=opt
half 4 kind=watch travels=rx pos=map
half 5 kind=bin travels=tx pos=map
end
"#;
    Case::parse(&text.lines().map(|s| s.to_string()).collect::<Vec<_>>())
}

fn main() {
    let args: Vec<String> = std::env::args().collect();
    std::panic::set_hook(Box::new(|info| {
        let msg = info.to_string().replace('\n', " ");
        tr(format!("panic {msg}"));
    }));
    start_watchdog(45, || {
        let out = std::io::stdout();
        let mut out = out.lock();
        for l in verif_harness::trace::take() {
            let _ = writeln!(out, "{l}");
        }
        let _ = writeln!(out, "hang watchdog");
        let _ = out.flush();
        eprintln!("watchdog: no progress for 45 s");
    });
    warm_up();
    let mut out = std::io::BufWriter::new(std::io::stdout());
    let mut stats: HashMap<String, u64> = HashMap::new();
    let mut cases: Vec<Case> = Vec::new();
    match args.get(1).map(|s| s.as_str()) {
        Some("run") => {
            for f in &args[2..] {
                let text = std::fs::read_to_string(f).expect("spec file");
                cases.extend(Case::parse(&text.lines().map(|l| l.to_string()).collect::<Vec<_>>()));
            }
        }
        Some("fixed") => cases = fixed_cases(),
        Some("gen") => {
            let count: u64 = args[2].parse().unwrap();
            let mut rng = Rng::from_env();
            for i in 0..count {
                let mut r = rng.fork();
                cases.push(gen_case(&mut r, i, &mut stats));
            }
        }
        _ => {
            eprintln!("usage: wiring gen <count> | wiring fixed | wiring run <file>...");
            std::process::exit(2);
        }
    }
    for c in cases {
        progress();
        if std::env::var("VERIF_DEBUG").is_ok() {
            eprintln!("running {}", c.spec_lines().join(" | "));
        }
        for l in run_case(c) {
            writeln!(out, "{l}").unwrap();
        }
        out.flush().unwrap();
        verif_harness::trace::take();
    }
    out.flush().unwrap();
    let mut keys: Vec<_> = stats.keys().cloned().collect();
    keys.sort();
    for k in keys {
        eprintln!("STAT {k} {}", stats[&k]);
    }
}
