//! C06 (fail-stop) for the layers above raw ports: a workload over two real `remoc::Connect::framed`
//! connections joined by the script-owned transport of `verif_harness::transport`, using
//! `rch::mpsc` (several senders, `closed`, a sender blocked by back pressure), `rch::oneshot`,
//! `rch::watch`, `rch::broadcast`, `rch::bin`, `rch::lr`, an `#[rtc::remote]` client with a call in
//! flight, an `robs` vector mirror, an `robj::rw_lock` (read guard held, write in flight) and
//! `robj::lazy` fetches, both endpoints with a `connection_timeout`.
//!
//! usage: faultup sweep <variants> <stride>      baseline + one run per (wire, item index, fault kind)
//!        faultup one <variant-seed> <variant> <wire> <index> <kind>   a single run (replay)
//!
//! Every API call runs in its own task (`call <k> <side> <kind> .. t=<ms>` / `ret <k> <result> t=<ms>`),
//! handles are shared between calls through async mutexes, the script itself only settles
//! (`sleep(1 ns)` under the paused clock) and advances virtual time.  Values travel as
//! `put <channel> <sender> <value>` / `got <channel> <value>` lines.

use std::{
    collections::BTreeSet,
    fmt::Debug,
    future::Future,
    io::Write,
    sync::{Arc, Mutex},
    time::Duration,
};

use remoc::{
    rch::{self, bin, broadcast, lr, mpsc, oneshot, watch},
    robj::{
        lazy::Lazy,
        rw_lock::{Owner, RwLock},
    },
    robs::vec::{MirroredVec, ObservableVec, VecSubscription},
    rtc,
};
use remoc::rtc::ServerSharedMut;
use serde::{Deserialize, Serialize};
use verif_harness::{
    prng::Rng,
    trace::{now_ms, tr},
    transport::{FaultKind, ScriptSink, ScriptStream, Wire},
};

type TM<T> = Arc<tokio::sync::Mutex<T>>;
fn tm<T>(v: T) -> TM<T> {
    Arc::new(tokio::sync::Mutex::new(v))
}

// ------------------------------------------------------------------------------------------------
// remote trait
// ------------------------------------------------------------------------------------------------

#[rtc::remote(clone)]
pub trait Svc {
    async fn value(&self) -> Result<u32, rtc::CallError>;
    async fn add(&mut self, by: u32) -> Result<u32, rtc::CallError>;
    /// never answers: the call stays in flight
    async fn stall(&self) -> Result<u32, rtc::CallError>;
}

pub struct SvcObj {
    value: u32,
}

impl Svc for SvcObj {
    async fn value(&self) -> Result<u32, rtc::CallError> {
        Ok(self.value)
    }
    async fn add(&mut self, by: u32) -> Result<u32, rtc::CallError> {
        self.value += by;
        Ok(self.value)
    }
    async fn stall(&self) -> Result<u32, rtc::CallError> {
        std::future::pending::<()>().await;
        Ok(0)
    }
}

// ------------------------------------------------------------------------------------------------
// what travels from A to B
// ------------------------------------------------------------------------------------------------

#[derive(Serialize, Deserialize)]
struct Bundle {
    m1_rx: mpsc::Receiver<u32>,
    m2_tx: mpsc::Sender<u32>,
    m3_rx: mpsc::Receiver<u32>,
    mb_rx: mpsc::Receiver<Vec<u8>>,
    o1_rx: oneshot::Receiver<u32>,
    o2_tx: oneshot::Sender<u32>,
    w1_rx: watch::Receiver<u32>,
    w2_tx: watch::Sender<u32>,
    bc_rx: broadcast::Receiver<u32, remoc::codec::Default, 16>,
    bin1_rx: bin::Receiver,
    bin2_tx: bin::Sender,
    lr1_rx: lr::Receiver<u32>,
    lr2_tx: lr::Sender<u32>,
    client: SvcClient,
    sub: VecSubscription<u32>,
    rw: RwLock<u32>,
    lazy1: Lazy<Vec<u8>>,
    lazy2: Lazy<Vec<u8>>,
}

struct ASide {
    m1_tx: mpsc::Sender<u32>,
    m1_tx2: mpsc::Sender<u32>,
    m2_rx: TM<mpsc::Receiver<u32>>,
    m3_tx: mpsc::Sender<u32>,
    mb_tx: mpsc::Sender<Vec<u8>>,
    _o1_tx: oneshot::Sender<u32>,
    o2_rx: TM<Option<oneshot::Receiver<u32>>>,
    w1_tx: Arc<watch::Sender<u32>>,
    w2_rx: TM<watch::Receiver<u32>>,
    bc_tx: broadcast::Sender<u32>,
    bin1_tx: TM<bin::Sender>,
    bin2_rx: TM<bin::Receiver>,
    lr1_tx: TM<lr::Sender<u32>>,
    lr2_rx: TM<lr::Receiver<u32>>,
    obs: ObservableVec<u32>,
    _owner: Owner<u32>,
}

struct BSide {
    m1_rx: TM<mpsc::Receiver<u32>>,
    m2_tx: mpsc::Sender<u32>,
    m2_tx2: mpsc::Sender<u32>,
    _m3_rx: mpsc::Receiver<u32>,
    mb_rx: TM<mpsc::Receiver<Vec<u8>>>,
    o1_rx: TM<Option<oneshot::Receiver<u32>>>,
    o2_tx: Option<oneshot::Sender<u32>>,
    w1_rx: TM<watch::Receiver<u32>>,
    w2_tx: Arc<watch::Sender<u32>>,
    bc_rx: TM<broadcast::Receiver<u32, remoc::codec::Default, 16>>,
    bin1_rx: TM<bin::Receiver>,
    bin2_tx: TM<bin::Sender>,
    lr1_rx: TM<lr::Receiver<u32>>,
    lr2_tx: TM<lr::Sender<u32>>,
    client: SvcClient,
    mirror: TM<MirroredVec<u32>>,
    rw: RwLock<u32>,
    lazy1: Arc<Lazy<Vec<u8>>>,
    lazy2: Arc<Lazy<Vec<u8>>>,
}

// ------------------------------------------------------------------------------------------------
// operations
// ------------------------------------------------------------------------------------------------

fn cls<E: Debug>(e: &E) -> String {
    let s: String = format!("{e:?}").chars().map(|c| if c.is_whitespace() { '_' } else { c }).collect();
    let s: String = s.chars().take(90).collect();
    format!("err {s}")
}

#[derive(Clone)]
struct Ops {
    pending: Arc<Mutex<BTreeSet<String>>>,
}

impl Ops {
    fn start<F>(&self, k: &str, side: char, kind: &str, attrs: &str, fut: F)
    where
        F: Future<Output = String> + Send + 'static,
    {
        tr(format!("call {k} {side} {kind} {attrs} t={}", now_ms()).replace("  ", " "));
        self.pending.lock().unwrap().insert(k.to_string());
        let p = self.pending.clone();
        let kk = k.to_string();
        tokio::spawn(async move {
            let r = fut.await;
            p.lock().unwrap().remove(&kk);
            tr(format!("ret {kk} {r} t={}", now_ms()));
        });
    }

    fn pending_list(&self) -> String {
        let p = self.pending.lock().unwrap();
        if p.is_empty() { "-".into() } else { p.iter().cloned().collect::<Vec<_>>().join(",") }
    }

    fn mpsc_send(&self, k: &str, side: char, ch: &str, snd: &str, tx: &mpsc::Sender<u32>, v: u32) {
        let tx = tx.clone();
        let (ch2, snd2) = (ch.to_string(), snd.to_string());
        self.start(k, side, "mpsc-send", &format!("ch={ch}"), async move {
            tr(format!("put {ch2} {snd2} {v}"));
            match tx.send(v).await {
                Ok(_) => "ok".into(),
                Err(e) => cls(&e.without_item()),
            }
        });
    }

    fn mpsc_recv(&self, k: &str, side: char, ch: &str, rx: &TM<mpsc::Receiver<u32>>) {
        let rx = rx.clone();
        let ch2 = ch.to_string();
        self.start(k, side, "mpsc-recv", &format!("ch={ch}"), async move {
            match rx.lock().await.recv().await {
                Ok(Some(v)) => {
                    tr(format!("got {ch2} {v}"));
                    format!("ok {v}")
                }
                Ok(None) => "none".into(),
                Err(e) => cls(&e),
            }
        });
    }

    /// a message of `len` equal bytes: many chmux chunks; travels as the number `1000 * len + byte`
    fn big_send(&self, k: &str, side: char, ch: &str, tx: &mpsc::Sender<Vec<u8>>, byte: u8, len: usize) {
        let tx = tx.clone();
        let ch2 = ch.to_string();
        self.start(k, side, "mpsc-send", &format!("ch={ch}"), async move {
            tr(format!("put {ch2} a {}", 1000 * len + byte as usize));
            match tx.send(vec![byte; len]).await {
                Ok(_) => "ok".into(),
                Err(e) => cls(&e.without_item()),
            }
        });
    }

    fn big_recv(&self, k: &str, side: char, ch: &str, rx: &TM<mpsc::Receiver<Vec<u8>>>) {
        let rx = rx.clone();
        let ch2 = ch.to_string();
        self.start(k, side, "mpsc-recv", &format!("ch={ch}"), async move {
            match rx.lock().await.recv().await {
                Ok(Some(v)) => {
                    let uniform = !v.is_empty() && v.iter().all(|b| *b == v[0]);
                    let n = if uniform { 1000 * v.len() + v[0] as usize } else { 999_999_999 };
                    tr(format!("got {ch2} {n}"));
                    format!("ok {n}")
                }
                Ok(None) => "none".into(),
                Err(e) => cls(&e),
            }
        });
    }

    fn mpsc_closed(&self, k: &str, side: char, ch: &str, tx: &mpsc::Sender<u32>) {
        let tx = tx.clone();
        self.start(k, side, "mpsc-closed", &format!("ch={ch}"), async move {
            tx.closed().await;
            format!("unit reason={:?}", tx.closed_reason())
        });
    }

    fn watch_changed(&self, k: &str, side: char, ch: &str, rx: &TM<watch::Receiver<u32>>) {
        let rx = rx.clone();
        let ch2 = ch.to_string();
        self.start(k, side, "watch-changed", &format!("ch={ch}"), async move {
            let mut rx = rx.lock().await;
            match rx.changed().await {
                Ok(()) => match rx.borrow_and_update() {
                    Ok(v) => {
                        tr(format!("got {ch2} {}", *v));
                        format!("ok {}", *v)
                    }
                    Err(e) => cls(&e),
                },
                Err(e) => cls(&e),
            }
        });
    }

    fn watch_borrow(&self, k: &str, side: char, ch: &str, rx: &TM<watch::Receiver<u32>>) {
        let rx = rx.clone();
        let ch2 = ch.to_string();
        self.start(k, side, "watch-borrow", &format!("ch={ch}"), async move {
            let rx = rx.lock().await;
            match rx.borrow() {
                Ok(v) => {
                    tr(format!("got {ch2} {}", *v));
                    format!("ok {}", *v)
                }
                Err(e) => cls(&e),
            }
        });
    }

    fn watch_send(&self, k: &str, side: char, ch: &str, tx: &Arc<watch::Sender<u32>>, v: u32) {
        let tx = tx.clone();
        let ch2 = ch.to_string();
        self.start(k, side, "watch-send", &format!("ch={ch}"), async move {
            tr(format!("put {ch2} - {v}"));
            match tx.send(v) {
                Ok(()) => "ok".into(),
                Err(e) => cls(&e),
            }
        });
    }

    fn oneshot_recv(&self, k: &str, side: char, ch: &str, rx: &TM<Option<oneshot::Receiver<u32>>>) {
        let rx = rx.clone();
        let ch2 = ch.to_string();
        self.start(k, side, "oneshot-recv", &format!("ch={ch}"), async move {
            let Some(r) = rx.lock().await.take() else { return "gone".into() };
            match r.await {
                Ok(v) => {
                    tr(format!("got {ch2} {v}"));
                    format!("ok {v}")
                }
                Err(e) => cls(&e),
            }
        });
    }

    fn bc_recv(&self, k: &str, side: char, ch: &str, rx: &TM<broadcast::Receiver<u32, remoc::codec::Default, 16>>) {
        let rx = rx.clone();
        let ch2 = ch.to_string();
        self.start(k, side, "bc-recv", &format!("ch={ch}"), async move {
            match rx.lock().await.recv().await {
                Ok(v) => {
                    tr(format!("got {ch2} {v}"));
                    format!("ok {v}")
                }
                Err(e) => cls(&e),
            }
        });
    }

    fn bin_send(&self, k: &str, side: char, ch: &str, tx: &TM<bin::Sender>, v: u32) {
        let tx = tx.clone();
        let ch2 = ch.to_string();
        self.start(k, side, "bin-send", &format!("ch={ch}"), async move {
            tr(format!("put {ch2} - {v}"));
            let mut tx = tx.lock().await;
            match tx.get().await {
                Ok(raw) => match raw.send(v.to_le_bytes().to_vec().into()).await {
                    Ok(()) => "ok".into(),
                    Err(e) => cls(&e),
                },
                Err(e) => cls(&e),
            }
        });
    }

    fn bin_recv(&self, k: &str, side: char, ch: &str, rx: &TM<bin::Receiver>) {
        let rx = rx.clone();
        let ch2 = ch.to_string();
        self.start(k, side, "bin-recv", &format!("ch={ch}"), async move {
            let mut rx = rx.lock().await;
            match rx.get().await {
                Ok(raw) => match raw.recv().await {
                    Ok(Some(d)) => {
                        let b: Vec<u8> = d.into();
                        let v = u32::from_le_bytes([b[0], b[1], b[2], b[3]]);
                        tr(format!("got {ch2} {v}"));
                        format!("ok {v}")
                    }
                    Ok(None) => "none".into(),
                    Err(e) => cls(&e),
                },
                Err(e) => cls(&e),
            }
        });
    }

    fn lr_send(&self, k: &str, side: char, ch: &str, tx: &TM<lr::Sender<u32>>, v: u32) {
        let tx = tx.clone();
        let ch2 = ch.to_string();
        self.start(k, side, "lr-send", &format!("ch={ch}"), async move {
            tr(format!("put {ch2} - {v}"));
            match tx.lock().await.send(v).await {
                Ok(()) => "ok".into(),
                Err(e) => cls(&e.without_item()),
            }
        });
    }

    fn lr_recv(&self, k: &str, side: char, ch: &str, rx: &TM<lr::Receiver<u32>>) {
        let rx = rx.clone();
        let ch2 = ch.to_string();
        self.start(k, side, "lr-recv", &format!("ch={ch}"), async move {
            match rx.lock().await.recv().await {
                Ok(Some(v)) => {
                    tr(format!("got {ch2} {v}"));
                    format!("ok {v}")
                }
                Ok(None) => "none".into(),
                Err(e) => cls(&e),
            }
        });
    }

    fn lazy_get(&self, k: &str, side: char, ch: &str, l: &Arc<Lazy<Vec<u8>>>) {
        let l = l.clone();
        let ch2 = ch.to_string();
        self.start(k, side, "lazy-get", &format!("ch={ch}"), async move {
            match l.get().await {
                Ok(v) => {
                    tr(format!("got {ch2} {}", v.len()));
                    format!("ok {}", v.len())
                }
                Err(e) => cls(&e),
            }
        });
    }

    fn mirror_borrow(&self, k: &str, side: char, m: &TM<MirroredVec<u32>>) {
        let m = m.clone();
        self.start(k, side, "mirror-borrow", "ch=obs", async move {
            let m = m.lock().await;
            match m.borrow().await {
                Ok(v) => {
                    let l: Vec<String> = v.iter().map(|x| x.to_string()).collect();
                    tr(format!("mirror obs {}", if l.is_empty() { "-".to_string() } else { l.join(",") }));
                    format!("ok len={}", l.len())
                }
                Err(e) => cls(&e),
            }
        });
    }
}

// ------------------------------------------------------------------------------------------------
// the scenario
// ------------------------------------------------------------------------------------------------

#[derive(Clone, Debug)]
struct Variant {
    ta: u64,
    tb: u64,
    chunk: u32,
    buf: u32,
    spawn_calls: bool,
    hold_read: bool,
    /// every wire delivers one item per millisecond of virtual time: calls are issued while earlier frames are still
    /// in flight, faults strike with non-empty queues
    latency: bool,
}

fn variant(r: &mut Rng, w: u64) -> Variant {
    let (ta, tb) = *r.pick(&[(1000u64, 1000u64), (2000, 1500), (5000, 400), (400, 5000), (3000, 1000), (1000, 2500)]);
    let (chunk, buf) = match w % 3 {
        0 => (16, 64),
        1 => (64, 256),
        _ => (16_384, 524_288),
    };
    Variant { ta, tb, chunk, buf, spawn_calls: w % 2 == 0, hold_read: w % 2 == 1, latency: w % 4 >= 2 }
}

thread_local! {
    /// virtual milliseconds one `settle` lasts (1 ns = quiescence when the wires deliver at once; with latency a
    /// fixed pause that is long enough for the traffic of one phase and shorter than half of every timeout)
    static SETTLE_MS: std::cell::Cell<u64> = const { std::cell::Cell::new(0) };
}

thread_local! {
    static WIRES: std::cell::RefCell<Option<[Wire; 2]>> = const { std::cell::RefCell::new(None) };
}

/// `wires A=<items sent>/<delivered> B=<sent>/<delivered>`
fn log_wires() {
    WIRES.with(|c| {
        if let Some(w) = c.borrow().as_ref() {
            let (a, b) = (w[0].counts(), w[1].counts());
            tr(format!("wires A={}/{} B={}/{}", a.0, a.1, b.0, b.1));
        }
    });
}

async fn settle(ops: &Ops) {
    let ms = SETTLE_MS.with(|c| c.get());
    if ms == 0 {
        tokio::time::sleep(Duration::from_nanos(1)).await;
    } else {
        tokio::time::sleep(Duration::from_millis(ms)).await;
    }
    log_wires();
    tr(format!("settled t={} pending={}", now_ms(), ops.pending_list()));
}

async fn advance(ops: &Ops, wires: &[Wire; 2], ms: u64) {
    for w in wires {
        let mut w = w.0.lock().unwrap();
        w.budget = w.budget.saturating_add(ms / 100 + 100);
    }
    tokio::time::sleep(Duration::from_millis(ms)).await;
    tr(format!("time {}", now_ms()));
    log_wires();
    tr(format!("settled t={} pending={}", now_ms(), ops.pending_list()));
}

fn run_class(r: Result<(), remoc::chmux::ChMuxError<std::io::Error, std::io::Error>>) -> String {
    use remoc::chmux::ChMuxError as E;
    match r {
        Ok(()) => "ok".into(),
        Err(E::SinkError(_)) => "sink".into(),
        Err(E::StreamError(_)) => "stream".into(),
        Err(E::StreamClosed) => "closed".into(),
        Err(E::Reset) => "reset".into(),
        Err(E::Timeout) => "timeout".into(),
        Err(E::Protocol(m)) => format!("protocol_{}", m.replace(' ', "_")),
    }
}

type ConnSlot<Tx, Rx> = Arc<Mutex<Option<(rch::base::Sender<Tx>, rch::base::Receiver<Rx>)>>>;

fn connect<Tx, Rx>(ops: &Ops, side: char, cfg: remoc::Cfg, sink: ScriptSink, stream: ScriptStream) -> ConnSlot<Tx, Rx>
where
    Tx: remoc::RemoteSend,
    Rx: remoc::RemoteSend,
{
    let slot: ConnSlot<Tx, Rx> = Arc::new(Mutex::new(None));
    let s2 = slot.clone();
    ops.start(&format!("conn{side}"), side, "connect", "", async move {
        match remoc::Connect::framed::<_, _, Tx, Rx, remoc::codec::Default>(cfg, sink, stream).await {
            Ok((conn, tx, rx)) => {
                *s2.lock().unwrap() = Some((tx, rx));
                tokio::spawn(async move {
                    let r = run_class(conn.await);
                    tr(format!("run {side} {r} t={}", now_ms()));
                });
                "ok".into()
            }
            Err(e) => {
                // the dispatcher result is part of the connect error
                let c = match &e {
                    remoc::ConnectError::ChMux(_) => "chmux",
                    remoc::ConnectError::RemoteConnect(_) => "remote-connect",
                };
                tr(format!("run {side} failed-in-connect t={}", now_ms()));
                format!("err {c}")
            }
        }
    });
    slot
}

async fn scenario(v: &Variant, fault: Option<(char, u64, String)>) {
    verif_harness::trace::reset_clock();
    let ops = Ops { pending: Arc::new(Mutex::new(BTreeSet::new())) };
    let wires = [Wire::new('A', 'B'), Wire::new('B', 'A')];
    for w in &wires {
        // the items themselves are not logged (C09 checks the wire format); `wires` lines carry the counters
        let mut w = w.0.lock().unwrap();
        w.budget = 100_000;
        w.quiet = true;
    }
    WIRES.with(|c| *c.borrow_mut() = Some([wires[0].clone(), wires[1].clone()]));
    if let Some((wire, at, kind)) = &fault {
        let i = if *wire == 'A' { 0 } else { 1 };
        let fk = match kind.as_str() {
            "sink" => FaultKind::Sink,
            "stream" => FaultKind::Stream,
            "eof" => FaultKind::Eof,
            _ => FaultKind::Stall,
        };
        wires[i].0.lock().unwrap().fault_at = Some((*at, fk));
        if kind == "stallboth" {
            wires[1 - i].0.lock().unwrap().fault_at = Some((*at, FaultKind::Stall));
        }
        tr(format!("plan wire={wire} at={at} kind={kind}"));
    }
    SETTLE_MS.with(|c| c.set(if v.latency { 150 } else { 0 }));
    let pump_on = Arc::new(std::sync::atomic::AtomicBool::new(v.latency));
    if v.latency {
        for w in &wires {
            w.set_release(0);
        }
        let pump = [wires[0].clone(), wires[1].clone()];
        let on = pump_on.clone();
        tokio::spawn(async move {
            while on.load(std::sync::atomic::Ordering::Relaxed) {
                tokio::time::sleep(Duration::from_millis(1)).await;
                for w in &pump {
                    // at most one item per millisecond; a stalled or broken wire resets the credit itself
                    w.set_release(1);
                }
            }
            for w in &pump {
                w.set_release(verif_harness::transport::INF);
            }
        });
    }
    tr(format!("cfg A timeout={} chunk={} buf={} latency={}", v.ta, v.chunk, v.buf, v.latency as u8));
    tr(format!("cfg B timeout={} chunk={} buf={}", v.tb, v.chunk, v.buf));
    let mk = |t: u64| {
        let mut c = remoc::Cfg::default();
        c.connection_timeout = Some(Duration::from_millis(t));
        c.chunk_size = v.chunk;
        c.receive_buffer = v.buf;
        c
    };

    // ---- connect
    tr("phase connect".into());
    let ca = connect::<Bundle, ()>(&ops, 'A', mk(v.ta), wires[0].sink(), wires[1].stream());
    let cb = connect::<(), Bundle>(&ops, 'B', mk(v.tb), wires[1].sink(), wires[0].stream());
    settle(&ops).await;
    let a_conn = ca.lock().unwrap().take();
    let b_conn = cb.lock().unwrap().take();

    // ---- setup: A creates everything and sends B its halves
    tr("phase setup".into());
    let mut a_side: Option<ASide> = None;
    let b_slot: Arc<Mutex<Option<Bundle>>> = Arc::new(Mutex::new(None));
    // the base channel stays alive for the whole run
    let mut keep_a = None;
    let mut keep_b = None;
    let serve_lock = Arc::new(tokio::sync::RwLock::new(SvcObj { value: 100 }));
    if let Some((mut a_tx, a_rx)) = a_conn {
        let (m1_tx, m1_rx) = mpsc::channel::<u32, _>(2);
        let (m2_tx, m2_rx) = mpsc::channel::<u32, _>(2);
        let (m3_tx, m3_rx) = mpsc::channel::<u32, _>(1);
        let (mb_tx, mb_rx) = mpsc::channel::<Vec<u8>, _>(2);
        let (o1_tx, o1_rx) = oneshot::channel::<u32, _>();
        let (o2_tx, o2_rx) = oneshot::channel::<u32, _>();
        let (w1_tx, w1_rx) = watch::channel::<u32, _>(0);
        let (w2_tx, w2_rx) = watch::channel::<u32, _>(0);
        let (bc_tx, bc_rx) = broadcast::channel::<u32, _, 16>(16);
        let (bin1_tx, bin1_rx) = bin::channel();
        let (bin2_tx, bin2_rx) = bin::channel();
        let (lr1_tx, lr1_rx) = lr::channel::<u32, _>();
        let (lr2_tx, lr2_rx) = lr::channel::<u32, _>();
        let (server, client) = SvcServerSharedMut::<_, remoc::codec::Default>::new(serve_lock.clone(), 2);
        let spawn_calls = v.spawn_calls;
        ops.start("serve", 'A', "rtc-serve", "", async move {
            match server.serve(spawn_calls).await {
                Ok(()) => "ok".into(),
                Err(e) => cls(&e),
            }
        });
        let mut obs: ObservableVec<u32> = ObservableVec::new();
        obs.push(1);
        tr("put obs - 1".into());
        let sub = obs.subscribe(8);
        let owner = Owner::new(7u32);
        let rw = owner.rw_lock();
        let lazy1 = Lazy::new(vec![1u8; 40]);
        let lazy2 = Lazy::new(vec![2u8; 70]);
        let bundle = Bundle {
            m1_rx, m2_tx, m3_rx, mb_rx, o1_rx, o2_tx, w1_rx, w2_tx, bc_rx, bin1_rx, bin2_tx, lr1_rx, lr2_tx, client, sub, rw,
            lazy1, lazy2,
        };
        a_side = Some(ASide {
            m1_tx2: m1_tx.clone(),
            m1_tx,
            m2_rx: tm(m2_rx),
            m3_tx,
            mb_tx,
            _o1_tx: o1_tx,
            o2_rx: tm(Some(o2_rx)),
            w1_tx: Arc::new(w1_tx),
            w2_rx: tm(w2_rx),
            bc_tx,
            bin1_tx: tm(bin1_tx),
            bin2_rx: tm(bin2_rx),
            lr1_tx: tm(lr1_tx),
            lr2_rx: tm(lr2_rx),
            obs,
            _owner: owner,
        });
        let (ktx, krx) = tokio::sync::oneshot::channel();
        keep_a = Some(krx);
        ops.start("xfer-send", 'A', "base-send", "", async move {
            let r = match a_tx.send(bundle).await {
                Ok(()) => "ok".into(),
                Err(e) => cls(&e.kind),
            };
            let _ = ktx.send((a_tx, a_rx));
            r
        });
    }
    if let Some((b_tx, mut b_rx)) = b_conn {
        let slot = b_slot.clone();
        let (ktx, krx) = tokio::sync::oneshot::channel();
        keep_b = Some(krx);
        ops.start("xfer-recv", 'B', "base-recv", "", async move {
            let r = match b_rx.recv().await {
                Ok(Some(b)) => {
                    *slot.lock().unwrap() = Some(b);
                    "ok".into()
                }
                Ok(None) => "none".into(),
                Err(e) => cls(&e),
            };
            let _ = ktx.send((b_tx, b_rx));
            r
        });
    }
    settle(&ops).await;
    if v.latency {
        // the transfer takes a few hundred items at one per millisecond
        for _ in 0..8 {
            if !ops.pending.lock().unwrap().contains("xfer-recv") {
                break;
            }
            settle(&ops).await;
        }
    }
    let b_side: Option<BSide> = b_slot.lock().unwrap().take().map(|b| BSide {
        m1_rx: tm(b.m1_rx),
        m2_tx2: b.m2_tx.clone(),
        m2_tx: b.m2_tx,
        _m3_rx: b.m3_rx,
        mb_rx: tm(b.mb_rx),
        o1_rx: tm(Some(b.o1_rx)),
        o2_tx: Some(b.o2_tx),
        w1_rx: tm(b.w1_rx),
        w2_tx: Arc::new(b.w2_tx),
        bc_rx: tm(b.bc_rx),
        bin1_rx: tm(b.bin1_rx),
        bin2_tx: tm(b.bin2_tx),
        lr1_rx: tm(b.lr1_rx),
        lr2_tx: tm(b.lr2_tx),
        client: b.client,
        mirror: tm(b.sub.mirror(100)),
        rw: b.rw,
        lazy1: Arc::new(b.lazy1),
        lazy2: Arc::new(b.lazy2),
    });
    let mut a = a_side;
    let mut b = b_side;
    let hold_release = Arc::new(tokio::sync::Notify::new());

    // ---- traffic
    tr("phase traffic".into());
    if let Some(a) = &a {
        ops.mpsc_send("t1a", 'A', "m1", "a", &a.m1_tx, 1);
        ops.mpsc_send("t1b", 'A', "m1", "b", &a.m1_tx2, 1001);
        ops.mpsc_send("t1c", 'A', "m1", "a", &a.m1_tx, 2);
    }
    if let Some(b) = &b {
        ops.mpsc_recv("t1r1", 'B', "m1", &b.m1_rx);
        ops.mpsc_recv("t1r2", 'B', "m1", &b.m1_rx);
        ops.mpsc_recv("t1r3", 'B', "m1", &b.m1_rx);
    }
    settle(&ops).await;
    if let Some(a) = &a {
        ops.big_send("t1x", 'A', "mb", &a.mb_tx, 7, 300);
        ops.big_send("t1y", 'A', "mb", &a.mb_tx, 8, 90);
    }
    if let Some(b) = &b {
        ops.big_recv("t1u", 'B', "mb", &b.mb_rx);
        ops.big_recv("t1v", 'B', "mb", &b.mb_rx);
    }
    settle(&ops).await;
    if let Some(b) = &mut b {
        ops.mpsc_send("t2a", 'B', "m2", "a", &b.m2_tx, 11);
        ops.mpsc_send("t2b", 'B', "m2", "b", &b.m2_tx2, 1011);
        if let Some(o2) = b.o2_tx.take() {
            ops.start("t3s", 'B', "oneshot-send", "ch=o2", async move {
                tr("put o2 - 5".into());
                match o2.send(5) {
                    Ok(_) => "ok".into(),
                    Err(e) => cls(&e.without_item()),
                }
            });
        }
        ops.watch_send("t4s2", 'B', "w2", &b.w2_tx, 8);
    }
    if let Some(a) = &a {
        ops.mpsc_recv("t2r1", 'A', "m2", &a.m2_rx);
        ops.mpsc_recv("t2r2", 'A', "m2", &a.m2_rx);
        ops.oneshot_recv("t3r", 'A', "o2", &a.o2_rx);
        ops.watch_send("t4s1", 'A', "w1", &a.w1_tx, 7);
        ops.watch_changed("t4r2", 'A', "w2", &a.w2_rx);
    }
    if let Some(b) = &b {
        ops.watch_changed("t4r1", 'B', "w1", &b.w1_rx);
    }
    settle(&ops).await;
    if let Some(a) = &a {
        for (i, val) in [21u32, 22].iter().enumerate() {
            let tx = a.bc_tx.clone();
            let val = *val;
            ops.start(&format!("t5s{i}"), 'A', "bc-send", "ch=bc", async move {
                tr(format!("put bc - {val}"));
                match tx.send(val) {
                    Ok(_) => "ok".into(),
                    Err(e) => cls(&e.without_item()),
                }
            });
        }
        ops.bin_send("t6s1", 'A', "bin1", &a.bin1_tx, 61);
        ops.bin_recv("t6r2", 'A', "bin2", &a.bin2_rx);
        ops.lr_send("t7s1", 'A', "lr1", &a.lr1_tx, 31);
        ops.lr_recv("t7r2", 'A', "lr2", &a.lr2_rx);
    }
    if let Some(b) = &b {
        ops.bc_recv("t5r1", 'B', "bc", &b.bc_rx);
        ops.bc_recv("t5r2", 'B', "bc", &b.bc_rx);
        ops.bin_recv("t6r1", 'B', "bin1", &b.bin1_rx);
        ops.bin_send("t6s2", 'B', "bin2", &b.bin2_tx, 62);
        ops.lr_recv("t7r1", 'B', "lr1", &b.lr1_rx);
        ops.lr_send("t7s2", 'B', "lr2", &b.lr2_tx, 41);
    }
    settle(&ops).await;
    if let Some(b) = &b {
        let c = b.client.clone();
        ops.start("t8v", 'B', "rtc-call", "m=value", async move {
            match c.value().await {
                Ok(v) => format!("ok {v}"),
                Err(e) => cls(&e),
            }
        });
        let mut c = b.client.clone();
        ops.start("t8a", 'B', "rtc-call", "m=add", async move {
            match c.add(3).await {
                Ok(v) => format!("ok {v}"),
                Err(e) => cls(&e),
            }
        });
        ops.mirror_borrow("t9b", 'B', &b.mirror);
        ops.lazy_get("t11", 'B', "lazy1", &b.lazy1);
    }
    settle(&ops).await;
    if let Some(a) = &mut a {
        a.obs.push(2);
        tr("put obs - 2".into());
        a.obs.push(3);
        tr("put obs - 3".into());
    }
    if let Some(b) = &b {
        let m = b.mirror.clone();
        ops.start("t9c", 'B', "mirror-changed", "ch=obs", async move {
            m.lock().await.changed().await;
            "unit".into()
        });
        let rw = b.rw.clone();
        ops.start("t10r", 'B', "rw-read", "", async move {
            match rw.read().await {
                Ok(g) => format!("ok {}", *g),
                Err(e) => cls(&e),
            }
        });
    }
    settle(&ops).await;
    if let Some(b) = &b {
        ops.mirror_borrow("t9d", 'B', &b.mirror);
        let rw = b.rw.clone();
        ops.start("t10w", 'B', "rw-write", "", async move {
            match rw.write().await {
                Ok(mut g) => {
                    *g = 9;
                    match g.commit().await {
                        Ok(()) => "ok committed".into(),
                        Err(e) => cls(&e),
                    }
                }
                Err(e) => cls(&e),
            }
        });
    }
    settle(&ops).await;

    // ---- calls that stay pending on a healthy connection
    tr("phase pending".into());
    if let Some(a) = &a {
        ops.mpsc_recv("p1a", 'A', "m2", &a.m2_rx);
        ops.mpsc_closed("p2a", 'A', "m1", &a.m1_tx);
        // back pressure: B never receives on m3
        let tx = a.m3_tx.clone();
        ops.start("p3", 'A', "mpsc-fill", "ch=m3", async move {
            for i in 0..400u32 {
                tr(format!("put m3 a {i}"));
                if let Err(e) = tx.send(i).await {
                    return cls(&e.without_item());
                }
            }
            "ok overflow".into()
        });
        ops.watch_changed("p5a", 'A', "w2", &a.w2_rx);
        ops.bin_recv("p7a", 'A', "bin2", &a.bin2_rx);
        ops.lr_recv("p8a", 'A', "lr2", &a.lr2_rx);
    }
    if let Some(b) = &b {
        ops.mpsc_recv("p1b", 'B', "m1", &b.m1_rx);
        ops.big_recv("p1x", 'B', "mb", &b.mb_rx);
        ops.mpsc_closed("p2b", 'B', "m2", &b.m2_tx);
        ops.oneshot_recv("p4", 'B', "o1", &b.o1_rx);
        ops.watch_changed("p5b", 'B', "w1", &b.w1_rx);
        ops.bc_recv("p6", 'B', "bc", &b.bc_rx);
        ops.bin_recv("p7b", 'B', "bin1", &b.bin1_rx);
        ops.lr_recv("p8b", 'B', "lr1", &b.lr1_rx);
        let c = b.client.clone();
        ops.start("p9", 'B', "rtc-call", "m=stall", async move {
            match c.stall().await {
                Ok(v) => format!("ok {v}"),
                Err(e) => cls(&e),
            }
        });
        let m = b.mirror.clone();
        ops.start("p10", 'B', "mirror-changed", "ch=obs", async move {
            m.lock().await.changed().await;
            "unit".into()
        });
        if v.hold_read {
            // a read guard is held; the write request stays in flight until it is released
            let rw = b.rw.clone();
            let rel = hold_release.clone();
            ops.start("p11r", 'B', "rw-read", "hold=1", async move {
                match rw.read().await {
                    Ok(g) => {
                        let val = *g;
                        let rel = rel.clone();
                        // keep the guard in a detached task
                        let rw2 = rw.clone();
                        drop(g);
                        tokio::spawn(async move {
                            if let Ok(g) = rw2.read().await {
                                rel.notified().await;
                                drop(g);
                            }
                        });
                        format!("ok {val}")
                    }
                    Err(e) => cls(&e),
                }
            });
        }
    }
    settle(&ops).await;
    if let Some(b) = &b {
        if v.hold_read {
            let rw = b.rw.clone();
            ops.start("p11w", 'B', "rw-write", "", async move {
                match rw.write().await {
                    Ok(mut g) => {
                        *g = 10;
                        match g.commit().await {
                            Ok(()) => "ok committed".into(),
                            Err(e) => cls(&e),
                        }
                    }
                    Err(e) => cls(&e),
                }
            });
        }
        ops.lazy_get("p12", 'B', "lazy2", &b.lazy2);
    }
    settle(&ops).await;
    advance(&ops, &wires, v.ta + v.tb + 200).await;
    // the read guard the script itself holds is released: what follows must not wait for the script
    hold_release.notify_one();
    settle(&ops).await;

    // ---- calls started after the failure
    tr(format!("cutrange A={} B={}", wires[0].counts().0, wires[1].counts().0));
    tr("phase later".into());
    if let Some(a) = &mut a {
        ops.mpsc_send("l1a", 'A', "m1", "a", &a.m1_tx, 3);
        ops.big_send("l1x", 'A', "mb", &a.mb_tx, 9, 200);
        ops.mpsc_recv("l2a", 'A', "m2", &a.m2_rx);
        ops.mpsc_closed("l3a", 'A', "m1", &a.m1_tx2);
        ops.mpsc_send("l3b", 'A', "m3", "b", &a.m3_tx, 777_777);
        ops.oneshot_recv("l4a", 'A', "o2", &a.o2_rx);
        ops.watch_send("l5s", 'A', "w1", &a.w1_tx, 70);
        ops.watch_changed("l5a", 'A', "w2", &a.w2_rx);
        ops.watch_borrow("l5b", 'A', "w2", &a.w2_rx);
        let tx = a.bc_tx.clone();
        ops.start("l6s", 'A', "bc-send", "ch=bc", async move {
            tr("put bc - 23".into());
            match tx.send(23) {
                Ok(_) => "ok".into(),
                Err(e) => cls(&e.without_item()),
            }
        });
        ops.bin_send("l7s", 'A', "bin1", &a.bin1_tx, 63);
        ops.bin_recv("l7r", 'A', "bin2", &a.bin2_rx);
        ops.lr_send("l8s", 'A', "lr1", &a.lr1_tx, 32);
        ops.lr_recv("l8r", 'A', "lr2", &a.lr2_rx);
        a.obs.push(4);
        tr("put obs - 4".into());
    }
    if let Some(b) = &b {
        ops.mpsc_send("l1b", 'B', "m2", "a", &b.m2_tx, 12);
        ops.mpsc_recv("l2b", 'B', "m1", &b.m1_rx);
        ops.big_recv("l2x", 'B', "mb", &b.mb_rx);
        ops.mpsc_closed("l3c", 'B', "m2", &b.m2_tx2);
        ops.oneshot_recv("l4b", 'B', "o1", &b.o1_rx);
        ops.watch_send("l5t", 'B', "w2", &b.w2_tx, 80);
        ops.watch_changed("l5c", 'B', "w1", &b.w1_rx);
        ops.watch_borrow("l5d", 'B', "w1", &b.w1_rx);
        ops.bc_recv("l6r", 'B', "bc", &b.bc_rx);
        ops.bin_recv("l7t", 'B', "bin1", &b.bin1_rx);
        ops.bin_send("l7u", 'B', "bin2", &b.bin2_tx, 64);
        ops.lr_recv("l8t", 'B', "lr1", &b.lr1_rx);
        ops.lr_send("l8u", 'B', "lr2", &b.lr2_tx, 42);
        let c = b.client.clone();
        ops.start("l9", 'B', "rtc-call", "m=value", async move {
            match c.value().await {
                Ok(v) => format!("ok {v}"),
                Err(e) => cls(&e),
            }
        });
        ops.mirror_borrow("l10", 'B', &b.mirror);
        let rw = b.rw.clone();
        ops.start("l11w", 'B', "rw-write", "", async move {
            match rw.write().await {
                Ok(mut g) => {
                    *g = 11;
                    match g.commit().await {
                        Ok(()) => "ok committed".into(),
                        Err(e) => cls(&e),
                    }
                }
                Err(e) => cls(&e),
            }
        });
        ops.lazy_get("l12", 'B', "lazy2", &b.lazy2);
    }
    settle(&ops).await;
    // second round: errors that are reported on the call after the one that hit them
    tr("phase later2".into());
    if let Some(a) = &a {
        ops.mpsc_send("k1a", 'A', "m1", "a", &a.m1_tx, 4);
        ops.mpsc_recv("k2a", 'A', "m2", &a.m2_rx);
        ops.watch_send("k5s", 'A', "w1", &a.w1_tx, 71);
        ops.lr_send("k8s", 'A', "lr1", &a.lr1_tx, 33);
    }
    if let Some(b) = &b {
        ops.mpsc_send("k1b", 'B', "m2", "a", &b.m2_tx, 13);
        ops.mpsc_recv("k2b", 'B', "m1", &b.m1_rx);
        ops.watch_send("k5t", 'B', "w2", &b.w2_tx, 81);
        ops.bc_recv("k6r", 'B', "bc", &b.bc_rx);
        let rw = b.rw.clone();
        ops.start("k11r", 'B', "rw-read", "", async move {
            match rw.read().await {
                Ok(g) => format!("ok {}", *g),
                Err(e) => cls(&e),
            }
        });
    }
    settle(&ops).await;
    hold_release.notify_one();
    // hang detector: nothing may be left that a later timer could still wake
    pump_on.store(false, std::sync::atomic::Ordering::Relaxed);
    advance(&ops, &wires, 3_600_000).await;
    tr(format!(
        "end pending={} wireA={:?} wireB={:?} livelock={}",
        ops.pending_list(),
        wires[0].counts(),
        wires[1].counts(),
        (wires[0].livelock() || wires[1].livelock()) as u8
    ));
    std::mem::forget((a, b, keep_a, keep_b, serve_lock));
}

fn run(v: &Variant, fault: Option<(char, u64, String)>) -> Vec<String> {
    let _ = verif_harness::trace::take();
    let rt = tokio::runtime::Builder::new_current_thread().enable_time().start_paused(true).build().unwrap();
    let v = v.clone();
    let res = std::panic::catch_unwind(std::panic::AssertUnwindSafe(|| {
        rt.block_on(async move { scenario(&v, fault).await });
    }));
    if res.is_err() {
        tr("panic harness-or-remoc".into());
    }
    rt.shutdown_background();
    verif_harness::trace::take()
}

fn main() {
    let args: Vec<String> = std::env::args().collect();
    std::panic::set_hook(Box::new(|info| {
        let msg = info.to_string().replace('\n', " ");
        tr(format!("panic {msg}"));
    }));
    let out = std::io::stdout();
    let mut out = std::io::BufWriter::new(out.lock());
    let emit = |out: &mut std::io::BufWriter<std::io::StdoutLock>, name: String, lines: Vec<String>| {
        writeln!(out, "trace {name}").unwrap();
        for l in lines {
            writeln!(out, "{l}").unwrap();
        }
    };
    match args.get(1).map(|s| s.as_str()) {
        Some("sweep") => {
            // faultup sweep <variants> <stride>: stride 0 = choose so that about <budget> runs are made
            let nv: u64 = args[2].parse().unwrap();
            let stride_arg: u64 = args.get(3).and_then(|s| s.parse().ok()).unwrap_or(1);
            let budget: u64 = args.get(4).and_then(|s| s.parse().ok()).unwrap_or(300);
            let mut rng = Rng::from_env();
            let first = rng.below(6);
            let (mut runs, mut fired_est) = (0u64, 0u64);
            for vi in 0..nv {
                let w = first + vi;
                let vseed = rng.next_u64();
                let v = variant(&mut Rng::new(vseed), w);
                let base = run(&v, None);
                // cut points: every item put on a wire before the calls of the `later` phase start (what follows
                // is an hour of keep-alive pings)
                let count = |side: &str| -> u64 {
                    base.iter()
                        .find(|l| l.starts_with("cutrange "))
                        .and_then(|l| l.split_whitespace().find_map(|t| t.strip_prefix(&format!("{side}=")).map(|v| v.to_string())))
                        .and_then(|v| v.parse().ok())
                        .unwrap_or(0)
                };
                let (fa, fb) = (count("A"), count("B"));
                eprintln!("STAT baseline_items_A {fa}");
                eprintln!("STAT baseline_items_B {fb}");
                emit(&mut out, format!("up-v{w}-s{vseed}-base"), base);
                let stride = if stride_arg == 0 { ((fa + fb) * 5 * nv / budget).max(1) } else { stride_arg };
                let offset = rng.below(stride);
                for (wire, frames) in [('A', fa), ('B', fb)] {
                    let mut i = offset;
                    while i <= frames {
                        for kind in ["sink", "stream", "eof", "stall", "stallboth"] {
                            let t = run(&v, Some((wire, i, kind.to_string())));
                            runs += 1;
                            if t.iter().any(|l| l.starts_with("fault ")) {
                                fired_est += 1;
                            }
                            emit(&mut out, format!("up-v{w}-s{vseed}-{wire}-{i}-{kind}"), t);
                        }
                        i += stride;
                    }
                }
            }
            eprintln!("STAT runs {runs}");
            eprintln!("STAT fault_fired {fired_est}");
        }
        Some("one") => {
            let vseed: u64 = args[2].parse().unwrap();
            let w: u64 = args[3].parse().unwrap();
            let v = variant(&mut Rng::new(vseed), w);
            let fault = if args.len() > 6 {
                Some((args[4].chars().next().unwrap(), args[5].parse().unwrap(), args[6].clone()))
            } else {
                None
            };
            let name = match &fault {
                Some((wire, i, kind)) => format!("up-v{w}-s{vseed}-{wire}-{i}-{kind}"),
                None => format!("up-v{w}-s{vseed}-base"),
            };
            let t = run(&v, fault);
            emit(&mut out, name, t);
        }
        _ => {
            eprintln!("usage: faultup sweep <variants> <stride> [budget] | faultup one <vseed> <variant> [<wire> <index> <kind>]");
            std::process::exit(2);
        }
    }
    out.flush().unwrap();
}
