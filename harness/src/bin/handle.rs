//! C20 harness: real `robj::handle::Handle`, `robj::lazy::Lazy`, `robj::lazy_blob::LazyBlob` on
//! 2–3 logical endpoints joined by 1–3 real connections (`remoc::Connect::io` over
//! `tokio::io::duplex`, wrapped in a cut / byte-budget adapter).  Prints the line protocol of
//! `lean/Driver/Handle.lean`.
//!
//! usage: handle gen <handle-cases> <lazy-cases>     (seed from VERIF_SEED)
//!        handle run <script-file>...                 (op lines; everything after " = " is ignored)

use std::{
    collections::{HashMap, VecDeque},
    io::{self, Write},
    panic::AssertUnwindSafe,
    pin::Pin,
    sync::{
        Arc, Mutex,
        atomic::{AtomicBool, AtomicI64, AtomicUsize, Ordering},
    },
    task::{Context, Poll, Waker},
    time::Duration,
};

use futures::FutureExt;
use remoc::{
    chmux, rch,
    robj::{
        handle::{Handle, HandleError, Provider},
        lazy::Lazy,
        lazy_blob::LazyBlob,
    },
};
use serde::{Deserialize, Serialize};
use tokio::io::{AsyncRead, AsyncWrite, DuplexStream, ReadBuf, ReadHalf, WriteHalf};
use verif_harness::{hex::hex, prng::Rng};

// ------------------------------------------------------------------------------------------------
// values

/// Value behind a handle: a nonce unique to the object and a drop counter.  Three distinct types
/// with the same layout.
struct Tracked<const TAG: u8> {
    nonce: u64,
    drops: Arc<AtomicUsize>,
}

impl<const TAG: u8> Drop for Tracked<TAG> {
    fn drop(&mut self) {
        self.drops.fetch_add(1, Ordering::SeqCst);
    }
}

/// Public proxy type: handles travel and are stored as `Handle<Proxy>` and are cast to the
/// concrete type for an access (the usage `Handle::cast` documents).
#[derive(Clone)]
struct Proxy;
type H = Handle<Proxy>;

#[derive(Serialize, Deserialize)]
enum Item {
    H(u64, H),
    L(Lazy<Vec<u8>>),
    B(LazyBlob),
}

#[derive(Serialize, Deserialize)]
enum Packet {
    Boot(rch::mpsc::Receiver<Item>),
    Item(Item),
}

// ------------------------------------------------------------------------------------------------
// transport adapter: cut and byte budget

struct Ctl {
    cut: AtomicBool,
    /// bytes the reading half of side 0 / 1 may still take (-1: unlimited)
    budget: [AtomicI64; 2],
    wakers: Mutex<Vec<Option<Waker>>>,
}

impl Ctl {
    fn new() -> Arc<Self> {
        Arc::new(Ctl {
            cut: AtomicBool::new(false),
            budget: [AtomicI64::new(-1), AtomicI64::new(-1)],
            wakers: Mutex::new(vec![None, None, None, None]),
        })
    }
    fn do_cut(&self) {
        self.cut.store(true, Ordering::SeqCst);
        for w in self.wakers.lock().unwrap().iter_mut() {
            if let Some(w) = w.take() {
                w.wake();
            }
        }
    }
    fn park(&self, slot: usize, cx: &Context<'_>) {
        self.wakers.lock().unwrap()[slot] = Some(cx.waker().clone());
    }
    fn is_cut(&self) -> bool {
        self.cut.load(Ordering::SeqCst)
    }
}

fn cut_err() -> io::Error {
    io::Error::new(io::ErrorKind::ConnectionReset, "connection cut by harness")
}

struct TapR {
    inner: ReadHalf<DuplexStream>,
    ctl: Arc<Ctl>,
    side: usize,
}

impl AsyncRead for TapR {
    fn poll_read(mut self: Pin<&mut Self>, cx: &mut Context<'_>, buf: &mut ReadBuf<'_>) -> Poll<io::Result<()>> {
        if self.ctl.is_cut() {
            return Poll::Ready(Err(cut_err()));
        }
        let b = self.ctl.budget[self.side].load(Ordering::SeqCst);
        if b == 0 {
            self.ctl.do_cut();
            return Poll::Ready(Err(cut_err()));
        }
        let want = if b < 0 { buf.remaining() } else { buf.remaining().min(b as usize) };
        let mut tmp = vec![0u8; want];
        let mut rb = ReadBuf::new(&mut tmp);
        match Pin::new(&mut self.inner).poll_read(cx, &mut rb) {
            Poll::Ready(Ok(())) => {
                let n = rb.filled().len();
                buf.put_slice(rb.filled());
                if b > 0 {
                    self.ctl.budget[self.side].fetch_sub(n as i64, Ordering::SeqCst);
                }
                Poll::Ready(Ok(()))
            }
            Poll::Ready(Err(e)) => Poll::Ready(Err(e)),
            Poll::Pending => {
                self.ctl.park(self.side, cx);
                Poll::Pending
            }
        }
    }
}

struct TapW {
    inner: WriteHalf<DuplexStream>,
    ctl: Arc<Ctl>,
    side: usize,
}

impl AsyncWrite for TapW {
    fn poll_write(mut self: Pin<&mut Self>, cx: &mut Context<'_>, data: &[u8]) -> Poll<io::Result<usize>> {
        if self.ctl.is_cut() {
            return Poll::Ready(Err(cut_err()));
        }
        match Pin::new(&mut self.inner).poll_write(cx, data) {
            Poll::Pending => {
                self.ctl.park(2 + self.side, cx);
                Poll::Pending
            }
            r => r,
        }
    }
    fn poll_flush(mut self: Pin<&mut Self>, cx: &mut Context<'_>) -> Poll<io::Result<()>> {
        if self.ctl.is_cut() {
            return Poll::Ready(Err(cut_err()));
        }
        Pin::new(&mut self.inner).poll_flush(cx)
    }
    fn poll_shutdown(mut self: Pin<&mut Self>, cx: &mut Context<'_>) -> Poll<io::Result<()>> {
        Pin::new(&mut self.inner).poll_shutdown(cx)
    }
}

// ------------------------------------------------------------------------------------------------
// world: endpoints and connections

struct Side {
    btx: rch::base::Sender<Packet>,
    brx: Option<rch::base::Receiver<Packet>>,
    mtx: rch::mpsc::Sender<Item>,
    mrx: rch::mpsc::Receiver<Item>,
}

struct Conn {
    eps: [usize; 2],
    ctl: Arc<Ctl>,
    sides: [Side; 2],
}

impl Conn {
    /// index of the side sitting on endpoint `ep` (for parallel self-loops there are none: a != b)
    fn side_of(&self, ep: usize) -> Option<usize> {
        if self.eps[0] == ep {
            Some(0)
        } else if self.eps[1] == ep {
            Some(1)
        } else {
            None
        }
    }
}

const HOUR: Duration = Duration::from_secs(3600);

async fn settle() {
    tokio::time::sleep(Duration::from_nanos(1)).await;
}

async fn build_conn(a: usize, b: usize, cfg: &chmux::Cfg, cap: usize) -> Conn {
    let ctl = Ctl::new();
    let (sa, sb) = tokio::io::duplex(cap);
    let (ra, wa) = tokio::io::split(sa);
    let (rb, wb) = tokio::io::split(sb);
    let fa = remoc::Connect::io::<_, _, Packet, Packet, remoc::codec::Default>(
        cfg.clone(),
        TapR { inner: ra, ctl: ctl.clone(), side: 0 },
        TapW { inner: wa, ctl: ctl.clone(), side: 0 },
    );
    let fb = remoc::Connect::io::<_, _, Packet, Packet, remoc::codec::Default>(
        cfg.clone(),
        TapR { inner: rb, ctl: ctl.clone(), side: 1 },
        TapW { inner: wb, ctl: ctl.clone(), side: 1 },
    );
    let (ra, rb) = tokio::join!(fa, fb);
    let (conn_a, mut btx_a, mut brx_a) = ra.expect("connect a");
    let (conn_b, mut btx_b, mut brx_b) = rb.expect("connect b");
    tokio::spawn(conn_a);
    tokio::spawn(conn_b);
    // one rch::mpsc channel per direction: the receiver is shipped to the other side
    let (mtx_ab, mrx_ab) = rch::mpsc::channel::<Item, remoc::codec::Default>(8);
    let (mtx_ba, mrx_ba) = rch::mpsc::channel::<Item, remoc::codec::Default>(8);
    // send and receive concurrently: with a small receive buffer the boot message does not fit
    // into the peer's buffer and is only accepted while the peer is receiving
    let (sa, sb2, rb2, ra2) = tokio::join!(
        btx_a.send(Packet::Boot(mrx_ab)),
        btx_b.send(Packet::Boot(mrx_ba)),
        brx_b.recv(),
        brx_a.recv()
    );
    sa.ok().expect("boot a");
    sb2.ok().expect("boot b");
    let mrx_at_b = match rb2 {
        Ok(Some(Packet::Boot(r))) => r,
        _ => panic!("boot recv b"),
    };
    let mrx_at_a = match ra2 {
        Ok(Some(Packet::Boot(r))) => r,
        _ => panic!("boot recv a"),
    };
    Conn {
        eps: [a, b],
        ctl,
        sides: [
            Side { btx: btx_a, brx: Some(brx_a), mtx: mtx_ab, mrx: mrx_at_a },
            Side { btx: btx_b, brx: Some(brx_b), mtx: mtx_ba, mrx: mrx_at_b },
        ],
    }
}

fn parse_conns(s: &str) -> Vec<(usize, usize)> {
    s.split(',')
        .filter(|x| !x.is_empty())
        .map(|p| {
            let (a, b) = p.split_once('-').expect("a-b");
            (a.parse().unwrap(), b.parse().unwrap())
        })
        .collect()
}

// ------------------------------------------------------------------------------------------------
// handle cases

struct ObjRec {
    drops: Arc<AtomicUsize>,
    provider: Option<Provider>,
}

struct MsgRec {
    conn: usize,
    dst: usize,
    via: char,
    done: bool,
}

struct HWorld {
    conns: Vec<Conn>,
    slots: Vec<Option<H>>,
    objs: Vec<ObjRec>,
    msgs: Vec<MsgRec>,
    uuids: HashMap<String, usize>,
}

fn make_handle(tag: u64, nonce: u64, drops: Arc<AtomicUsize>, provided: bool) -> (H, Option<Provider>) {
    macro_rules! mk {
        ($t:literal) => {{
            let v = Tracked::<$t> { nonce, drops };
            if provided {
                let (h, p) = Handle::<Tracked<$t>>::provided(v);
                (h.cast::<Proxy>(), Some(p))
            } else {
                (Handle::<Tracked<$t>>::new(v).cast::<Proxy>(), None)
            }
        }};
    }
    match tag {
        0 => mk!(0),
        1 => mk!(1),
        _ => mk!(2),
    }
}

fn res_text(r: Result<u64, HandleError>) -> String {
    match r {
        Ok(n) => format!("val {n}"),
        Err(HandleError::Unknown) => "unknown".into(),
        Err(HandleError::MismatchedType(_)) => "mismatch".into(),
    }
}

/// One access at type `Tracked<TAG>`.  `into` consumes the slot.
async fn access_at<const TAG: u8>(slot: &mut Option<H>, kind: &str) -> String {
    let h = slot.take().expect("live slot").cast::<Tracked<TAG>>();
    match kind {
        "into" => match tokio::time::timeout(HOUR, h.into_inner()).await {
            Err(_) => "hang".into(),
            Ok(Ok(v)) => {
                // the value is ours now: it must not have been dropped before we let go of it
                let before = v.drops.load(Ordering::SeqCst);
                let n = v.nonce;
                drop(v);
                if before != 0 { format!("val {n} dropped-before-return") } else { format!("val {n}") }
            }
            Ok(Err(e)) => res_text(Err(e)),
        },
        "ref" => {
            let r = match tokio::time::timeout(HOUR, h.as_ref()).await {
                Err(_) => "hang".into(),
                Ok(Ok(g)) => {
                    if g.drops.load(Ordering::SeqCst) != 0 { format!("val {} dropped-while-borrowed", g.nonce) } else { format!("val {}", g.nonce) }
                }
                Ok(Err(e)) => res_text(Err(e)),
            };
            *slot = Some(h.cast::<Proxy>());
            r
        }
        _ => {
            let mut h = h;
            let r = match tokio::time::timeout(HOUR, h.as_mut()).await {
                Err(_) => "hang".into(),
                Ok(Ok(g)) => {
                    if g.drops.load(Ordering::SeqCst) != 0 { format!("val {} dropped-while-borrowed", g.nonce) } else { format!("val {}", g.nonce) }
                }
                Ok(Err(e)) => res_text(Err(e)),
            };
            *slot = Some(h.cast::<Proxy>());
            r
        }
    }
}

impl HWorld {
    fn state_text(&mut self, h: &H) -> String {
        let d = format!("{h:?}");
        let (kind, id) = if d.starts_with("LocalCreated") {
            ("created", None)
        } else if d.starts_with("LocalReceived") {
            ("received", Some(d.clone()))
        } else if d.starts_with("Remote") {
            ("remote", Some(d.clone()))
        } else {
            ("other", None)
        };
        let uid = match id {
            Some(d) => {
                // canonical name of the UUID: order of first appearance
                let u = d.split("id:").nth(1).unwrap_or("").trim().trim_end_matches('}').trim().to_string();
                let n = self.uuids.len();
                self.uuids.entry(u).or_insert(n).to_string()
            }
            None => "-".into(),
        };
        format!("{kind} {uid}")
    }

    fn drops_text(&self) -> String {
        if self.objs.is_empty() {
            "-".into()
        } else {
            self.objs.iter().map(|o| o.drops.load(Ordering::SeqCst).to_string()).collect::<Vec<_>>().join(",")
        }
    }

    /// Executes one op line (without result) and returns the result text.
    async fn exec(&mut self, w: &[&str]) -> String {
        match w[0] {
            "create" => {
                let ep: usize = w[1].parse().unwrap();
                let _ = ep;
                let tag: u64 = w[2].parse().unwrap();
                let nonce: u64 = w[3].parse().unwrap();
                let provided = w[4] == "1";
                let drops = Arc::new(AtomicUsize::new(0));
                let (h, p) = make_handle(tag, nonce, drops.clone(), provided);
                self.objs.push(ObjRec { drops, provider: p });
                self.slots.push(Some(h));
                format!("{} {}", self.slots.len() - 1, self.objs.len() - 1)
            }
            "clone" => {
                let s: usize = w[1].parse().unwrap();
                match self.slots.get(s).and_then(|x| x.as_ref()) {
                    Some(h) => {
                        let c = h.clone();
                        self.slots.push(Some(c));
                        format!("{}", self.slots.len() - 1)
                    }
                    None => "err".into(),
                }
            }
            "send" => {
                let s: usize = w[1].parse().unwrap();
                let c: usize = w[2].parse().unwrap();
                let ep: usize = w[3].parse().unwrap();
                let via = w[4].chars().next().unwrap();
                let Some(h) = self.slots.get(s).and_then(|x| x.as_ref()).cloned() else { return "err".into() };
                let Some(conn) = self.conns.get_mut(c) else { return "err".into() };
                let Some(side) = conn.side_of(ep) else { return "err".into() };
                let dst = conn.eps[1 - side];
                let seq = self.msgs.len() as u64;
                let ok = if via == 'b' {
                    matches!(tokio::time::timeout(HOUR, conn.sides[side].btx.send(Packet::Item(Item::H(seq, h)))).await, Ok(Ok(())))
                } else {
                    matches!(tokio::time::timeout(HOUR, conn.sides[side].mtx.send(Item::H(seq, h))).await, Ok(Ok(_)))
                };
                if ok {
                    self.msgs.push(MsgRec { conn: c, dst, via, done: false });
                    format!("ok {seq}")
                } else {
                    "err".into()
                }
            }
            "recv" => {
                let m: usize = w[1].parse().unwrap();
                let Some(rec) = self.msgs.get(m) else { return "none".into() };
                if rec.done {
                    return "none".into();
                }
                let (c, dst, via) = (rec.conn, rec.dst, rec.via);
                let conn = &mut self.conns[c];
                let side = conn.side_of(dst).unwrap();
                let got = if via == 'b' {
                    match conn.sides[side].brx.as_mut() {
                        None => None,
                        Some(rx) => match tokio::time::timeout(HOUR, rx.recv()).await {
                            Ok(Ok(Some(Packet::Item(Item::H(seq, h))))) => Some((seq, h)),
                            _ => None,
                        },
                    }
                } else {
                    match tokio::time::timeout(HOUR, conn.sides[side].mrx.recv()).await {
                        Ok(Ok(Some(Item::H(seq, h)))) => Some((seq, h)),
                        _ => None,
                    }
                };
                self.msgs[m].done = true;
                match got {
                    Some((seq, h)) => {
                        let st = self.state_text(&h);
                        self.slots.push(Some(h));
                        let wrong = if seq as usize != m { format!(" wrong-message {seq}") } else { String::new() };
                        format!("{} {st}{wrong}", self.slots.len() - 1)
                    }
                    None => "none".into(),
                }
            }
            "loseq" => {
                // drop the base receiver of connection c at endpoint dst with everything queued in it
                let c: usize = w[1].parse().unwrap();
                let dst: usize = w[2].parse().unwrap();
                let conn = &mut self.conns[c];
                let side = conn.side_of(dst).unwrap();
                conn.sides[side].brx = None;
                let mut n = 0;
                for m in self.msgs.iter_mut() {
                    if m.conn == c && m.dst == dst && m.via == 'b' && !m.done {
                        m.done = true;
                        n += 1;
                    }
                }
                format!("{n}")
            }
            "access" => {
                let kind = w[1];
                let s: usize = w[2].parse().unwrap();
                let tag: u64 = w[3].parse().unwrap();
                let Some(slot) = self.slots.get_mut(s) else { return "err".into() };
                if slot.is_none() {
                    return "err".into();
                }
                match tag {
                    0 => access_at::<0>(slot, kind).await,
                    1 => access_at::<1>(slot, kind).await,
                    _ => access_at::<2>(slot, kind).await,
                }
            }
            "drop" => {
                let s: usize = w[1].parse().unwrap();
                match self.slots.get_mut(s) {
                    Some(x) if x.is_some() => {
                        *x = None;
                        "ok".into()
                    }
                    _ => "err".into(),
                }
            }
            "dropprov" => {
                let o: usize = w[1].parse().unwrap();
                match self.objs.get_mut(o).and_then(|o| o.provider.take()) {
                    Some(p) => {
                        drop(p);
                        "ok".into()
                    }
                    None => "err".into(),
                }
            }
            "keepprov" => {
                let o: usize = w[1].parse().unwrap();
                match self.objs.get_mut(o).and_then(|o| o.provider.take()) {
                    Some(p) => {
                        p.keep();
                        "ok".into()
                    }
                    None => "err".into(),
                }
            }
            "cut" => {
                let c: usize = w[1].parse().unwrap();
                match self.conns.get(c) {
                    Some(conn) if !conn.ctl.is_cut() => {
                        conn.ctl.do_cut();
                        for m in self.msgs.iter_mut() {
                            if m.conn == c {
                                m.done = true;
                            }
                        }
                        "ok".into()
                    }
                    _ => "err".into(),
                }
            }
            other => panic!("unknown op {other}"),
        }
    }
}

fn default_cfg() -> chmux::Cfg {
    chmux::Cfg { connection_timeout: None, ..Default::default() }
}

async fn run_handle_case(header: &[&str], ops: &[String], out: &mut Vec<String>) {
    // header: case <name> handle <neps> <conns>
    let conns = parse_conns(header[4]);
    let cfg = default_cfg();
    let mut cs = Vec::new();
    for (a, b) in &conns {
        cs.push(build_conn(*a, *b, &cfg, 4096).await);
    }
    settle().await;
    let mut w = HWorld { conns: cs, slots: Vec::new(), objs: Vec::new(), msgs: Vec::new(), uuids: HashMap::new() };
    for op in ops {
        if std::env::var("VERIF_DEBUG").is_ok() {
            eprintln!("DEBUG {} :: {op}", header[1]);
        }
        let words: Vec<&str> = op.split_whitespace().collect();
        let res = w.exec(&words).await;
        settle().await;
        out.push(format!("{op} = {res}"));
        out.push(format!("drops {}", w.drops_text()));
    }
}

// ------------------------------------------------------------------------------------------------
// lazy cases

enum LObj {
    None,
    V(Lazy<Vec<u8>>),
    B(LazyBlob),
}

enum LProv {
    None,
    V(remoc::robj::lazy::Provider),
    B(remoc::robj::lazy_blob::Provider),
}

struct LWorld {
    conns: Vec<Conn>,
    obj: LObj,
    prov: LProv,
    ep: usize,
    /// connections travelled, with the endpoint the object arrived at
    path: Vec<(usize, usize)>,
    data: Vec<u8>,
}

impl LWorld {
    async fn exec(&mut self, w: &[&str], r: &mut Rng) -> String {
        match w[0] {
            "lprovide" => {
                let kind = w[1];
                self.ep = w[2].parse().unwrap();
                let size: usize = w[3].parse().unwrap();
                let provided = w[4] == "1";
                self.data = r.bytes(size);
                match (kind, provided) {
                    ("v", true) => {
                        let (l, p) = Lazy::provided(self.data.clone());
                        self.obj = LObj::V(l);
                        self.prov = LProv::V(p);
                    }
                    ("v", false) => self.obj = LObj::V(Lazy::new(self.data.clone())),
                    (_, true) => {
                        let (l, p) = LazyBlob::provided(self.data.clone().into());
                        self.obj = LObj::B(l);
                        self.prov = LProv::B(p);
                    }
                    (_, false) => self.obj = LObj::B(LazyBlob::new(self.data.clone().into())),
                }
                hex(&self.data)
            }
            "lfwd" => {
                let c: usize = w[1].parse().unwrap();
                let via = w[2].chars().next().unwrap();
                let item = match std::mem::replace(&mut self.obj, LObj::None) {
                    LObj::V(l) => Item::L(l),
                    LObj::B(b) => Item::B(b),
                    LObj::None => return "err".into(),
                };
                let conn = &mut self.conns[c];
                let Some(side) = conn.side_of(self.ep) else { return "err".into() };
                let dst = conn.eps[1 - side];
                let (lo, hi) = conn.sides.split_at_mut(1);
                let (tx_side, rx_side) = if side == 0 { (&mut lo[0], &mut hi[0]) } else { (&mut hi[0], &mut lo[0]) };
                // send and receive concurrently (the item may be larger than the receive buffer)
                let got = if via == 'b' {
                    let Some(rx) = rx_side.brx.as_mut() else { return "err".into() };
                    let (sres, rres) = tokio::join!(
                        tokio::time::timeout(HOUR, tx_side.btx.send(Packet::Item(item))),
                        tokio::time::timeout(HOUR, rx.recv())
                    );
                    match (sres, rres) {
                        (Ok(Ok(())), Ok(Ok(Some(Packet::Item(i))))) => Some(i),
                        (s, r) => {
                            eprintln!("NOTE lfwd base: send {:?} recv ok={}", s.map(|x| x.map_err(|e| e.to_string())), matches!(r, Ok(Ok(Some(_)))));
                            None
                        }
                    }
                } else {
                    let (sres, rres) = tokio::join!(
                        tokio::time::timeout(HOUR, tx_side.mtx.send(item)),
                        tokio::time::timeout(HOUR, rx_side.mrx.recv())
                    );
                    match (sres, rres) {
                        (Ok(Ok(_)), Ok(Ok(Some(i)))) => Some(i),
                        (s, r) => {
                            eprintln!("NOTE lfwd mpsc: send ok={} recv ok={}", matches!(s, Ok(Ok(_))), matches!(r, Ok(Ok(Some(_)))));
                            None
                        }
                    }
                };
                match got {
                    Some(Item::L(l)) => self.obj = LObj::V(l),
                    Some(Item::B(b)) => self.obj = LObj::B(b),
                    _ => return "err".into(),
                }
                self.ep = dst;
                self.path.push((c, dst));
                "ok".into()
            }
            "lfetch" => {
                // optional cut: connection path[hop] may deliver only <budget> more bytes towards the consumer
                let armed = if w[1] != "-" && w[1].parse::<usize>().map(|h| h < self.path.len()).unwrap_or(false) {
                    let hop: usize = w[1].parse().unwrap();
                    let budget: i64 = w[2].parse().unwrap();
                    let (c, arrived) = self.path[hop];
                    let side = self.conns[c].side_of(arrived).unwrap();
                    self.conns[c].ctl.budget[side].store(budget, Ordering::SeqCst);
                    Some((c, side))
                } else {
                    None
                };
                let res = match &self.obj {
                    LObj::V(l) => match tokio::time::timeout(HOUR, l.get()).await {
                        Err(_) => "hang".into(),
                        Ok(Ok(v)) => format!("ok {} adv=-", hex(&v)),
                        Ok(Err(e)) => {
                            use remoc::robj::lazy::FetchError::*;
                            format!("err {}", match e { Dropped => "dropped", RemoteReceive(_) => "recv", RemoteConnect(_) => "connect", RemoteListen(_) => "listen" })
                        }
                    },
                    LObj::B(b) => {
                        let adv = b.len().map(|n| n.to_string()).unwrap_or("-".into());
                        match tokio::time::timeout(HOUR, b.get()).await {
                            Err(_) => "hang".into(),
                            Ok(Ok(v)) => format!("ok {} adv={adv}", hex(&Vec::from(v))),
                            Ok(Err(e)) => {
                                use remoc::robj::lazy_blob::FetchError::*;
                                format!("err {}", match e { Dropped => "dropped", Size(_) => "size", RemoteReceive(_) => "recv", RemoteConnect(_) => "connect" })
                            }
                        }
                    }
                    LObj::None => "err none".into(),
                };
                if let Some((c, side)) = armed {
                    if !self.conns[c].ctl.is_cut() {
                        self.conns[c].ctl.budget[side].store(-1, Ordering::SeqCst);
                    }
                }
                res
            }
            "lpoke" => {
                let n: usize = w[1].parse().unwrap_or(1);
                let waker = futures::task::noop_waker();
                let mut cx = std::task::Context::from_waker(&waker);
                macro_rules! poke {
                    ($fut:expr, $r:ident => $fmt:expr) => {{
                        let mut fut = Box::pin($fut);
                        let mut out = None;
                        for _ in 0..n {
                            if let std::task::Poll::Ready($r) = fut.as_mut().poll(&mut cx) {
                                out = Some($fmt);
                                break;
                            }
                            tokio::task::yield_now().await;
                        }
                        out
                    }};
                }
                let res: Option<String> = match &self.obj {
                    LObj::V(l) => poke!(l.get(), r => match r {
                        Ok(v) => format!("ok {} adv=-", hex(&v)),
                        Err(e) => {
                            use remoc::robj::lazy::FetchError::*;
                            format!("err {}", match e { Dropped => "dropped", RemoteReceive(_) => "recv", RemoteConnect(_) => "connect", RemoteListen(_) => "listen" })
                        }
                    }),
                    LObj::B(b) => {
                        let adv = b.len().map(|n| n.to_string()).unwrap_or("-".into());
                        poke!(b.get(), r => match r {
                            Ok(v) => format!("ok {} adv={adv}", hex(&Vec::from(v))),
                            Err(e) => {
                                use remoc::robj::lazy_blob::FetchError::*;
                                format!("err {}", match e { Dropped => "dropped", Size(_) => "size", RemoteReceive(_) => "recv", RemoteConnect(_) => "connect" })
                            }
                        })
                    }
                    LObj::None => Some("err none".into()),
                };
                res.unwrap_or_else(|| "pending".into())
            }
            "ldropprov" => {
                self.prov = LProv::None;
                "ok".into()
            }
            other => panic!("unknown lazy op {other}"),
        }
    }
}

fn kv(s: &str, key: &str) -> usize {
    s.strip_prefix(key).and_then(|x| x.strip_prefix('=')).and_then(|x| x.parse().ok()).unwrap_or_else(|| panic!("bad {key} in {s}"))
}

async fn run_lazy_case(header: &[&str], ops: &[String], out: &mut Vec<String>) {
    // header: case <name> lazy <neps> <conns> chunk=<n> buf=<n> dup=<n> dseed=<n>
    let conns = parse_conns(header[4]);
    let chunk = kv(header[5], "chunk");
    let buf = kv(header[6], "buf");
    let dup = kv(header[7], "dup");
    let dseed = kv(header[8], "dseed");
    // optional: max_data_size (above it chmux forwarders stream a message chunk by chunk)
    let mds = header.get(9).map(|s| kv(s, "mds")).unwrap_or(524_288);
    let cfg = chmux::Cfg {
        connection_timeout: None,
        chunk_size: chunk as u32,
        receive_buffer: buf as u32,
        max_data_size: mds,
        ..Default::default()
    };
    let mut cs = Vec::new();
    for (a, b) in &conns {
        cs.push(build_conn(*a, *b, &cfg, dup).await);
    }
    settle().await;
    let mut w = LWorld { conns: cs, obj: LObj::None, prov: LProv::None, ep: 0, path: Vec::new(), data: Vec::new() };
    let mut r = Rng::new(dseed as u64);
    for op in ops {
        if std::env::var("VERIF_DEBUG").is_ok() {
            eprintln!("DEBUG {} :: {op}", header[1]);
        }
        let words: Vec<&str> = op.split_whitespace().collect();
        let res = w.exec(&words, &mut r).await;
        settle().await;
        if words[0] == "lpoke" {
            // a `get()` that was polled a few times and dropped: if it completed it is an ordinary fetch, otherwise
            // it must leave no trace (cancel safety) and is not shown to the model
            if res != "pending" {
                out.push(format!("lfetch - - = {res}"));
            }
            continue;
        }
        out.push(format!("{op} = {res}"));
    }
}

// ------------------------------------------------------------------------------------------------
// generators

struct Stats(std::collections::BTreeMap<String, u64>);
impl Stats {
    fn hit(&mut self, k: &str) {
        *self.0.entry(k.to_string()).or_insert(0) += 1;
    }
}

fn gen_topology(r: &mut Rng) -> (usize, Vec<(usize, usize)>) {
    let neps = r.range(2, 3) as usize;
    let nconn = r.range(1, 3) as usize;
    let mut conns = Vec::new();
    for i in 0..nconn {
        let (a, b) = if neps == 2 {
            if r.bool() { (0, 1) } else { (1, 0) }
        } else if i < 2 && r.chance(2, 3) {
            // chain 0-1, 1-2 most of the time so that forwarding paths exist
            (i, i + 1)
        } else {
            let a = r.below(3) as usize;
            let b = (a + 1 + r.below(2) as usize) % 3;
            (a, b)
        };
        conns.push((a, b));
    }
    (neps, conns)
}

fn conns_text(conns: &[(usize, usize)]) -> String {
    conns.iter().map(|(a, b)| format!("{a}-{b}")).collect::<Vec<_>>().join(",")
}

/// Bookkeeping the handle generator needs to produce mostly valid ops (no model of remoc inside:
/// only where things are and what is still alive).
struct GenH {
    conns: Vec<(usize, usize)>,
    cut: Vec<bool>,
    lost_q: Vec<[bool; 2]>,
    slot_ep: Vec<usize>,
    slot_obj: Vec<usize>,
    slot_live: Vec<bool>,
    obj_ep: Vec<usize>,
    obj_tag: Vec<u64>,
    obj_prov: Vec<bool>,
    /// (msg, conn, dst, obj) of base-channel messages not yet received, FIFO per (conn, dst)
    pending: VecDeque<(usize, usize, usize, usize)>,
    nmsg: usize,
    nonce: u64,
}

impl GenH {
    fn live(&self) -> Vec<usize> {
        (0..self.slot_live.len()).filter(|&i| self.slot_live[i]).collect()
    }
    fn conns_at(&self, ep: usize, allow_cut: bool) -> Vec<usize> {
        (0..self.conns.len()).filter(|&c| (self.conns[c].0 == ep || self.conns[c].1 == ep) && (allow_cut || !self.cut[c])).collect()
    }
    fn other(&self, c: usize, ep: usize) -> usize {
        if self.conns[c].0 == ep { self.conns[c].1 } else { self.conns[c].0 }
    }
    fn side(&self, c: usize, ep: usize) -> usize {
        if self.conns[c].0 == ep { 0 } else { 1 }
    }
}

fn gen_handle_case(r: &mut Rng, name: &str, stats: &mut Stats, long: bool) -> (String, Vec<String>) {
    let (neps, conns) = gen_topology(r);
    let header = format!("case {name} handle {neps} {}", conns_text(&conns));
    let mut g = GenH {
        cut: vec![false; conns.len()],
        lost_q: vec![[false; 2]; conns.len()],
        conns,
        slot_ep: vec![],
        slot_obj: vec![],
        slot_live: vec![],
        obj_ep: vec![],
        obj_tag: vec![],
        obj_prov: vec![],
        pending: VecDeque::new(),
        nmsg: 0,
        nonce: r.range(1000, 9000) * 1000,
    };
    let mut ops: Vec<String> = Vec::new();
    let nops = if long { r.range(30, 90) } else { r.range(8, 36) };

    // helpers as closures over g are awkward with the borrow checker: plain fns on (g, ops)
    fn create(g: &mut GenH, ops: &mut Vec<String>, r: &mut Rng, neps: usize, stats: &mut Stats) {
        let ep = r.below(neps as u64) as usize;
        let tag = r.below(3);
        let provided = r.chance(2, 5);
        g.nonce += 1;
        ops.push(format!("create {ep} {tag} {} {}", g.nonce, provided as u8));
        g.obj_ep.push(ep);
        g.obj_tag.push(tag);
        g.obj_prov.push(provided);
        g.slot_ep.push(ep);
        g.slot_obj.push(g.obj_ep.len() - 1);
        g.slot_live.push(true);
        stats.hit(if provided { "op_create_provided" } else { "op_create_kept" });
    }
    fn recv_msg(g: &mut GenH, ops: &mut Vec<String>, idx: usize, stats: &mut Stats) {
        let (m, _c, dst, obj) = g.pending.remove(idx).unwrap();
        ops.push(format!("recv {m}"));
        g.slot_ep.push(dst);
        g.slot_obj.push(obj);
        g.slot_live.push(true);
        stats.hit(if dst == g.obj_ep[obj] { "op_recv_home" } else { "op_recv_abroad" });
    }
    fn send(g: &mut GenH, ops: &mut Vec<String>, r: &mut Rng, s: usize, c: usize, via: char, stats: &mut Stats) {
        let ep = g.slot_ep[s];
        let dst = g.other(c, ep);
        ops.push(format!("send {s} {c} {ep} {via}"));
        if g.cut[c] {
            stats.hit("op_send_on_cut");
            return;
        }
        let m = g.nmsg;
        g.nmsg += 1;
        stats.hit(if via == 'b' { "op_send_base" } else { "op_send_mpsc" });
        if via == 'm' {
            // rch::mpsc: delivered in the same breath
            ops.push(format!("recv {m}"));
            g.slot_ep.push(dst);
            g.slot_obj.push(g.slot_obj[s]);
            g.slot_live.push(true);
            stats.hit(if dst == g.obj_ep[g.slot_obj[s]] { "op_recv_home" } else { "op_recv_abroad" });
        } else {
            g.pending.push_back((m, c, dst, g.slot_obj[s]));
            // most of the time receive soon
            if r.chance(3, 5) {
                let first = g.pending.iter().position(|p| p.1 == c && p.2 == dst).unwrap();
                recv_msg(g, ops, first, stats);
            }
        }
    }

    create(&mut g, &mut ops, r, neps, stats);
    while ops.len() < nops as usize {
        let live = g.live();
        let k = r.below(100);
        if live.is_empty() || k < 8 {
            create(&mut g, &mut ops, r, neps, stats);
        } else if k < 16 {
            let s = *r.pick(&live);
            ops.push(format!("clone {s}"));
            g.slot_ep.push(g.slot_ep[s]);
            g.slot_obj.push(g.slot_obj[s]);
            g.slot_live.push(true);
            stats.hit("op_clone");
        } else if k < 46 {
            let s = *r.pick(&live);
            let ep = g.slot_ep[s];
            let allow_cut = r.chance(1, 12);
            let cs = g.conns_at(ep, allow_cut);
            if cs.is_empty() {
                continue;
            }
            // prefer the way home
            let home = g.obj_ep[g.slot_obj[s]];
            let homeward: Vec<usize> = cs.iter().copied().filter(|&c| g.other(c, ep) == home).collect();
            let c = if !homeward.is_empty() && r.chance(3, 5) { *r.pick(&homeward) } else { *r.pick(&cs) };
            let dst = g.other(c, ep);
            let base_ok = !g.lost_q[c][g.side(c, dst)];
            let via = if base_ok && r.chance(3, 5) { 'b' } else { 'm' };
            send(&mut g, &mut ops, r, s, c, via, stats);
        } else if k < 56 {
            // receive the oldest message of some queue
            if g.pending.is_empty() {
                continue;
            }
            let pick = r.below(g.pending.len() as u64) as usize;
            let (_, c, dst, _) = g.pending[pick];
            let first = g.pending.iter().position(|p| p.1 == c && p.2 == dst).unwrap();
            recv_msg(&mut g, &mut ops, first, stats);
        } else if k < 80 {
            let s = *r.pick(&live);
            let tag = if r.chance(7, 10) { g.obj_tag[g.slot_obj[s]] } else { (g.obj_tag[g.slot_obj[s]] + 1 + r.below(2)) % 3 };
            let kind = match r.below(10) {
                0 | 1 => "into",
                2..=5 => "ref",
                _ => "mut",
            };
            ops.push(format!("access {kind} {s} {tag}"));
            if kind == "into" {
                g.slot_live[s] = false;
            }
            stats.hit(&format!("op_access_{kind}_{}", if tag == g.obj_tag[g.slot_obj[s]] { "righttype" } else { "wrongtype" }));
            stats.hit(if g.slot_ep[s] == g.obj_ep[g.slot_obj[s]] { "access_on_creator_ep" } else { "access_on_foreign_ep" });
        } else if k < 90 {
            let s = *r.pick(&live);
            ops.push(format!("drop {s}"));
            g.slot_live[s] = false;
            stats.hit("op_drop");
        } else if k < 94 {
            let provs: Vec<usize> = (0..g.obj_prov.len()).filter(|&o| g.obj_prov[o]).collect();
            if provs.is_empty() {
                continue;
            }
            let o = *r.pick(&provs);
            g.obj_prov[o] = false;
            if r.chance(4, 5) {
                ops.push(format!("dropprov {o}"));
                stats.hit("op_dropprov");
            } else {
                ops.push(format!("keepprov {o}"));
                stats.hit("op_keepprov");
            }
        } else if k < 97 {
            let cs: Vec<usize> = (0..g.conns.len()).filter(|&c| !g.cut[c]).collect();
            if cs.len() < 2 && !r.chance(1, 3) {
                continue;
            }
            if cs.is_empty() {
                continue;
            }
            let c = *r.pick(&cs);
            ops.push(format!("cut {c}"));
            g.cut[c] = true;
            g.pending.retain(|p| p.1 != c);
            stats.hit("op_cut");
        } else {
            // drop a base receiver with what is queued in it
            let cs: Vec<usize> = (0..g.conns.len()).filter(|&c| !g.cut[c]).collect();
            if cs.is_empty() {
                continue;
            }
            let c = *r.pick(&cs);
            let dst = if r.bool() { g.conns[c].0 } else { g.conns[c].1 };
            let side = g.side(c, dst);
            if g.lost_q[c][side] {
                continue;
            }
            g.lost_q[c][side] = true;
            ops.push(format!("loseq {c} {dst}"));
            g.pending.retain(|p| !(p.1 == c && p.2 == dst));
            stats.hit("op_loseq");
        }
    }
    // tail: receive what can be received, look at everything once more, then let go of everything
    while !g.pending.is_empty() {
        recv_msg(&mut g, &mut ops, 0, stats);
    }
    for s in g.live() {
        ops.push(format!("access ref {s} {}", g.obj_tag[g.slot_obj[s]]));
    }
    if r.chance(4, 5) {
        let mut live = g.live();
        while !live.is_empty() {
            let i = r.below(live.len() as u64) as usize;
            let s = live.swap_remove(i);
            ops.push(format!("drop {s}"));
        }
        stats.hit("case_drops_everything");
    } else {
        stats.hit("case_keeps_some_handles");
    }
    stats.hit(&format!("topology_{}eps_{}conns", neps, g.conns.len()));
    (header, ops)
}

const CHUNKS: &[usize] = &[16, 32, 64, 100, 256];
const BUFS: &[usize] = &[16, 64, 100, 500, 4096];

fn gen_lazy_case(r: &mut Rng, name: &str, stats: &mut Stats, long: bool) -> (String, Vec<String>) {
    // a chain 0-1-2 (+ sometimes a second link) so that 0..2 forwards are possible
    let neps = 3;
    let conns = vec![(0usize, 1usize), (1, 2)];
    let chunk = *r.pick(CHUNKS);
    let buf = *r.pick(BUFS);
    let dup = *r.pick(&[64usize, 300, 4096, 65536]);
    let kind = if r.bool() { "v" } else { "b" };
    // blobs: a small max_data_size makes the forwarding hops stream the blob frame by frame
    let mds = if kind == "b" { *r.pick(&[256usize, 1024, 524_288]) } else { 524_288 };
    let header = format!(
        "case {name} lazy {neps} {} chunk={chunk} buf={buf} dup={dup} dseed={} mds={mds}",
        conns_text(&conns),
        r.below(1_000_000)
    );
    // sizes around the chunk size, the receive buffer and multiples
    let base = *r.pick(&[0usize, 1, chunk - 1, chunk, chunk + 1, 2 * chunk, 2 * chunk + 1, buf - 1, buf, buf + 1, 3 * buf + 7, 5 * chunk + 3]);
    let size = if long && r.chance(1, 4) { base + r.below(20_000) as usize } else if r.chance(1, 5) { base + r.below(3000) as usize } else { base };
    let provided = r.chance(1, 2);
    let mut ops = vec![format!("lprovide {kind} 0 {size} {}", provided as u8)];
    let hops = r.below(3) as usize;
    let mut early_fetch = false;
    if r.chance(1, 8) {
        // fetch before forwarding: the provider of a Lazy<T> is used up afterwards
        ops.push("lfetch - -".into());
        early_fetch = true;
    }
    for h in 0..hops {
        ops.push(format!("lfwd {h} {}", if r.bool() { 'b' } else { 'm' }));
    }
    let mut prov_dropped = false;
    if provided && r.chance(1, 5) {
        ops.push("ldropprov".into());
        prov_dropped = true;
    }
    let cutting = hops > 0 && r.chance(1, 2);
    if cutting {
        let hop = r.below(hops as u64) as usize;
        let budget = match r.below(6) {
            0 => 0,
            1 => r.below(8) as usize,
            2 => size / 2,
            3 => size.saturating_sub(1),
            4 => size + r.below(64) as usize,
            _ => r.below(size as u64 + 200) as usize,
        };
        ops.push(format!("lfetch {hop} {budget}"));
        stats.hit("lazy_fetch_with_cut");
    } else {
        if hops > 0 && r.chance(1, 2) {
            // a fetch that is started and dropped after a few polls; the fetch that follows must still succeed
            ops.push(format!("lpoke {}", r.range(1, 4)));
            stats.hit("lazy_fetch_poked");
        }
        ops.push("lfetch - -".into());
        stats.hit("lazy_fetch_plain");
    }
    if r.chance(1, 2) {
        ops.push("lfetch - -".into());
        stats.hit("lazy_fetch_again_cached");
    }
    if !cutting && hops < 2 && r.chance(1, 3) {
        ops.push(format!("lfwd {hops} m"));
        ops.push("lfetch - -".into());
        stats.hit("lazy_forward_after_fetch");
    }
    stats.hit(&format!("lazy_kind_{kind}"));
    if kind == "b" {
        stats.hit(&format!("lazy_blob_{}", if size > mds { "streamed_by_forwarders" } else { "forwarded_whole" }));
    }
    stats.hit(&format!("lazy_hops_{hops}"));
    stats.hit(&format!("lazy_size_vs_chunk_{}", if size < chunk { "below" } else if size == chunk { "equal" } else { "above" }));
    stats.hit(&format!("lazy_size_vs_buf_{}", if size < buf { "below" } else if size == buf { "equal" } else { "above" }));
    if prov_dropped {
        stats.hit("lazy_provider_dropped");
    }
    if early_fetch {
        stats.hit("lazy_fetch_before_forward");
    }
    (header, ops)
}

// ------------------------------------------------------------------------------------------------

fn run_case(header: &str, ops: &[String]) -> Vec<String> {
    let mut out = vec![header.to_string()];
    let hw: Vec<&str> = header.split_whitespace().collect();
    let rt = tokio::runtime::Builder::new_current_thread().enable_time().start_paused(true).build().unwrap();
    let mut lines = Vec::new();
    let res = std::panic::catch_unwind(AssertUnwindSafe(|| {
        rt.block_on(async {
            let fut = async {
                if hw[2] == "handle" { run_handle_case(&hw, ops, &mut lines).await } else { run_lazy_case(&hw, ops, &mut lines).await }
            };
            AssertUnwindSafe(fut).catch_unwind().await
        })
    }));
    out.append(&mut lines);
    match res {
        Ok(Ok(())) => {}
        _ => out.push("panic".into()),
    }
    rt.shutdown_background();
    out.push("end".into());
    out
}

fn main() {
    let args: Vec<String> = std::env::args().collect();
    std::panic::set_hook(Box::new(|info| {
        eprintln!("PANIC {}", info.to_string().replace('\n', " "));
    }));
    let out = std::io::stdout();
    let mut out = std::io::BufWriter::new(out.lock());
    match args.get(1).map(|s| s.as_str()) {
        Some("gen") => {
            let nh: u64 = args.get(2).and_then(|s| s.parse().ok()).unwrap_or(100);
            let nl: u64 = args.get(3).and_then(|s| s.parse().ok()).unwrap_or(100);
            let long = std::env::var("VERIF_TIER").map(|t| t == "thorough").unwrap_or(false);
            let mut rng = Rng::from_env();
            let mut stats = Stats(Default::default());
            for i in 0..nh {
                let mut r = rng.fork();
                let (h, ops) = gen_handle_case(&mut r, &format!("h{i}"), &mut stats, long);
                if std::env::var("VERIF_DEBUG").is_ok() {
                    eprintln!("DEBUG {h}");
                }
                for l in run_case(&h, &ops) {
                    writeln!(out, "{l}").unwrap();
                }
                out.flush().unwrap();
            }
            for i in 0..nl {
                let mut r = rng.fork();
                let (h, ops) = gen_lazy_case(&mut r, &format!("l{i}"), &mut stats, long);
                if std::env::var("VERIF_DEBUG").is_ok() {
                    eprintln!("DEBUG {h}");
                }
                for l in run_case(&h, &ops) {
                    writeln!(out, "{l}").unwrap();
                }
                out.flush().unwrap();
            }
            for (k, v) in &stats.0 {
                eprintln!("STAT {k} {v}");
            }
        }
        Some("run") => {
            for f in &args[2..] {
                let text = std::fs::read_to_string(f).expect("script file");
                let mut header: Option<String> = None;
                let mut ops: Vec<String> = Vec::new();
                let flush = |header: &mut Option<String>, ops: &mut Vec<String>, out: &mut dyn Write| {
                    if let Some(h) = header.take() {
                        for l in run_case(&h, ops) {
                            writeln!(out, "{l}").unwrap();
                        }
                    }
                    ops.clear();
                };
                for line in text.lines() {
                    let line = line.trim();
                    if line.is_empty() || line.starts_with('#') || line.starts_with("drops") || line == "panic" {
                        continue;
                    }
                    if line.starts_with("case ") {
                        flush(&mut header, &mut ops, &mut out);
                        header = Some(line.to_string());
                    } else if line == "end" {
                        flush(&mut header, &mut ops, &mut out);
                    } else {
                        ops.push(line.split(" = ").next().unwrap().trim().to_string());
                    }
                }
                flush(&mut header, &mut ops, &mut out);
            }
        }
        _ => {
            eprintln!("usage: handle gen <handle-cases> <lazy-cases> | handle run <file>...");
            std::process::exit(2);
        }
    }
    out.flush().unwrap();
}
