//! C13 / C14 correspondence harness: drives the real `remoc::robs` collections, their
//! subscriptions and mirrors (in-process and across a real `remoc::Connect::io` connection over
//! `tokio::io::duplex`) and prints a trace for `lean/Driver/Robs.lean`.
//!
//! usage: robs c13 gen <cases-per-collection>     generated scenarios (seed from VERIF_SEED)
//!        robs c13 run <script-file>...           scenarios from script files (corpus, replays)
//!        robs c14 gen <cases-per-collection>     fault scenarios (lag, drop, max_size, cut)
//!        robs c14 run <script-file>...
//!
//! Trace vocabulary (one case = `case` … `end`):
//!   case <id> <vec|deque|map|set|list>
//!   init <contents>
//!   sub <sid> <snap|incr> <local|remote> <hand|mirror> [buf=<n>] [max=<n>]   subscription taken here
//!   op <operation text>        one call of the mutating API (printed after it ran)
//!   res <ok|panic>
//!   ev <event text>            events a probe subscription (taken before the first call) received
//!   state <contents> <done>    real contents after the call
//!   initial <sid> <contents>   `take_initial()` of a hand subscription
//!   recv <sid> <event|err:..|eof|pending>    results of `recv()` of a hand subscription, in order
//!   mirror <sid> <contents> complete=<b> done=<b> err=<-|..>     `borrow()` (or `detach()`) of a mirror
//!   end
//! Contents: `1,2,3` (`-` = empty); maps `k:v,…` sorted by key; sets sorted.

use std::{
    collections::{BTreeMap, HashMap, HashSet, VecDeque},
    fmt::Write as _,
    io::Write,
    panic::{AssertUnwindSafe, catch_unwind},
    time::Duration,
};

use remoc::{
    rch,
    robs::{
        RecvError,
        hash_map::{self as hm, HashMapEvent, HashMapSubscription, MirroredHashMap, ObservableHashMap},
        hash_set::{HashSetEvent, HashSetSubscription, MirroredHashSet, ObservableHashSet},
        list::{ListEvent, ListSubscription, MirroredList, ObservableList},
        vec::{MirroredVec, ObservableVec, VecEvent, VecSubscription},
        vec_deque::{MirroredVecDeque, ObservableVecDeque, VecDequeEvent, VecDequeSubscription},
    },
};
use verif_harness::prng::Rng;

type T = u8;

/// C14 runs: no retain predicates that overwrite kept values (finding F4 is C13's business)
static PURE_RETAIN: std::sync::atomic::AtomicBool = std::sync::atomic::AtomicBool::new(false);

// ------------------------------------------------------------------------------------------------
// text helpers
// ------------------------------------------------------------------------------------------------

fn list_text<I: IntoIterator<Item = T>>(xs: I) -> String {
    let v: Vec<String> = xs.into_iter().map(|x| x.to_string()).collect();
    if v.is_empty() { "-".into() } else { v.join(",") }
}

fn idx_text(xs: &HashSet<usize>) -> String {
    let mut v: Vec<usize> = xs.iter().copied().collect();
    v.sort();
    if v.is_empty() { "-".into() } else { v.iter().map(|x| x.to_string()).collect::<Vec<_>>().join(",") }
}

fn map_text(m: &HashMap<T, T>) -> String {
    let b: BTreeMap<T, T> = m.iter().map(|(k, v)| (*k, *v)).collect();
    if b.is_empty() { "-".into() } else { b.iter().map(|(k, v)| format!("{k}:{v}")).collect::<Vec<_>>().join(",") }
}

fn set_text(s: &HashSet<T>) -> String {
    let mut v: Vec<T> = s.iter().copied().collect();
    v.sort();
    list_text(v)
}

fn pairs_text(ps: &[(usize, T)]) -> String {
    if ps.is_empty() { "-".into() } else { ps.iter().map(|(k, v)| format!("{k}:{v}")).collect::<Vec<_>>().join(",") }
}

fn kv_text(ps: &[(T, T)]) -> String {
    if ps.is_empty() { "-".into() } else { ps.iter().map(|(k, v)| format!("{k}:{v}")).collect::<Vec<_>>().join(",") }
}

fn opt_text(w: Option<T>) -> String {
    match w {
        Some(x) => x.to_string(),
        None => "-".into(),
    }
}

fn parse_list(s: &str) -> Vec<T> {
    if s == "-" { vec![] } else { s.split(',').map(|x| x.parse().unwrap()).collect() }
}

fn parse_pairs<A: std::str::FromStr, B: std::str::FromStr>(s: &str) -> Vec<(A, B)>
where
    A::Err: std::fmt::Debug,
    B::Err: std::fmt::Debug,
{
    if s == "-" {
        vec![]
    } else {
        s.split(',')
            .map(|p| {
                let (a, b) = p.split_once(':').unwrap();
                (a.parse().unwrap(), b.parse().unwrap())
            })
            .collect()
    }
}

fn parse_opt(s: &str) -> Option<T> {
    if s == "-" { None } else { Some(s.parse().unwrap()) }
}

fn err_text(e: &RecvError) -> String {
    match e {
        RecvError::Closed => "Closed".into(),
        RecvError::Lagged => "Lagged".into(),
        RecvError::MaxSizeExceeded(n) => format!("MaxSizeExceeded({n})"),
        RecvError::RemoteReceive(_) => "RemoteReceive".into(),
        RecvError::RemoteConnect(_) => "RemoteConnect".into(),
        RecvError::RemoteListen(_) => "RemoteListen".into(),
        RecvError::InvalidIndex(i) => format!("InvalidIndex({i})"),
    }
}

// ------------------------------------------------------------------------------------------------
// statistics (input distribution), printed as STAT lines on stderr
// ------------------------------------------------------------------------------------------------

#[derive(Default)]
struct Stats(BTreeMap<String, u64>);

impl Stats {
    fn hit(&mut self, k: &str) {
        *self.0.entry(k.to_string()).or_default() += 1;
    }
    fn add(&mut self, k: &str, n: u64) {
        *self.0.entry(k.to_string()).or_default() += n;
    }
    fn print(&self) {
        for (k, v) in &self.0 {
            eprintln!("STAT {k} {v}");
        }
    }
}

// ------------------------------------------------------------------------------------------------
// the collection abstraction used by the scenario runners
// ------------------------------------------------------------------------------------------------

#[allow(async_fn_in_trait)]
trait Coll: Sized {
    const NAME: &'static str;
    /// only incremental subscriptions exist (list)
    const ONLY_INCR: bool = false;
    type Sub: remoc::RemoteSend;
    type Mirror;

    fn from_init(init: &str) -> Self;
    fn gen_init(r: &mut Rng) -> String;
    /// generate the text of one operation (without `done`), looking at the current contents
    fn gen_op(&self, r: &mut Rng, st: &mut Stats) -> String;
    /// execute one operation given as text; returns the text to print (with run-time details such as
    /// the iteration order the real hash container used); may panic
    fn exec(&mut self, op: &str) -> String;
    fn mark_done(&mut self);
    fn is_done(&self) -> bool;
    async fn contents(&self) -> String;
    #[allow(dead_code)]
    fn len_hint(&self) -> usize;

    fn subscribe(&self, incr: bool, buf: usize) -> Self::Sub;
    fn take_initial(sub: &mut Self::Sub) -> Option<String>;
    /// `recv()` as text: `Ok(Some(ev))` -> event text, `Ok(None)` -> `eof`, `Err(e)` -> `err:<e>`
    async fn recv(sub: &mut Self::Sub) -> String;
    fn mirror(sub: Self::Sub, max: usize) -> Self::Mirror;
    /// `Mirrored*::subscribe` / `subscribe_incremental` (not offered by the list mirror)
    async fn mirror_subscribe(m: &Self::Mirror, incr: bool, buf: usize) -> Option<Self::Sub>;
    /// `Mirrored*::subscribe*` started while the caller holds a `borrow()` guard of the same mirror across
    /// `during` (a call of the observed collection: the mirror's task is then waiting for the write lock with the
    /// event in its hand); the guard is released only after the subscription call has been polled once
    async fn subscribe_while_held(m: &Self::Mirror, incr: bool, buf: usize, during: &mut dyn FnMut()) -> Option<Self::Sub>;
    /// `borrow()`: contents, complete, done — or the stored error
    async fn borrow(m: &Self::Mirror) -> Result<(String, bool, bool), String>;
    async fn detach(m: Self::Mirror) -> String;
}

fn recv_text<E>(r: Result<Option<E>, RecvError>, f: impl Fn(&E) -> String) -> String {
    match r {
        Ok(Some(e)) => f(&e),
        Ok(None) => "eof".into(),
        Err(e) => format!("err:{}", err_text(&e)),
    }
}

// ---- small generator helpers --------------------------------------------------------------------

fn val(r: &mut Rng) -> T {
    r.below(8) as T
}

/// an index around `len`: mostly valid, sometimes `len`, rarely beyond
fn idx(r: &mut Rng, len: usize) -> usize {
    match r.below(10) {
        0 => len,
        1 => len + 1 + r.below(2) as usize,
        _ => {
            if len == 0 {
                0
            } else {
                r.below(len as u64) as usize
            }
        }
    }
}

fn opt_val(r: &mut Rng) -> Option<T> {
    if r.chance(3, 4) { Some(val(r)) } else { None }
}

fn mask_text(r: &mut Rng, len: usize, st: &mut Stats) -> String {
    // densities: keep most, keep few, all, none, random; sometimes shorter/longer than the vector
    let kind = r.below(6);
    let n = match r.below(6) {
        0 => len.saturating_sub(1),
        1 => len + 1,
        _ => len,
    };
    let m: Vec<bool> = (0..n)
        .map(|_| match kind {
            0 => true,
            1 => false,
            2 => r.chance(4, 5),
            3 => r.chance(1, 5),
            _ => r.bool(),
        })
        .collect();
    let removed = m.iter().take(len).filter(|b| !**b).count();
    let kept = len - removed;
    st.hit(if removed == 0 {
        "retain_noop"
    } else if kept < removed {
        "retain_emits_Retain"
    } else {
        "retain_emits_RetainNot"
    });
    if m.is_empty() { "-".into() } else { m.iter().map(|b| if *b { "1" } else { "0" }).collect::<Vec<_>>().join(",") }
}

fn parse_mask(s: &str) -> Vec<bool> {
    if s == "-" { vec![] } else { s.split(',').map(|x| x == "1").collect() }
}

/// distinct positions with values, in random order (drop order of the `RefMut`s)
fn iter_mut_text(r: &mut Rng, len: usize) -> String {
    let mut ps: Vec<(usize, T)> = Vec::new();
    for i in 0..len {
        if r.chance(2, 5) {
            ps.push((i, val(r)));
        }
    }
    for i in (1..ps.len()).rev() {
        let j = r.below(i as u64 + 1) as usize;
        ps.swap(i, j);
    }
    pairs_text(&ps)
}

// ------------------------------------------------------------------------------------------------
// Vec
// ------------------------------------------------------------------------------------------------

struct CVec(ObservableVec<T>);

fn vec_event_text(e: &VecEvent<T>) -> String {
    match e {
        VecEvent::Push(x) => format!("Push {x}"),
        VecEvent::Pop => "Pop".into(),
        VecEvent::Insert(i, x) => format!("Insert {i} {x}"),
        VecEvent::Set(i, x) => format!("Set {i} {x}"),
        VecEvent::Remove(i) => format!("Remove {i}"),
        VecEvent::SwapRemove(i) => format!("SwapRemove {i}"),
        VecEvent::Fill(x) => format!("Fill {x}"),
        VecEvent::Resize(n, x) => format!("Resize {n} {x}"),
        VecEvent::Truncate(n) => format!("Truncate {n}"),
        VecEvent::Retain(s) => format!("Retain {}", idx_text(s)),
        VecEvent::RetainNot(s) => format!("RetainNot {}", idx_text(s)),
        VecEvent::Clear => "Clear".into(),
        VecEvent::ShrinkToFit => "ShrinkToFit".into(),
        VecEvent::Done => "Done".into(),
        VecEvent::InitialComplete => "InitialComplete".into(),
    }
}

impl Coll for CVec {
    const NAME: &'static str = "vec";
    type Sub = VecSubscription<T>;
    type Mirror = MirroredVec<T>;

    fn from_init(init: &str) -> Self {
        CVec(ObservableVec::from(parse_list(init)))
    }
    fn gen_init(r: &mut Rng) -> String {
        let n = r.below(6) as usize;
        list_text((0..n).map(|_| val(r)))
    }
    fn gen_op(&self, r: &mut Rng, st: &mut Stats) -> String {
        let len = self.0.len();
        let shrink = len > 10;
        loop {
            let k = r.below(100);
            let s = match k {
                0..=11 if !shrink => format!("push {}", val(r)),
                12..=18 => "pop".into(),
                19..=27 => format!("get_mut {} {}", idx(r, len), opt_text(opt_val(r))),
                28..=34 => format!("iter_mut {}", iter_mut_text(r, len)),
                35..=43 if !shrink => format!("insert {} {}", idx(r, len), val(r)),
                44..=51 => format!("remove {}", idx(r, len)),
                52..=59 => format!("swap_remove {}", idx(r, len)),
                60..=62 => format!("fill {}", val(r)),
                63..=69 => format!("resize {} {}", r.below(len as u64 + 3).min(12), val(r)),
                70..=75 => format!("truncate {}", r.below(len as u64 + 2)),
                76..=78 => "clear".into(),
                79..=88 => format!("retain {}", mask_text(r, len, st)),
                89..=91 => "shrink_to_fit".into(),
                92..=99 if !shrink => format!("extend {}", list_text((0..r.below(4)).map(|_| val(r)))),
                _ => continue,
            };
            return s;
        }
    }
    fn exec(&mut self, op: &str) -> String {
        let w: Vec<&str> = op.split(' ').collect();
        let v = &mut self.0;
        match w[0] {
            "push" => v.push(w[1].parse().unwrap()),
            "pop" => {
                v.pop();
            }
            "get_mut" => {
                if let Some(mut r) = v.get_mut(w[1].parse().unwrap()) {
                    match parse_opt(w[2]) {
                        Some(x) => *r = x,
                        None => {
                            let _ = *r;
                        }
                    }
                }
            }
            "iter_mut" => {
                let ws: Vec<(usize, T)> = parse_pairs(w[1]);
                // take the RefMuts from both ends alternately, keep all alive, write, then drop in the given order
                let mut it = v.iter_mut();
                let n = it.len();
                let mut refs: Vec<Option<_>> = (0..n).map(|_| None).collect();
                let (mut lo, mut hi, mut front) = (0usize, n, true);
                while lo < hi {
                    if front {
                        refs[lo] = it.next();
                        lo += 1;
                    } else {
                        hi -= 1;
                        refs[hi] = it.next_back();
                    }
                    front = !front;
                }
                for (i, x) in &ws {
                    if let Some(Some(r)) = refs.get_mut(*i) {
                        **r = *x;
                    }
                }
                for (i, _) in &ws {
                    if let Some(r) = refs.get_mut(*i) {
                        drop(r.take());
                    }
                }
                for r in refs.iter() {
                    // the untouched ones are only read
                    if let Some(r) = r {
                        let _ = **r;
                    }
                }
            }
            "insert" => v.insert(w[1].parse().unwrap(), w[2].parse().unwrap()),
            "remove" => {
                v.remove(w[1].parse().unwrap());
            }
            "swap_remove" => {
                v.swap_remove(w[1].parse().unwrap());
            }
            "fill" => v.fill(w[1].parse().unwrap()),
            "resize" => v.resize(w[1].parse().unwrap(), w[2].parse().unwrap()),
            "truncate" => v.truncate(w[1].parse().unwrap()),
            "clear" => v.clear(),
            "retain" => {
                let mask = parse_mask(w[1]);
                let mut n = 0;
                v.retain(|_| {
                    let keep = mask.get(n).copied().unwrap_or(true);
                    n += 1;
                    keep
                });
            }
            "shrink_to_fit" => v.shrink_to_fit(),
            "extend" => v.extend(parse_list(w[1])),
            other => panic!("harness: unknown vec op {other}"),
        }
        op.to_string()
    }
    fn mark_done(&mut self) {
        self.0.done()
    }
    fn is_done(&self) -> bool {
        self.0.is_done()
    }
    async fn contents(&self) -> String {
        list_text(self.0.iter().copied())
    }
    fn len_hint(&self) -> usize {
        self.0.len()
    }
    fn subscribe(&self, incr: bool, buf: usize) -> Self::Sub {
        if incr { self.0.subscribe_incremental(buf) } else { self.0.subscribe(buf) }
    }
    fn take_initial(sub: &mut Self::Sub) -> Option<String> {
        sub.take_initial().map(list_text)
    }
    async fn recv(sub: &mut Self::Sub) -> String {
        recv_text(sub.recv().await, vec_event_text)
    }
    fn mirror(sub: Self::Sub, max: usize) -> Self::Mirror {
        sub.mirror(max)
    }
    async fn mirror_subscribe(m: &Self::Mirror, incr: bool, buf: usize) -> Option<Self::Sub> {
        if incr { m.subscribe_incremental(buf).await.ok() } else { m.subscribe(buf).await.ok() }
    }
    async fn subscribe_while_held(m: &Self::Mirror, incr: bool, buf: usize, during: &mut dyn FnMut()) -> Option<Self::Sub> {
        let guard = m.borrow().await.ok();
        during();
        settle().await;
        let mut fut = Box::pin(async move { if incr { m.subscribe_incremental(buf).await.ok() } else { m.subscribe(buf).await.ok() } });
        let first = std::future::poll_fn(|cx| std::task::Poll::Ready(fut.as_mut().poll(cx))).await;
        drop(guard);
        match first {
            std::task::Poll::Ready(x) => x,
            std::task::Poll::Pending => fut.await,
        }
    }
    async fn borrow(m: &Self::Mirror) -> Result<(String, bool, bool), String> {
        match m.borrow().await {
            Ok(r) => Ok((list_text(r.iter().copied()), r.is_complete(), r.is_done())),
            Err(e) => Err(err_text(&e)),
        }
    }
    async fn detach(m: Self::Mirror) -> String {
        list_text(m.detach().await)
    }
}

// ------------------------------------------------------------------------------------------------
// VecDeque
// ------------------------------------------------------------------------------------------------

struct CDeque(ObservableVecDeque<T>);

fn deque_event_text(e: &VecDequeEvent<T>) -> String {
    match e {
        VecDequeEvent::PushBack(x) => format!("PushBack {x}"),
        VecDequeEvent::PushFront(x) => format!("PushFront {x}"),
        VecDequeEvent::PopBack => "PopBack".into(),
        VecDequeEvent::PopFront => "PopFront".into(),
        VecDequeEvent::Insert(i, x) => format!("Insert {i} {x}"),
        VecDequeEvent::Set(i, x) => format!("Set {i} {x}"),
        VecDequeEvent::Remove(i) => format!("Remove {i}"),
        VecDequeEvent::SwapRemoveBack(i) => format!("SwapRemoveBack {i}"),
        VecDequeEvent::SwapRemoveFront(i) => format!("SwapRemoveFront {i}"),
        VecDequeEvent::Resize(n, x) => format!("Resize {n} {x}"),
        VecDequeEvent::Truncate(n) => format!("Truncate {n}"),
        VecDequeEvent::Retain(s) => format!("Retain {}", idx_text(s)),
        VecDequeEvent::RetainNot(s) => format!("RetainNot {}", idx_text(s)),
        VecDequeEvent::Clear => "Clear".into(),
        VecDequeEvent::ShrinkToFit => "ShrinkToFit".into(),
        VecDequeEvent::Done => "Done".into(),
        VecDequeEvent::InitialComplete => "InitialComplete".into(),
    }
}

impl Coll for CDeque {
    const NAME: &'static str = "deque";
    type Sub = VecDequeSubscription<T>;
    type Mirror = MirroredVecDeque<T>;

    fn from_init(init: &str) -> Self {
        CDeque(ObservableVecDeque::from(VecDeque::from(parse_list(init))))
    }
    fn gen_init(r: &mut Rng) -> String {
        let n = r.below(6) as usize;
        list_text((0..n).map(|_| val(r)))
    }
    fn gen_op(&self, r: &mut Rng, st: &mut Stats) -> String {
        let len = self.0.len();
        let shrink = len > 10;
        loop {
            let k = r.below(100);
            let s = match k {
                0..=7 if !shrink => format!("push_back {}", val(r)),
                8..=14 if !shrink => format!("push_front {}", val(r)),
                15..=19 => "pop_back".into(),
                20..=24 => "pop_front".into(),
                25..=32 => format!("get_mut {} {}", idx(r, len), opt_text(opt_val(r))),
                33..=38 => format!("iter_mut {}", iter_mut_text(r, len)),
                39..=46 if !shrink => format!("insert {} {}", idx(r, len), val(r)),
                47..=52 => format!("remove {}", idx(r, len)),
                53..=59 => format!("swap_remove_back {}", idx(r, len)),
                60..=66 => format!("swap_remove_front {}", idx(r, len)),
                67..=72 => format!("resize {} {}", r.below(len as u64 + 3).min(12), val(r)),
                73..=77 => format!("truncate {}", r.below(len as u64 + 2)),
                78..=80 => "clear".into(),
                81..=89 => format!("retain {}", mask_text(r, len, st)),
                90..=92 => "shrink_to_fit".into(),
                93..=99 if !shrink => format!("extend {}", list_text((0..r.below(4)).map(|_| val(r)))),
                _ => continue,
            };
            return s;
        }
    }
    fn exec(&mut self, op: &str) -> String {
        let w: Vec<&str> = op.split(' ').collect();
        let v = &mut self.0;
        match w[0] {
            "push_back" => v.push_back(w[1].parse().unwrap()),
            "push_front" => v.push_front(w[1].parse().unwrap()),
            "pop_back" => {
                v.pop_back();
            }
            "pop_front" => {
                v.pop_front();
            }
            "get_mut" => {
                if let Some(mut r) = v.get_mut(w[1].parse().unwrap()) {
                    match parse_opt(w[2]) {
                        Some(x) => *r = x,
                        None => {
                            let _ = *r;
                        }
                    }
                }
            }
            "iter_mut" => {
                let ws: Vec<(usize, T)> = parse_pairs(w[1]);
                let mut it = v.iter_mut();
                let n = it.len();
                let mut refs: Vec<Option<_>> = (0..n).map(|_| None).collect();
                let (mut lo, mut hi, mut front) = (0usize, n, false);
                while lo < hi {
                    if front {
                        refs[lo] = it.next();
                        lo += 1;
                    } else {
                        hi -= 1;
                        refs[hi] = it.next_back();
                    }
                    front = !front;
                }
                for (i, x) in &ws {
                    if let Some(Some(r)) = refs.get_mut(*i) {
                        **r = *x;
                    }
                }
                for (i, _) in &ws {
                    if let Some(r) = refs.get_mut(*i) {
                        drop(r.take());
                    }
                }
            }
            "insert" => v.insert(w[1].parse().unwrap(), w[2].parse().unwrap()),
            "remove" => {
                v.remove(w[1].parse().unwrap());
            }
            "swap_remove_back" => {
                v.swap_remove_back(w[1].parse().unwrap());
            }
            "swap_remove_front" => {
                v.swap_remove_front(w[1].parse().unwrap());
            }
            "resize" => v.resize(w[1].parse().unwrap(), w[2].parse().unwrap()),
            "truncate" => v.truncate(w[1].parse().unwrap()),
            "clear" => v.clear(),
            "retain" => {
                let mask = parse_mask(w[1]);
                let mut n = 0;
                v.retain(|_| {
                    let keep = mask.get(n).copied().unwrap_or(true);
                    n += 1;
                    keep
                });
            }
            "shrink_to_fit" => v.shrink_to_fit(),
            "extend" => v.extend(parse_list(w[1])),
            other => panic!("harness: unknown deque op {other}"),
        }
        op.to_string()
    }
    fn mark_done(&mut self) {
        self.0.done()
    }
    fn is_done(&self) -> bool {
        self.0.is_done()
    }
    async fn contents(&self) -> String {
        list_text(self.0.iter().copied())
    }
    fn len_hint(&self) -> usize {
        self.0.len()
    }
    fn subscribe(&self, incr: bool, buf: usize) -> Self::Sub {
        if incr { self.0.subscribe_incremental(buf) } else { self.0.subscribe(buf) }
    }
    fn take_initial(sub: &mut Self::Sub) -> Option<String> {
        sub.take_initial().map(list_text)
    }
    async fn recv(sub: &mut Self::Sub) -> String {
        recv_text(sub.recv().await, deque_event_text)
    }
    fn mirror(sub: Self::Sub, max: usize) -> Self::Mirror {
        sub.mirror(max)
    }
    async fn mirror_subscribe(m: &Self::Mirror, incr: bool, buf: usize) -> Option<Self::Sub> {
        if incr { m.subscribe_incremental(buf).await.ok() } else { m.subscribe(buf).await.ok() }
    }
    async fn subscribe_while_held(m: &Self::Mirror, incr: bool, buf: usize, during: &mut dyn FnMut()) -> Option<Self::Sub> {
        let guard = m.borrow().await.ok();
        during();
        settle().await;
        let mut fut = Box::pin(async move { if incr { m.subscribe_incremental(buf).await.ok() } else { m.subscribe(buf).await.ok() } });
        let first = std::future::poll_fn(|cx| std::task::Poll::Ready(fut.as_mut().poll(cx))).await;
        drop(guard);
        match first {
            std::task::Poll::Ready(x) => x,
            std::task::Poll::Pending => fut.await,
        }
    }
    async fn borrow(m: &Self::Mirror) -> Result<(String, bool, bool), String> {
        match m.borrow().await {
            Ok(r) => Ok((list_text(r.iter().copied()), r.is_complete(), r.is_done())),
            Err(e) => Err(err_text(&e)),
        }
    }
    async fn detach(m: Self::Mirror) -> String {
        list_text(m.detach().await)
    }
}

// ------------------------------------------------------------------------------------------------
// HashMap
// ------------------------------------------------------------------------------------------------

struct CMap(ObservableHashMap<T, T>);

fn map_event_text(e: &HashMapEvent<T, T>) -> String {
    match e {
        HashMapEvent::Set(k, v) => format!("Set {k} {v}"),
        HashMapEvent::Remove(k) => format!("Remove {k}"),
        HashMapEvent::Clear => "Clear".into(),
        HashMapEvent::ShrinkToFit => "ShrinkToFit".into(),
        HashMapEvent::Done => "Done".into(),
        HashMapEvent::InitialComplete => "InitialComplete".into(),
    }
}

fn key(r: &mut Rng) -> T {
    r.below(7) as T
}

impl CMap {
    fn present_key(&self, r: &mut Rng) -> T {
        // mostly a key that is present, sometimes any key
        let mut ks: Vec<T> = self.0.keys().copied().collect();
        ks.sort();
        if !ks.is_empty() && r.chance(3, 4) { ks[r.below(ks.len() as u64) as usize] } else { key(r) }
    }
}

impl Coll for CMap {
    const NAME: &'static str = "map";
    type Sub = HashMapSubscription<T, T>;
    type Mirror = MirroredHashMap<T, T>;

    fn from_init(init: &str) -> Self {
        let ps: Vec<(T, T)> = parse_pairs(init);
        CMap(ObservableHashMap::from(ps.into_iter().collect::<HashMap<T, T>>()))
    }
    fn gen_init(r: &mut Rng) -> String {
        let n = r.below(5) as usize;
        let m: HashMap<T, T> = (0..n).map(|_| (key(r), val(r))).collect();
        map_text(&m)
    }
    fn gen_op(&self, r: &mut Rng, st: &mut Stats) -> String {
        let k = r.below(100);
        match k {
            0..=11 => format!("insert {} {}", key(r), val(r)),
            12..=19 => format!("remove {}", self.present_key(r)),
            20..=22 => "clear".into(),
            23..=34 => {
                // retain: per key decision (written value or '-', keep flag); mutation of a kept value is
                // finding F4 and is generated in a minority of the retains only
                let mutating = r.chance(1, 4) && !PURE_RETAIN.load(std::sync::atomic::Ordering::Relaxed);
                let density = r.below(4);
                let mut ds: Vec<String> = Vec::new();
                for kk in 0..7u8 {
                    let keep = match density {
                        0 => true,
                        1 => false,
                        2 => r.chance(3, 4),
                        _ => r.bool(),
                    };
                    let w = if mutating && r.chance(1, 2) { Some(val(r)) } else { None };
                    ds.push(format!("{kk}:{}:{}", opt_text(w), keep as u8));
                }
                st.hit(if mutating { "map_retain_mutating_predicate" } else { "map_retain_pure_predicate" });
                format!("retain {}", ds.join(","))
            }
            35..=40 => format!("entry_insert {} {}", key(r), val(r)),
            41..=46 => format!("entry_remove {} {}", self.present_key(r), if r.bool() { "remove" } else { "remove_entry" }),
            47..=56 => {
                let via = *r.pick(&["or_insert", "or_insert_with", "or_insert_with_key", "or_default"]);
                let d = if via == "or_default" { 0 } else { val(r) };
                format!("entry_or_insert {} {} {} {}", key(r), d, opt_text(opt_val(r)), via)
            }
            57..=64 => format!("entry_and_modify {} {} {}", key(r), val(r), opt_text(if r.bool() { Some(val(r)) } else { None })),
            65..=70 => {
                format!("entry_get_mut {} {} {}", self.present_key(r), opt_text(opt_val(r)), if r.bool() { "get_mut" } else { "into_mut" })
            }
            71..=78 => format!("get_mut {} {}", self.present_key(r), opt_text(opt_val(r))),
            79..=86 => {
                let mut ks: Vec<T> = self.0.keys().copied().collect();
                ks.sort();
                let mut ps: Vec<(T, T)> = Vec::new();
                for k in ks {
                    if r.chance(1, 2) {
                        ps.push((k, val(r)));
                    }
                }
                for i in (1..ps.len()).rev() {
                    let j = r.below(i as u64 + 1) as usize;
                    ps.swap(i, j);
                }
                format!("iter_mut {}", kv_text(&ps))
            }
            87..=89 => "shrink_to_fit".into(),
            _ => {
                let n = r.below(4);
                let ps: Vec<(T, T)> = (0..n).map(|_| (key(r), val(r))).collect();
                format!("extend {}", kv_text(&ps))
            }
        }
    }
    fn exec(&mut self, op: &str) -> String {
        let w: Vec<&str> = op.split(' ').collect();
        let m = &mut self.0;
        match w[0] {
            "insert" => {
                m.insert(w[1].parse().unwrap(), w[2].parse().unwrap());
            }
            "remove" => {
                m.remove(&w[1].parse::<T>().unwrap());
            }
            "clear" => m.clear(),
            "retain" => {
                // decisions per key; the trace line lists the keys in the order the real map visited them
                let mut dec: HashMap<T, (Option<T>, bool)> = HashMap::new();
                if w[1] != "-" {
                    for p in w[1].split(',') {
                        let f: Vec<&str> = p.split(':').collect();
                        dec.insert(f[0].parse().unwrap(), (parse_opt(f[1]), f[2] == "1"));
                    }
                }
                let mut visits: Vec<String> = Vec::new();
                m.retain(|k, v| {
                    let (wv, keep) = dec.get(k).copied().unwrap_or((None, true));
                    if let Some(x) = wv {
                        *v = x;
                    }
                    visits.push(format!("{k}:{}:{}", opt_text(wv), keep as u8));
                    keep
                });
                return format!("retain {}", if visits.is_empty() { "-".into() } else { visits.join(",") });
            }
            "entry_insert" => {
                let v: T = w[2].parse().unwrap();
                match m.entry(w[1].parse().unwrap()) {
                    hm::Entry::Occupied(mut o) => {
                        o.insert(v);
                    }
                    hm::Entry::Vacant(vac) => {
                        vac.insert(v);
                    }
                }
            }
            "entry_remove" => match m.entry(w[1].parse().unwrap()) {
                hm::Entry::Occupied(o) => {
                    if w[2] == "remove" {
                        o.remove();
                    } else {
                        o.remove_entry();
                    }
                }
                hm::Entry::Vacant(vac) => {
                    let _ = vac.into_key();
                }
            },
            "entry_or_insert" => {
                let k: T = w[1].parse().unwrap();
                let d: T = w[2].parse().unwrap();
                let e = m.entry(k);
                let mut r = match w[4] {
                    "or_insert" => e.or_insert(d),
                    "or_insert_with" => e.or_insert_with(|| d),
                    "or_insert_with_key" => e.or_insert_with_key(|_| d),
                    "or_default" => {
                        assert_eq!(d, 0);
                        e.or_default()
                    }
                    other => panic!("harness: {other}"),
                };
                match parse_opt(w[3]) {
                    Some(x) => *r = x,
                    None => {
                        let _ = *r;
                    }
                }
            }
            "entry_and_modify" => {
                let v: T = w[2].parse().unwrap();
                let e = m.entry(w[1].parse().unwrap()).and_modify(|x| *x = v);
                if let Some(d) = parse_opt(w[3]) {
                    let r = e.or_insert(d);
                    let _ = *r;
                }
            }
            "entry_get_mut" => {
                if let hm::Entry::Occupied(mut o) = m.entry(w[1].parse().unwrap()) {
                    if w[3] == "get_mut" {
                        let mut r = o.get_mut();
                        match parse_opt(w[2]) {
                            Some(x) => *r = x,
                            None => {
                                let _ = *r;
                            }
                        }
                    } else {
                        let mut r = o.into_mut();
                        match parse_opt(w[2]) {
                            Some(x) => *r = x,
                            None => {
                                let _ = *r;
                            }
                        }
                    }
                }
            }
            "get_mut" => {
                if let Some(mut r) = m.get_mut(&w[1].parse::<T>().unwrap()) {
                    match parse_opt(w[2]) {
                        Some(x) => *r = x,
                        None => {
                            let _ = *r;
                        }
                    }
                }
            }
            "iter_mut" => {
                let ws: Vec<(T, T)> = parse_pairs(w[1]);
                // RefMut does not expose its key: the iteration order of iter() and iter_mut() on an
                // unmodified map is the same, so the keys are listed first
                let keys: Vec<T> = m.keys().copied().collect();
                let mut refs: Vec<Option<_>> = m.iter_mut().map(Some).collect();
                assert_eq!(keys.len(), refs.len());
                for (k, x) in &ws {
                    if let Some(p) = keys.iter().position(|kk| kk == k) {
                        if let Some(r) = refs[p].as_mut() {
                            **r = *x;
                        }
                    }
                }
                for (k, _) in &ws {
                    if let Some(p) = keys.iter().position(|kk| kk == k) {
                        drop(refs[p].take());
                    }
                }
            }
            "shrink_to_fit" => m.shrink_to_fit(),
            "extend" => {
                let ps: Vec<(T, T)> = parse_pairs(w[1]);
                m.extend(ps);
            }
            other => panic!("harness: unknown map op {other}"),
        }
        op.to_string()
    }
    fn mark_done(&mut self) {
        self.0.done()
    }
    fn is_done(&self) -> bool {
        self.0.is_done()
    }
    async fn contents(&self) -> String {
        map_text(&self.0)
    }
    fn len_hint(&self) -> usize {
        self.0.len()
    }
    fn subscribe(&self, incr: bool, buf: usize) -> Self::Sub {
        if incr { self.0.subscribe_incremental(buf) } else { self.0.subscribe(buf) }
    }
    fn take_initial(sub: &mut Self::Sub) -> Option<String> {
        sub.take_initial().map(|m| map_text(&m))
    }
    async fn recv(sub: &mut Self::Sub) -> String {
        recv_text(sub.recv().await, map_event_text)
    }
    fn mirror(sub: Self::Sub, max: usize) -> Self::Mirror {
        sub.mirror(max)
    }
    async fn mirror_subscribe(m: &Self::Mirror, incr: bool, buf: usize) -> Option<Self::Sub> {
        if incr { m.subscribe_incremental(buf).await.ok() } else { m.subscribe(buf).await.ok() }
    }
    async fn subscribe_while_held(m: &Self::Mirror, incr: bool, buf: usize, during: &mut dyn FnMut()) -> Option<Self::Sub> {
        let guard = m.borrow().await.ok();
        during();
        settle().await;
        let mut fut = Box::pin(async move { if incr { m.subscribe_incremental(buf).await.ok() } else { m.subscribe(buf).await.ok() } });
        let first = std::future::poll_fn(|cx| std::task::Poll::Ready(fut.as_mut().poll(cx))).await;
        drop(guard);
        match first {
            std::task::Poll::Ready(x) => x,
            std::task::Poll::Pending => fut.await,
        }
    }
    async fn borrow(m: &Self::Mirror) -> Result<(String, bool, bool), String> {
        match m.borrow().await {
            Ok(r) => Ok((map_text(&r), r.is_complete(), r.is_done())),
            Err(e) => Err(err_text(&e)),
        }
    }
    async fn detach(m: Self::Mirror) -> String {
        map_text(&m.detach().await)
    }
}

// ------------------------------------------------------------------------------------------------
// HashSet
// ------------------------------------------------------------------------------------------------

struct CSet(ObservableHashSet<T>);

fn set_event_text(e: &HashSetEvent<T>) -> String {
    match e {
        HashSetEvent::Set(x) => format!("Set {x}"),
        HashSetEvent::Remove(x) => format!("Remove {x}"),
        HashSetEvent::Clear => "Clear".into(),
        HashSetEvent::ShrinkToFit => "ShrinkToFit".into(),
        HashSetEvent::Done => "Done".into(),
        HashSetEvent::InitialComplete => "InitialComplete".into(),
    }
}

impl Coll for CSet {
    const NAME: &'static str = "set";
    type Sub = HashSetSubscription<T>;
    type Mirror = MirroredHashSet<T>;

    fn from_init(init: &str) -> Self {
        CSet(ObservableHashSet::from(parse_list(init).into_iter().collect::<HashSet<T>>()))
    }
    fn gen_init(r: &mut Rng) -> String {
        let n = r.below(5) as usize;
        let s: HashSet<T> = (0..n).map(|_| key(r)).collect();
        set_text(&s)
    }
    fn gen_op(&self, r: &mut Rng, st: &mut Stats) -> String {
        let k = r.below(100);
        match k {
            0..=19 => format!("insert {}", key(r)),
            20..=29 => format!("replace {}", key(r)),
            30..=44 => format!("remove {}", key(r)),
            45..=54 => format!("take {}", key(r)),
            55..=58 => "clear".into(),
            59..=78 => {
                let density = r.below(4);
                let ds: Vec<String> = (0..7u8)
                    .map(|kk| {
                        let keep = match density {
                            0 => true,
                            1 => false,
                            2 => r.chance(3, 4),
                            _ => r.bool(),
                        };
                        format!("{kk}:{}", keep as u8)
                    })
                    .collect();
                st.hit("set_retain");
                format!("retain {}", ds.join(","))
            }
            79..=83 => "shrink_to_fit".into(),
            _ => format!("extend {}", list_text((0..r.below(4)).map(|_| key(r)))),
        }
    }
    fn exec(&mut self, op: &str) -> String {
        let w: Vec<&str> = op.split(' ').collect();
        let s = &mut self.0;
        match w[0] {
            "insert" => {
                s.insert(w[1].parse().unwrap());
            }
            "replace" => {
                s.replace(w[1].parse().unwrap());
            }
            "remove" => {
                s.remove(&w[1].parse::<T>().unwrap());
            }
            "take" => {
                s.take(&w[1].parse::<T>().unwrap());
            }
            "clear" => s.clear(),
            "retain" => {
                let dec: HashMap<T, bool> =
                    parse_pairs::<T, u8>(w[1]).into_iter().map(|(k, b)| (k, b == 1)).collect();
                let mut visits: Vec<String> = Vec::new();
                s.retain(|k| {
                    let keep = dec.get(k).copied().unwrap_or(true);
                    visits.push(format!("{k}:{}", keep as u8));
                    keep
                });
                return format!("retain {}", if visits.is_empty() { "-".into() } else { visits.join(",") });
            }
            "shrink_to_fit" => s.shrink_to_fit(),
            "extend" => s.extend(parse_list(w[1])),
            other => panic!("harness: unknown set op {other}"),
        }
        op.to_string()
    }
    fn mark_done(&mut self) {
        self.0.done()
    }
    fn is_done(&self) -> bool {
        self.0.is_done()
    }
    async fn contents(&self) -> String {
        set_text(&self.0)
    }
    fn len_hint(&self) -> usize {
        self.0.len()
    }
    fn subscribe(&self, incr: bool, buf: usize) -> Self::Sub {
        if incr { self.0.subscribe_incremental(buf) } else { self.0.subscribe(buf) }
    }
    fn take_initial(sub: &mut Self::Sub) -> Option<String> {
        sub.take_initial().map(|s| set_text(&s))
    }
    async fn recv(sub: &mut Self::Sub) -> String {
        recv_text(sub.recv().await, set_event_text)
    }
    fn mirror(sub: Self::Sub, max: usize) -> Self::Mirror {
        sub.mirror(max)
    }
    async fn mirror_subscribe(m: &Self::Mirror, incr: bool, buf: usize) -> Option<Self::Sub> {
        if incr { m.subscribe_incremental(buf).await.ok() } else { m.subscribe(buf).await.ok() }
    }
    async fn subscribe_while_held(m: &Self::Mirror, incr: bool, buf: usize, during: &mut dyn FnMut()) -> Option<Self::Sub> {
        let guard = m.borrow().await.ok();
        during();
        settle().await;
        let mut fut = Box::pin(async move { if incr { m.subscribe_incremental(buf).await.ok() } else { m.subscribe(buf).await.ok() } });
        let first = std::future::poll_fn(|cx| std::task::Poll::Ready(fut.as_mut().poll(cx))).await;
        drop(guard);
        match first {
            std::task::Poll::Ready(x) => x,
            std::task::Poll::Pending => fut.await,
        }
    }
    async fn borrow(m: &Self::Mirror) -> Result<(String, bool, bool), String> {
        match m.borrow().await {
            Ok(r) => Ok((set_text(&r), r.is_complete(), r.is_done())),
            Err(e) => Err(err_text(&e)),
        }
    }
    async fn detach(m: Self::Mirror) -> String {
        set_text(&m.detach().await)
    }
}

// ------------------------------------------------------------------------------------------------
// List
// ------------------------------------------------------------------------------------------------

struct CList(ObservableList<T>);

fn list_event_text(e: &ListEvent<T>) -> String {
    match e {
        ListEvent::Push(x) => format!("Push {x}"),
        ListEvent::Done => "Done".into(),
        ListEvent::InitialComplete => "InitialComplete".into(),
    }
}

impl Coll for CList {
    const NAME: &'static str = "list";
    const ONLY_INCR: bool = true;
    type Sub = ListSubscription<T>;
    type Mirror = MirroredList<T>;

    fn from_init(init: &str) -> Self {
        CList(ObservableList::from(parse_list(init)))
    }
    fn gen_init(r: &mut Rng) -> String {
        let n = r.below(5) as usize;
        list_text((0..n).map(|_| val(r)))
    }
    fn gen_op(&self, r: &mut Rng, _st: &mut Stats) -> String {
        if r.chance(2, 3) { format!("push {}", val(r)) } else { format!("extend {}", list_text((0..r.below(5)).map(|_| val(r)))) }
    }
    fn exec(&mut self, op: &str) -> String {
        let w: Vec<&str> = op.split(' ').collect();
        match w[0] {
            "push" => self.0.push(w[1].parse().unwrap()),
            "extend" => self.0.extend(parse_list(w[1])),
            other => panic!("harness: unknown list op {other}"),
        }
        op.to_string()
    }
    fn mark_done(&mut self) {
        self.0.done()
    }
    fn is_done(&self) -> bool {
        self.0.is_done()
    }
    async fn contents(&self) -> String {
        let b = self.0.borrow().await;
        list_text(b.iter().copied())
    }
    fn len_hint(&self) -> usize {
        self.0.len()
    }
    fn subscribe(&self, _incr: bool, _buf: usize) -> Self::Sub {
        self.0.subscribe()
    }
    fn take_initial(_sub: &mut Self::Sub) -> Option<String> {
        None
    }
    async fn recv(sub: &mut Self::Sub) -> String {
        recv_text(sub.recv().await, list_event_text)
    }
    fn mirror(sub: Self::Sub, max: usize) -> Self::Mirror {
        sub.mirror(max)
    }
    async fn mirror_subscribe(_m: &Self::Mirror, _incr: bool, _buf: usize) -> Option<Self::Sub> {
        None
    }
    async fn subscribe_while_held(_m: &Self::Mirror, _incr: bool, _buf: usize, during: &mut dyn FnMut()) -> Option<Self::Sub> {
        during();
        None
    }
    async fn borrow(m: &Self::Mirror) -> Result<(String, bool, bool), String> {
        match m.borrow().await {
            Ok(r) => Ok((list_text(r.iter().copied()), r.is_complete(), r.is_done())),
            Err(e) => Err(err_text(&e)),
        }
    }
    async fn detach(m: Self::Mirror) -> String {
        list_text(m.detach().await)
    }
}

// ------------------------------------------------------------------------------------------------
// connection: the subscription travels through an rch::mpsc channel over Connect::io / duplex
// ------------------------------------------------------------------------------------------------

struct Link<S: remoc::RemoteSend> {
    tx: rch::mpsc::Sender<S>,
    rx: rch::mpsc::Receiver<S>,
    /// dropping this cuts the connection: both connection tasks are aborted and the duplex halves dropped
    tasks: Vec<tokio::task::JoinHandle<()>>,
}

impl<S: remoc::RemoteSend> Link<S> {
    async fn new() -> Self {
        let (a, b) = tokio::io::duplex(1 << 16);
        let (a_r, a_w) = tokio::io::split(a);
        let (b_r, b_w) = tokio::io::split(b);
        let cfg = remoc::Cfg::default();
        let fa = remoc::Connect::io::<_, _, rch::mpsc::Receiver<S>, (), remoc::codec::Default>(cfg.clone(), a_r, a_w);
        let fb = remoc::Connect::io::<_, _, (), rch::mpsc::Receiver<S>, remoc::codec::Default>(cfg, b_r, b_w);
        let (ra, rb) = tokio::join!(fa, fb);
        let (conn_a, mut base_tx, _base_rx_a) = ra.expect("connect a");
        let (conn_b, _base_tx_b, mut base_rx) = rb.expect("connect b");
        let ta = tokio::spawn(async move {
            let _ = conn_a.await;
        });
        let tb = tokio::spawn(async move {
            let _ = conn_b.await;
        });
        let (tx, rx) = rch::mpsc::channel::<S, _>(4);
        base_tx.send(rx).await.expect("send rx");
        let rx = base_rx.recv().await.expect("recv rx").expect("rx");
        Link { tx, rx, tasks: vec![ta, tb] }
    }

    /// move a subscription to the "other side"
    async fn transfer(&mut self, s: S) -> S {
        if self.tx.send(s).await.is_err() {
            panic!("harness: sending the subscription failed");
        }
        self.rx.recv().await.expect("recv sub").expect("sub")
    }

    fn cut(&mut self) {
        for t in self.tasks.drain(..) {
            t.abort();
        }
    }
}

/// let every task run until nothing can make progress (paused clock: the sleep returns at quiescence)
async fn settle() {
    tokio::time::sleep(Duration::from_nanos(1)).await;
}

/// `recv()` raced against quiescence
async fn recv_or_pending<C: Coll>(sub: &mut C::Sub) -> String {
    // First a `recv()` that is polled once and dropped if it is pending (a caller's `select!` / timeout losing
    // the race): a cancelled `recv` must not consume or skip anything.
    {
        let mut fut = Box::pin(C::recv(sub));
        let waker = futures::task::noop_waker();
        let mut cx = std::task::Context::from_waker(&waker);
        if let std::task::Poll::Ready(s) = fut.as_mut().poll(&mut cx) {
            return s;
        }
    }
    match tokio::time::timeout(Duration::from_millis(1), C::recv(sub)).await {
        Ok(s) => s,
        Err(_) => "pending".into(),
    }
}

// ------------------------------------------------------------------------------------------------
// C13 scenarios
// ------------------------------------------------------------------------------------------------

enum Holder<C: Coll> {
    Hand(C::Sub, bool),
    Mirror(C::Mirror),
}

/// Subscription obtained from a mirror (`Mirrored*::subscribe`): `<source sid> <mode> <where> <kind>`.
/// `race`: taken directly after a call of the collection, while the source mirror may still have events
/// of that call in flight (only the property predicate is checked for such subscriptions).
#[allow(clippy::too_many_arguments)]
async fn do_sub2<C: Coll>(
    rest: &str, race: bool, holders: &mut Vec<(usize, Holder<C>)>, link: &mut Option<Link<C::Sub>>, sid: &mut usize,
    f13: &mut HashSet<usize>, st: &mut Stats, out: &mut String, pre: Option<Option<C::Sub>>,
) {
    let w: Vec<&str> = rest.split(' ').collect();
    let src: usize = w[0].parse().unwrap();
    let incr = w[1] == "incr";
    let remote = w[2] == "remote";
    let is_mirror = w[3] == "mirror";
    let got = match pre {
        Some(got) => got,
        None => match holders.iter().find(|(s, _)| *s == src) {
            Some((_, Holder::Mirror(m))) if !f13.contains(&src) => C::mirror_subscribe(m, incr, 1_000_000).await,
            _ => None,
        },
    };
    if let Some(mut sub) = got {
        if remote {
            if link.is_none() {
                *link = Some(Link::new().await);
            }
            sub = link.as_mut().unwrap().transfer(sub).await;
        }
        let _ = writeln!(
            out,
            "sub {sid} {} {} {} src={src}{}",
            if incr { "incr" } else { "snap" },
            if remote { "remote" } else { "local" },
            if is_mirror { "mirror" } else { "hand" },
            if race { " race" } else { "" }
        );
        st.hit(&format!("sub2{}_{}_{}_{}", if race { "race" } else { "" }, w[1], w[2], w[3]));
        let src_done = match holders.iter().find(|(s, _)| *s == src) {
            Some((_, Holder::Mirror(m))) => matches!(C::borrow(m).await, Ok((_, _, true))),
            _ => false,
        };
        if (src_done || race) && incr && is_mirror {
            // (a racing incremental subscription may see the source's Done only later; never use it as a source)
            f13.insert(*sid);
        }
        if is_mirror {
            holders.push((*sid, Holder::Mirror(C::mirror(sub, 1_000_000))));
        } else {
            holders.push((*sid, Holder::Hand(sub, incr)));
        }
    } else {
        st.hit("sub2_unavailable");
    }
    *sid += 1;
}

/// Script lines: `init <c>`, `sub <snap|incr> <local|remote> <hand|mirror>`, `op <text>`, `done`,
/// `gen <n>` (n generated operations), in any order after `init`.
async fn run_c13<C: Coll>(id: &str, script: &[String], r: &mut Rng, st: &mut Stats, out: &mut String) {
    let _ = writeln!(out, "case {id} {}", C::NAME);
    let mut coll: Option<C> = None;
    let mut probe: Option<C::Sub> = None;
    let mut link: Option<Link<C::Sub>> = None;
    let mut holders: Vec<(usize, Holder<C>)> = Vec::new();
    let mut sid = 0usize;
    // mirrors hit by finding F13 (incremental subscription after done()): for hash containers what they hold
    // is an arbitrary single element, so they are not used as the source of further subscriptions
    let mut f13: HashSet<usize> = HashSet::new();

    // expand `gen` lines lazily so that generated operations can look at the live contents
    let mut queue: std::collections::VecDeque<String> = script.iter().cloned().collect();
    while let Some(line) = queue.pop_front() {
        let (cmd, rest) = line.split_once(' ').unwrap_or((line.as_str(), ""));
        match cmd {
            "init" => {
                let c = C::from_init(rest);
                let _ = writeln!(out, "init {rest}");
                let mut p = c.subscribe(false, 1_000_000);
                C::take_initial(&mut p);
                if C::ONLY_INCR {
                    // the probe of a list is served from position 0: read the initial elements away
                    settle().await;
                    loop {
                        let e = recv_or_pending::<C>(&mut p).await;
                        if e == "pending" || e == "eof" || e.starts_with("err:") {
                            break;
                        }
                    }
                }
                probe = Some(p);
                coll = Some(c);
            }
            "sub" => {
                let w: Vec<&str> = rest.split(' ').collect();
                let incr = w[0] == "incr" || C::ONLY_INCR;
                let remote = w[1] == "remote";
                let is_mirror = w[2] == "mirror";
                let c = coll.as_ref().unwrap();
                let mut sub = c.subscribe(incr, 1_000_000);
                if remote {
                    if link.is_none() {
                        link = Some(Link::new().await);
                    }
                    sub = link.as_mut().unwrap().transfer(sub).await;
                }
                let _ = writeln!(
                    out,
                    "sub {sid} {} {} {}",
                    if incr { "incr" } else { "snap" },
                    if remote { "remote" } else { "local" },
                    if is_mirror { "mirror" } else { "hand" }
                );
                st.hit(&format!("sub_{}_{}_{}", if incr { "incr" } else { "snap" }, w[1], w[2]));
                if c.is_done() {
                    st.hit(if incr { "sub_after_done_incr" } else { "sub_after_done_snap" });
                    if incr && is_mirror && !C::ONLY_INCR {
                        f13.insert(sid);
                    }
                }
                if is_mirror {
                    holders.push((sid, Holder::Mirror(C::mirror(sub, 1_000_000))));
                } else {
                    holders.push((sid, Holder::Hand(sub, incr)));
                }
                sid += 1;
            }
            "sub2" => {
                settle().await;
                do_sub2::<C>(rest, false, &mut holders, &mut link, &mut sid, &mut f13, st, out, None).await;
            }
            "sub2r" | "sub2h" => {
                // not directly after / around a call: same as sub2
                settle().await;
                do_sub2::<C>(rest, false, &mut holders, &mut link, &mut sid, &mut f13, st, out, None).await;
            }
            "gen" => {
                let c = coll.as_ref().unwrap();
                let n: usize = rest.parse().unwrap();
                if n > 0 {
                    let opline = if r.chance(1, 400) { "done".to_string() } else { format!("op {}", c.gen_op(r, st)) };
                    queue.push_front(format!("gen {}", n - 1));
                    queue.push_front(opline);
                }
            }
            "op" | "done" => {
                // `sub2h` right after this call: the call is made while a borrow() guard of the source mirror is held
                // and the subscription is requested before the guard is released
                while queue.front().map(|l| l == "gen 0").unwrap_or(false) {
                    queue.pop_front();
                }
                let held_line: Option<String> =
                    if queue.front().map(|l| l.starts_with("sub2h ")).unwrap_or(false) { queue.pop_front() } else { None };
                let c = coll.as_mut().unwrap();
                let was_done = c.is_done();
                let mut exec_call = |c: &mut C, out: &mut String, st: &mut Stats| -> Result<(), ()> {
                    if cmd == "done" {
                        c.mark_done();
                        let _ = writeln!(out, "op done");
                        st.hit("op_done");
                        Ok(())
                    } else {
                        let r = catch_unwind(AssertUnwindSafe(|| c.exec(rest)));
                        match r {
                            Ok(text) => {
                                let _ = writeln!(out, "op {text}");
                                Ok(())
                            }
                            Err(_) => {
                                let _ = writeln!(out, "op {rest}");
                                Err(())
                            }
                        }
                    }
                };
                let mut held_sub: Option<(String, Option<C::Sub>)> = None;
                let res = match &held_line {
                    Some(l) => {
                        let w: Vec<&str> = l[6..].split(' ').collect();
                        let src: usize = w[0].parse().unwrap();
                        let incr = w[1] == "incr";
                        let mut res = Ok(());
                        let mut ran = false;
                        let got = match holders.iter().find(|(s, _)| *s == src) {
                            Some((_, Holder::Mirror(m))) if !f13.contains(&src) => {
                                let mut during = || {
                                    res = exec_call(c, out, st);
                                    ran = true;
                                };
                                C::subscribe_while_held(m, incr, 1_000_000, &mut during).await
                            }
                            _ => None,
                        };
                        if !ran {
                            res = exec_call(c, out, st);
                        }
                        st.hit("sub2_held");
                        held_sub = Some((l[6..].to_string(), got));
                        res
                    }
                    None => exec_call(c, out, st),
                };
                if cmd == "op" {
                    st.hit(&format!("op_{}_{}", C::NAME, rest.split(' ').next().unwrap()));
                    if rest.starts_with("entry_or_insert") {
                        st.hit(&format!("via_{}", rest.rsplit(' ').next().unwrap()));
                    }
                }
                let _ = writeln!(out, "res {}", if res.is_ok() { "ok" } else { "panic" });
                if res.is_err() {
                    st.hit(if was_done { "panic_after_done" } else { "panic_index" });
                }
                while queue.front().map(|l| l == "gen 0").unwrap_or(false) {
                    queue.pop_front();
                }
                if let Some((l, got)) = held_sub.take() {
                    do_sub2::<C>(&l, true, &mut holders, &mut link, &mut sid, &mut f13, st, out, Some(got)).await;
                }
                while queue.front().map(|l| l.starts_with("sub2r ")).unwrap_or(false) {
                    let l = queue.pop_front().unwrap();
                    do_sub2::<C>(&l[6..], true, &mut holders, &mut link, &mut sid, &mut f13, st, out, None).await;
                }
                settle().await;
                let p = probe.as_mut().unwrap();
                let mut n_ev = 0;
                loop {
                    let e = recv_or_pending::<C>(p).await;
                    if e == "pending" || e == "eof" || e.starts_with("err:") {
                        if e.starts_with("err:") {
                            let _ = writeln!(out, "ev {e}");
                        }
                        break;
                    }
                    n_ev += 1;
                    let _ = writeln!(out, "ev {e}");
                }
                if n_ev == 0 && res.is_ok() && cmd == "op" {
                    st.hit("op_without_event");
                }
                st.add("events", n_ev);
                let _ = writeln!(out, "state {} {}", c.contents().await, c.is_done() as u8);
            }
            other => panic!("harness: bad script line {other}"),
        }
    }

    // everything has been sent; let the mirrors catch up and read the hand subscriptions dry
    settle().await;
    // nothing is dropped before everything has been read: dropping a mirror closes the subscriptions
    // obtained from it
    let mut errored: Vec<(usize, C::Mirror, String)> = Vec::new();
    let mut keep: Vec<C::Mirror> = Vec::new();
    let mut mirror_lines: Vec<(usize, String)> = Vec::new();
    for (sid, h) in holders.iter_mut() {
        if let Holder::Hand(sub, incr) = h {
            if !*incr {
                let init = C::take_initial(sub).unwrap_or_else(|| "?".into());
                let _ = writeln!(out, "initial {sid} {init}");
            }
            let mut n = 0;
            loop {
                let e = recv_or_pending::<C>(sub).await;
                let _ = writeln!(out, "recv {sid} {e}");
                n += 1;
                if e == "pending" || e == "eof" || e.starts_with("err:") || n > 100_000 {
                    break;
                }
            }
        }
    }
    settle().await;
    for (sid, h) in holders {
        if let Holder::Mirror(m) = h {
            match C::borrow(&m).await {
                Ok((c, complete, done)) => {
                    mirror_lines.push((sid, format!("mirror {sid} {c} complete={} done={} err=-", complete as u8, done as u8)));
                    keep.push(m);
                }
                Err(e) => errored.push((sid, m, e)),
            }
        }
    }
    for (sid, m, e) in errored {
        let c = C::detach(m).await;
        mirror_lines.push((sid, format!("mirror {sid} {c} complete=? done=? err={e}")));
    }
    mirror_lines.sort();
    for (_, l) in mirror_lines {
        let _ = writeln!(out, "{l}");
    }
    drop(keep);
    if let Some(mut l) = link {
        l.cut();
    }
    let _ = writeln!(out, "end");
}

/// A generated C13 script: subscriptions at random points of a random operation sequence.
fn gen_c13_script<C: Coll>(r: &mut Rng) -> Vec<String> {
    let mut s = vec![format!("init {}", C::gen_init(r))];
    let n_ops = match r.below(4) {
        0 => r.range(1, 8),
        1 => r.range(8, 25),
        _ => r.range(20, 60),
    } as usize;
    let n_subs = r.range(2, 5) as usize;
    // subscription points: positions in 0..=n_ops (and possibly after the final done)
    let mut points: Vec<usize> = (0..n_subs).map(|_| r.below(n_ops as u64 + 1) as usize).collect();
    points.sort();
    let end_done = r.chance(3, 5);
    let after_done_subs = if end_done && r.chance(1, 3) { r.range(1, 2) as usize } else { 0 };
    let sub_line = |r: &mut Rng| {
        format!(
            "sub {} {} {}",
            if r.bool() { "snap" } else { "incr" },
            if r.chance(2, 5) { "remote" } else { "local" },
            if r.chance(3, 5) { "mirror" } else { "hand" }
        )
    };
    let mut pos = 0;
    let mut mirrors: Vec<usize> = Vec::new();
    let mut n_sub = 0;
    for p in points {
        if p > pos {
            s.push(format!("gen {}", p - pos));
            pos = p;
            // a subscription obtained from one of the mirrors created so far
            if !mirrors.is_empty() && !C::ONLY_INCR && r.chance(1, 3) {
                let src = *r.pick(&mirrors);
                let l = sub_line(r);
                if l.ends_with("mirror") {
                    mirrors.push(n_sub);
                }
                s.push(format!("{} {src} {}", *r.pick(&["sub2r", "sub2", "sub2h"]), &l[4..]));
                n_sub += 1;
            }
        }
        let l = sub_line(r);
        if l.ends_with("mirror") {
            mirrors.push(n_sub);
        }
        n_sub += 1;
        s.push(l);
    }
    if n_ops > pos {
        s.push(format!("gen {}", n_ops - pos));
    }
    if end_done {
        s.push("done".into());
        for _ in 0..after_done_subs {
            s.push(sub_line(r));
        }
        if r.chance(1, 4) {
            // calls after done() panic and must not emit
            s.push("gen 2".into());
        }
    }
    s
}

fn run_case_c13(coll: &str, id: &str, script: &[String], r: &mut Rng, st: &mut Stats) -> String {
    let rt = tokio::runtime::Builder::new_current_thread().enable_time().start_paused(true).build().unwrap();
    let mut out = String::new();
    let res = catch_unwind(AssertUnwindSafe(|| {
        rt.block_on(async {
            match coll {
                "vec" => run_c13::<CVec>(id, script, r, st, &mut out).await,
                "deque" => run_c13::<CDeque>(id, script, r, st, &mut out).await,
                "map" => run_c13::<CMap>(id, script, r, st, &mut out).await,
                "set" => run_c13::<CSet>(id, script, r, st, &mut out).await,
                "list" => run_c13::<CList>(id, script, r, st, &mut out).await,
                other => panic!("harness: unknown collection {other}"),
            }
        })
    }));
    if res.is_err() {
        let _ = writeln!(out, "crash harness-or-library-panic");
        let _ = writeln!(out, "end");
    }
    out
}

// ------------------------------------------------------------------------------------------------
// C14 scenarios: lagging subscribers, collection dropped before done(), size limits, connection cut
// ------------------------------------------------------------------------------------------------

/// Script lines (after `init`):
///   `sub <snap|incr> <local|remote> <hand|mirror> buf=<n> max=<n>`
///   `op <text>` / `done` / `gen <n>`      one call, then settle
///   `b <text>` / `bdone` / `bgen <n>`     calls without settling in between (a burst)
///   `read <sid> <n>`                      up to n `recv()` of a hand subscription
///   `borrow <sid>`                        `borrow()` of a mirror
///   `drop`                                drop the collection (without `done()` unless called before)
///   `cut`                                 cut the connection
/// Extra trace lines: `dropped`, `cutdone`, `borrow <sid> <contents> complete=<b> done=<b> err=<-|e>`,
/// `final <sid> <contents>` (`detach()`).
async fn run_c14<C: Coll>(id: &str, script: &[String], r: &mut Rng, st: &mut Stats, out: &mut String) {
    let _ = writeln!(out, "case {id} {} c14", C::NAME);
    let mut coll: Option<C> = None;
    let mut probe: Option<C::Sub> = None;
    let mut link: Option<Link<C::Sub>> = None;
    let mut holders: Vec<(usize, Holder<C>)> = Vec::new();
    let mut sid = 0usize;
    let mut dirty = false;
    let mut queue: std::collections::VecDeque<String> = script.iter().cloned().collect();

    // settle, then report what the probe saw and the real contents
    async fn sync<C: Coll>(coll: &Option<C>, probe: &mut Option<C::Sub>, st: &mut Stats, out: &mut String) {
        settle().await;
        if let Some(p) = probe.as_mut() {
            let mut n = 0;
            loop {
                let e = recv_or_pending::<C>(p).await;
                if e == "pending" || e == "eof" {
                    break;
                }
                if e.starts_with("err:") {
                    let _ = writeln!(out, "probe {e}");
                    *probe = None;
                    break;
                }
                n += 1;
                let _ = writeln!(out, "ev {e}");
            }
            st.add("events", n);
        }
        if let Some(c) = coll.as_ref() {
            let _ = writeln!(out, "state {} {}", c.contents().await, c.is_done() as u8);
        }
    }

    while let Some(line) = queue.pop_front() {
        let (cmd, rest) = line.split_once(' ').unwrap_or((line.as_str(), ""));
        if dirty && !matches!(cmd, "b" | "bdone" | "bgen") {
            sync::<C>(&coll, &mut probe, st, out).await;
            dirty = false;
        }
        // echo the script (with generated operations expanded) so that a case can be replayed
        if !matches!(cmd, "gen" | "bgen" | "op" | "b") {
            let _ = writeln!(out, "cmd {line}");
        }
        match cmd {
            "init" => {
                let c = C::from_init(rest);
                let _ = writeln!(out, "init {rest}");
                let mut p = c.subscribe(false, 1_000_000);
                C::take_initial(&mut p);
                if C::ONLY_INCR {
                    settle().await;
                    loop {
                        let e = recv_or_pending::<C>(&mut p).await;
                        if e == "pending" || e == "eof" || e.starts_with("err:") {
                            break;
                        }
                    }
                }
                probe = Some(p);
                coll = Some(c);
            }
            "sub" => {
                let Some(c) = coll.as_ref() else { continue };
                let w: Vec<&str> = rest.split(' ').collect();
                let incr = w[0] == "incr" || C::ONLY_INCR;
                let remote = w[1] == "remote";
                let is_mirror = w[2] == "mirror";
                let opt = |k: &str, d: usize| -> usize {
                    w.iter().find_map(|t| t.strip_prefix(k)).map(|v| v.parse().unwrap()).unwrap_or(d)
                };
                let buf = opt("buf=", 1_000_000);
                let max = opt("max=", 1_000_000);
                let mut sub = c.subscribe(incr, buf);
                if remote {
                    if link.is_none() {
                        link = Some(Link::new().await);
                    }
                    sub = link.as_mut().unwrap().transfer(sub).await;
                }
                let _ = writeln!(
                    out,
                    "sub {sid} {} {} {} buf={buf} max={max}",
                    if incr { "incr" } else { "snap" },
                    if remote { "remote" } else { "local" },
                    if is_mirror { "mirror" } else { "hand" }
                );
                st.hit(&format!("c14_sub_{}_{}_{}", if incr { "incr" } else { "snap" }, w[1], w[2]));
                st.hit(&format!("c14_buf_{}", buf.min(9)));
                if is_mirror {
                    st.hit(&format!("c14_max_{}", max.min(99)));
                    holders.push((sid, Holder::Mirror(C::mirror(sub, max))));
                } else {
                    let mut sub = sub;
                    if !incr {
                        let init = C::take_initial(&mut sub).unwrap_or_else(|| "?".into());
                        let _ = writeln!(out, "initial {sid} {init}");
                    }
                    holders.push((sid, Holder::Hand(sub, incr)));
                }
                sid += 1;
            }
            "gen" | "bgen" => {
                if let Some(c) = coll.as_ref() {
                    let n: usize = rest.parse().unwrap();
                    if n > 0 {
                        let b = cmd == "bgen";
                        let opline =
                            if c.is_done() { None } else { Some(format!("{} {}", if b { "b" } else { "op" }, c.gen_op(r, st))) };
                        queue.push_front(format!("{cmd} {}", n - 1));
                        if let Some(l) = opline {
                            queue.push_front(l);
                        }
                    }
                }
            }
            "op" | "b" | "done" | "bdone" => {
                let Some(c) = coll.as_mut() else { continue };
                let is_done_cmd = cmd == "done" || cmd == "bdone";
                let res = if is_done_cmd {
                    c.mark_done();
                    let _ = writeln!(out, "op done");
                    Ok(())
                } else {
                    match catch_unwind(AssertUnwindSafe(|| c.exec(rest))) {
                        Ok(text) => {
                            let _ = writeln!(out, "cmd {cmd} {text}");
                            let _ = writeln!(out, "op {text}");
                            Ok(())
                        }
                        Err(_) => {
                            let _ = writeln!(out, "cmd {cmd} {rest}");
                            let _ = writeln!(out, "op {rest}");
                            Err(())
                        }
                    }
                };
                let _ = writeln!(out, "res {}", if res.is_ok() { "ok" } else { "panic" });
                st.hit(if cmd.starts_with('b') { "c14_burst_ops" } else { "c14_single_ops" });
                dirty = true;
                if cmd == "op" || cmd == "done" {
                    sync::<C>(&coll, &mut probe, st, out).await;
                    dirty = false;
                }
            }
            "read" => {
                let w: Vec<&str> = rest.split(' ').collect();
                let s: usize = w[0].parse().unwrap();
                let n: usize = w[1].parse().unwrap();
                if let Some((_, Holder::Hand(sub, _))) = holders.iter_mut().find(|(x, _)| *x == s) {
                    for _ in 0..n {
                        let e = recv_or_pending::<C>(sub).await;
                        let _ = writeln!(out, "recv {s} {e}");
                        if e == "pending" || e == "eof" {
                            break;
                        }
                    }
                    settle().await;
                }
            }
            "borrow" => {
                let s: usize = rest.parse().unwrap();
                if let Some((_, Holder::Mirror(m))) = holders.iter().find(|(x, _)| *x == s) {
                    match C::borrow(m).await {
                        Ok((c, complete, done)) => {
                            let _ = writeln!(out, "borrow {s} {c} complete={} done={} err=-", complete as u8, done as u8);
                        }
                        Err(e) => {
                            let _ = writeln!(out, "borrow {s} ? complete=? done=? err={e}");
                        }
                    }
                }
            }
            "drop" => {
                if coll.take().is_some() {
                    let _ = writeln!(out, "dropped");
                    st.hit("c14_drop");
                    sync::<C>(&coll, &mut probe, st, out).await;
                }
            }
            "cut" => {
                if let Some(l) = link.as_mut() {
                    l.cut();
                    let _ = writeln!(out, "cutdone");
                    st.hit("c14_cut");
                    settle().await;
                }
            }
            other => panic!("harness: bad c14 script line {other}"),
        }
    }
    if dirty {
        sync::<C>(&coll, &mut probe, st, out).await;
    }
    settle().await;
    // final reads: everything that can still be received, then the mirrors
    for (sid, h) in holders.iter_mut() {
        if let Holder::Hand(sub, _) = h {
            let mut n = 0;
            loop {
                let e = recv_or_pending::<C>(sub).await;
                let _ = writeln!(out, "recv {sid} {e}");
                n += 1;
                if e == "pending" || e == "eof" || n > 100_000 {
                    break;
                }
                // an error other than Lagged ends the subscription
                if e.starts_with("err:") && e != "err:Lagged" {
                    break;
                }
            }
        }
    }
    settle().await;
    let mut lines: Vec<String> = Vec::new();
    let mut mirrors: Vec<(usize, C::Mirror)> = Vec::new();
    for (sid, h) in holders {
        if let Holder::Mirror(m) = h {
            match C::borrow(&m).await {
                Ok((c, complete, done)) => {
                    lines.push(format!("borrow {sid} {c} complete={} done={} err=-", complete as u8, done as u8))
                }
                Err(e) => lines.push(format!("borrow {sid} ? complete=? done=? err={e}")),
            }
            mirrors.push((sid, m));
        }
    }
    for (sid, m) in mirrors {
        lines.push(format!("final {sid} {}", C::detach(m).await));
    }
    for l in lines {
        let _ = writeln!(out, "{l}");
    }
    if let Some(mut l) = link {
        l.cut();
    }
    let _ = writeln!(out, "end");
}

/// A generated C14 script.  `fault_at`: position (in script steps) of the drop / cut, for sweeps.
fn gen_c14_script<C: Coll>(r: &mut Rng, kind: u64, fault_at: Option<usize>) -> Vec<String> {
    let mut s = vec![format!("init {}", C::gen_init(r))];
    let n_subs = r.range(1, 4) as usize;
    let mut hands = Vec::new();
    let mut mirrors = Vec::new();
    for i in 0..n_subs {
        let mirror = r.chance(3, 5);
        let remote = match kind {
            2 => true, // cut scenarios: everything remote
            _ => r.chance(1, 3),
        };
        let buf = match r.below(5) {
            0 => 1,
            1 => 2,
            2 => 3,
            3 => 4,
            _ => 1000,
        };
        let max = match kind {
            1 => r.range(1, 8),
            _ => {
                if r.chance(1, 5) {
                    r.range(1, 8)
                } else {
                    1000
                }
            }
        };
        s.push(format!(
            "sub {} {} {} buf={buf} max={max}",
            if r.bool() { "snap" } else { "incr" },
            if remote { "remote" } else { "local" },
            if mirror { "mirror" } else { "hand" }
        ));
        if mirror { mirrors.push(i) } else { hands.push(i) }
    }
    let steps = r.range(3, 14) as usize;
    let fault_pos = fault_at.unwrap_or_else(|| r.below(steps as u64 + 1) as usize);
    let fault = match kind {
        0 => None,                                      // lag only
        1 => None,                                      // size limits
        2 => Some("cut"),
        _ => Some("drop"),
    };
    let mut faulted = false;
    for i in 0..steps {
        if i == fault_pos {
            if let Some(f) = fault {
                s.push(f.to_string());
                faulted = true;
                if f == "drop" {
                    break;
                }
            }
        }
        match r.below(10) {
            0..=3 => s.push(format!("bgen {}", r.range(2, 7))),
            4..=5 => s.push("gen 1".into()),
            6..=7 if !hands.is_empty() => s.push(format!("read {} {}", r.pick(&hands), r.range(1, 4))),
            8 if !mirrors.is_empty() => s.push(format!("borrow {}", r.pick(&mirrors))),
            _ => s.push(format!("bgen {}", r.range(1, 3))),
        }
    }
    if !faulted {
        match fault {
            Some(f) => s.push(f.to_string()),
            None => {
                if r.chance(2, 3) {
                    s.push("done".into());
                }
                if r.chance(1, 4) {
                    s.push("drop".into());
                }
            }
        }
    } else if fault == Some("cut") && r.chance(1, 2) {
        s.push("done".into());
    }
    s
}

// ------------------------------------------------------------------------------------------------
// C14: events that do not apply.  A subscription is `Serialize + Deserialize`; a peer may send any
// snapshot together with any event stream.  The harness forges one (same serde shape as
// `VecSubscription` / `VecDequeSubscription`), sends it across a real connection, mirrors it and feeds
// events that do not fit the snapshot.
// ------------------------------------------------------------------------------------------------

#[derive(serde::Serialize, serde::Deserialize)]
enum ForgedInitial {
    Value(Vec<T>),
    #[allow(dead_code)]
    Incremental { len: usize, rx: rch::mpsc::Receiver<T> },
}

#[derive(serde::Serialize, serde::Deserialize)]
#[serde(bound(serialize = "E: remoc::RemoteSend + Clone", deserialize = "E: remoc::RemoteSend + Clone"))]
struct ForgedSub<E> {
    initial: ForgedInitial,
    events: Option<rch::broadcast::Receiver<E>>,
}

/// send a value of type `A` over a fresh connection and receive it as type `B`
async fn transmute_over_connection<A: remoc::RemoteSend, B: remoc::RemoteSend>(a: A) -> (B, Vec<tokio::task::JoinHandle<()>>) {
    let (x, y) = tokio::io::duplex(1 << 16);
    let (x_r, x_w) = tokio::io::split(x);
    let (y_r, y_w) = tokio::io::split(y);
    let cfg = remoc::Cfg::default();
    let fa = remoc::Connect::io::<_, _, A, (), remoc::codec::Default>(cfg.clone(), x_r, x_w);
    let fb = remoc::Connect::io::<_, _, (), B, remoc::codec::Default>(cfg, y_r, y_w);
    let (ra, rb) = tokio::join!(fa, fb);
    let (conn_a, mut tx, _rx_a) = ra.expect("connect a");
    let (conn_b, _tx_b, mut rx) = rb.expect("connect b");
    let ta = tokio::spawn(async move {
        let _ = conn_a.await;
    });
    let tb = tokio::spawn(async move {
        let _ = conn_b.await;
    });
    if tx.send(a).await.is_err() {
        panic!("harness: sending the forged subscription failed");
    }
    let b = rx.recv().await.expect("recv forged").expect("forged");
    (b, vec![ta, tb])
}

fn parse_vec_event(t: &str) -> VecEvent<T> {
    let w: Vec<&str> = t.split(' ').collect();
    let n = |i: usize| w[i].parse::<usize>().unwrap();
    let x = |i: usize| w[i].parse::<T>().unwrap();
    match w[0] {
        "Push" => VecEvent::Push(x(1)),
        "Pop" => VecEvent::Pop,
        "Insert" => VecEvent::Insert(n(1), x(2)),
        "Set" => VecEvent::Set(n(1), x(2)),
        "Remove" => VecEvent::Remove(n(1)),
        "SwapRemove" => VecEvent::SwapRemove(n(1)),
        "Fill" => VecEvent::Fill(x(1)),
        "Resize" => VecEvent::Resize(n(1), x(2)),
        "Truncate" => VecEvent::Truncate(n(1)),
        "Clear" => VecEvent::Clear,
        "Done" => VecEvent::Done,
        other => panic!("harness: forge event {other}"),
    }
}

fn parse_deque_event(t: &str) -> VecDequeEvent<T> {
    let w: Vec<&str> = t.split(' ').collect();
    let n = |i: usize| w[i].parse::<usize>().unwrap();
    let x = |i: usize| w[i].parse::<T>().unwrap();
    match w[0] {
        "PushBack" => VecDequeEvent::PushBack(x(1)),
        "PushFront" => VecDequeEvent::PushFront(x(1)),
        "PopBack" => VecDequeEvent::PopBack,
        "PopFront" => VecDequeEvent::PopFront,
        "Insert" => VecDequeEvent::Insert(n(1), x(2)),
        "Set" => VecDequeEvent::Set(n(1), x(2)),
        "Remove" => VecDequeEvent::Remove(n(1)),
        "SwapRemoveBack" => VecDequeEvent::SwapRemoveBack(n(1)),
        "SwapRemoveFront" => VecDequeEvent::SwapRemoveFront(n(1)),
        "Resize" => VecDequeEvent::Resize(n(1), x(2)),
        "Truncate" => VecDequeEvent::Truncate(n(1)),
        "Clear" => VecDequeEvent::Clear,
        "Done" => VecDequeEvent::Done,
        other => panic!("harness: forge event {other}"),
    }
}

/// forged scenario: `init <snapshot>`, `max <n>`, `fev <event>`...; the mirror is inspected after every event
async fn run_forged(id: &str, coll: &str, script: &[String], st: &mut Stats, out: &mut String) {
    let _ = writeln!(out, "case {id} {coll} c14");
    let mut snapshot: Vec<T> = Vec::new();
    let mut max = 1_000_000usize;
    let mut events: Vec<String> = Vec::new();
    for l in script {
        let (cmd, rest) = l.split_once(' ').unwrap_or((l.as_str(), ""));
        match cmd {
            "init" => snapshot = parse_list(rest),
            "max" => max = rest.parse().unwrap(),
            "fev" => events.push(rest.to_string()),
            "forged" => (),
            other => panic!("harness: bad forged script line {other}"),
        }
        let _ = writeln!(out, "cmd {l}");
    }
    let _ = writeln!(out, "init {}", list_text(snapshot.iter().copied()));
    let _ = writeln!(out, "sub 0 snap remote mirror buf=1000 max={max} forged");
    st.hit("c14_forged_cases");
    macro_rules! drive {
        ($Ev:ty, $Sub:ty, $parse:ident, $C:ty) => {{
            let (tx, rx) = rch::broadcast::channel::<$Ev, remoc::codec::Default, { rch::DEFAULT_BUFFER }>(1000);
            let forged = ForgedSub { initial: ForgedInitial::Value(snapshot.clone()), events: Some(rx) };
            let (sub, tasks): ($Sub, _) = transmute_over_connection(forged).await;
            let m = <$C as Coll>::mirror(sub, max);
            for e in &events {
                let _ = tx.send($parse(e));
                let _ = writeln!(out, "ev {e}");
                settle().await;
                let _ = writeln!(out, "settled");
                match <$C as Coll>::borrow(&m).await {
                    Ok((c, complete, done)) => {
                        let _ = writeln!(out, "borrow 0 {c} complete={} done={} err=-", complete as u8, done as u8);
                    }
                    Err(e) => {
                        let _ = writeln!(out, "borrow 0 ? complete=? done=? err={e}");
                    }
                }
                st.hit("c14_forged_events");
            }
            let _ = writeln!(out, "final 0 {}", <$C as Coll>::detach(m).await);
            for t in tasks {
                t.abort();
            }
        }};
    }
    match coll {
        "vec" => drive!(VecEvent<T>, VecSubscription<T>, parse_vec_event, CVec),
        _ => drive!(VecDequeEvent<T>, VecDequeSubscription<T>, parse_deque_event, CDeque),
    }
    let _ = writeln!(out, "end");
}

/// a forged script: a snapshot and events of which some do not fit
fn gen_forged_script(coll: &str, r: &mut Rng) -> Vec<String> {
    let n = r.below(5) as usize;
    let mut s = vec!["forged".to_string(), format!("init {}", list_text((0..n).map(|_| val(r))))];
    if r.chance(1, 3) {
        s.push(format!("max {}", r.range(1, 6)));
    }
    let mut len = n;
    let m = r.range(2, 9);
    for _ in 0..m {
        // indices around the current length: mostly valid, sometimes just beyond
        let i = match r.below(4) {
            0 => len + r.below(2) as usize,
            1 => len + 1,
            _ => {
                if len == 0 { 0 } else { r.below(len as u64) as usize }
            }
        };
        let push = if coll == "vec" { "Push" } else { "PushBack" };
        let swap = if coll == "vec" { "SwapRemove" } else if r.bool() { "SwapRemoveBack" } else { "SwapRemoveFront" };
        let e = match r.below(8) {
            0 | 1 => {
                len += 1;
                format!("{push} {}", val(r))
            }
            2 => {
                if i <= len {
                    len += 1;
                }
                format!("Insert {i} {}", val(r))
            }
            3 | 4 => format!("Set {i} {}", val(r)),
            5 => {
                if i < len {
                    len -= 1;
                }
                format!("Remove {i}")
            }
            6 => {
                if i < len {
                    len -= 1;
                }
                format!("{swap} {i}")
            }
            _ => {
                let t = r.below(len as u64 + 2) as usize;
                len = len.min(t);
                format!("Truncate {t}")
            }
        };
        s.push(format!("fev {e}"));
    }
    if r.bool() {
        s.push("fev Done".into());
    }
    s
}

fn run_case_c14(coll: &str, id: &str, script: &[String], r: &mut Rng, st: &mut Stats) -> String {
    let rt = tokio::runtime::Builder::new_current_thread().enable_time().start_paused(true).build().unwrap();
    let mut out = String::new();
    let forged = script.first().map(|l| l == "forged").unwrap_or(false);
    let res = catch_unwind(AssertUnwindSafe(|| {
        rt.block_on(async {
            if forged {
                return run_forged(id, coll, script, st, &mut out).await;
            }
            match coll {
                "vec" => run_c14::<CVec>(id, script, r, st, &mut out).await,
                "deque" => run_c14::<CDeque>(id, script, r, st, &mut out).await,
                "map" => run_c14::<CMap>(id, script, r, st, &mut out).await,
                "set" => run_c14::<CSet>(id, script, r, st, &mut out).await,
                "list" => run_c14::<CList>(id, script, r, st, &mut out).await,
                other => panic!("harness: unknown collection {other}"),
            }
        })
    }));
    if res.is_err() {
        let _ = writeln!(out, "crash harness-or-library-panic");
        let _ = writeln!(out, "end");
    }
    out
}

fn gen_script_c14(coll: &str, r: &mut Rng, kind: u64, fault_at: Option<usize>) -> Vec<String> {
    match coll {
        "vec" => gen_c14_script::<CVec>(r, kind, fault_at),
        "deque" => gen_c14_script::<CDeque>(r, kind, fault_at),
        "map" => gen_c14_script::<CMap>(r, kind, fault_at),
        "set" => gen_c14_script::<CSet>(r, kind, fault_at),
        _ => gen_c14_script::<CList>(r, kind, fault_at),
    }
}

const COLLS: [&str; 5] = ["vec", "deque", "map", "set", "list"];

fn gen_script(coll: &str, r: &mut Rng) -> Vec<String> {
    match coll {
        "vec" => gen_c13_script::<CVec>(r),
        "deque" => gen_c13_script::<CDeque>(r),
        "map" => gen_c13_script::<CMap>(r),
        "set" => gen_c13_script::<CSet>(r),
        _ => gen_c13_script::<CList>(r),
    }
}

/// script file: first line `coll <name>`, then script lines; `#` comments
fn read_script(path: &str) -> (String, Vec<String>) {
    let text = std::fs::read_to_string(path).expect("script file");
    let mut coll = String::new();
    let mut lines = Vec::new();
    for l in text.lines() {
        let l = l.trim();
        if l.is_empty() || l.starts_with('#') {
            continue;
        }
        if let Some(c) = l.strip_prefix("coll ") {
            coll = c.to_string();
        } else {
            lines.push(l.to_string());
        }
    }
    (coll, lines)
}

fn main() {
    let args: Vec<String> = std::env::args().collect();
    std::panic::set_hook(Box::new(|_| {}));
    let stdout = std::io::stdout();
    let mut w = std::io::BufWriter::new(stdout.lock());
    let mut st = Stats::default();
    let mut rng = Rng::from_env();
    match (args.get(1).map(|s| s.as_str()), args.get(2).map(|s| s.as_str())) {
        (Some("c13"), Some("gen")) => {
            let n: u64 = args[3].parse().unwrap();
            for i in 0..n {
                for coll in COLLS {
                    let mut r = rng.fork();
                    let script = gen_script(coll, &mut r);
                    let text = run_case_c13(coll, &format!("{coll}-{i}"), &script, &mut r, &mut st);
                    w.write_all(text.as_bytes()).unwrap();
                    st.hit(&format!("cases_{coll}"));
                }
            }
        }
        (Some("c13"), Some("run")) => {
            for f in &args[3..] {
                let (coll, script) = read_script(f);
                let mut r = rng.fork();
                let name = std::path::Path::new(f).file_name().unwrap().to_string_lossy().to_string();
                let text = run_case_c13(&coll, &name, &script, &mut r, &mut st);
                w.write_all(text.as_bytes()).unwrap();
            }
        }
        (Some("c14"), Some("gen")) => {
            PURE_RETAIN.store(true, std::sync::atomic::Ordering::Relaxed);
            let n: u64 = args[3].parse().unwrap();
            let kinds = ["lag", "maxsize", "cut", "drop"];
            for i in 0..n {
                // events that do not apply: forged subscriptions for the two index based collections
                for coll in ["vec", "deque"] {
                    let mut r = rng.fork();
                    let script = gen_forged_script(coll, &mut r);
                    let text = run_case_c14(coll, &format!("{coll}-{i}-forged"), &script, &mut r, &mut st);
                    w.write_all(text.as_bytes()).unwrap();
                }
                for coll in COLLS {
                    let kind = [0u64, 1, 2, 0, 1, 3][(i % 6) as usize];
                    let base = rng.fork();
                    if (kind == 2 || kind == 3) && (i / 6) % 2 == 0 {
                        // sweep: the same scenario with the fault at every position
                        for pos in 0..15usize {
                            let mut r = base.clone();
                            let script = gen_script_c14(coll, &mut r, kind, Some(pos));
                            let text = run_case_c14(coll, &format!("{coll}-{i}-{}{pos}", kinds[kind as usize]), &script, &mut r, &mut st);
                            w.write_all(text.as_bytes()).unwrap();
                            st.hit(&format!("c14_cases_{}_{coll}", kinds[kind as usize]));
                        }
                    } else {
                        let mut r = base.clone();
                        let script = gen_script_c14(coll, &mut r, kind, None);
                        let text = run_case_c14(coll, &format!("{coll}-{i}-{}", kinds[kind as usize]), &script, &mut r, &mut st);
                        w.write_all(text.as_bytes()).unwrap();
                        st.hit(&format!("c14_cases_{}_{coll}", kinds[kind as usize]));
                    }
                }
            }
        }
        (Some("c14"), Some("run")) => {
            for f in &args[3..] {
                let (coll, script) = read_script(f);
                let mut r = rng.fork();
                let name = std::path::Path::new(f).file_name().unwrap().to_string_lossy().to_string();
                let text = run_case_c14(&coll, &name, &script, &mut r, &mut st);
                w.write_all(text.as_bytes()).unwrap();
            }
        }
        _ => {
            eprintln!("usage: robs c13 gen <n> | robs c13 run <file>... | robs c14 gen <n> | robs c14 run <file>...");
            std::process::exit(2);
        }
    }
    w.flush().unwrap();
    st.print();
}
