//! Remote trait calls (C12, C19) against the real `#[rtc::remote]` machinery.
//!
//! usage: rtc run <script-file>...        run the given scripts (several cases per file allowed)
//!        rtc gen <generator> <count>     generate scripts (seed from VERIF_SEED), run them, print traces

use std::io::Write;
use verif_harness::{rtcgens, rtcworld::run_script};

fn split_cases(text: &str) -> Vec<Vec<String>> {
    let mut cases: Vec<Vec<String>> = Vec::new();
    for l in text.lines() {
        let l = l.trim();
        if l.is_empty() || l.starts_with('#') {
            continue;
        }
        if l.starts_with("case ") {
            cases.push(vec![l.to_string()]);
        } else if let Some(c) = cases.last_mut() {
            c.push(l.to_string());
        }
    }
    cases
}

fn main() {
    let args: Vec<String> = std::env::args().collect();
    std::panic::set_hook(Box::new(|_| {}));
    let out = std::io::stdout();
    let mut out = std::io::BufWriter::new(out.lock());
    let mut stats: std::collections::BTreeMap<String, u64> = Default::default();
    // A task that never yields (e.g. a serve loop spinning on the same receive error) keeps the single-threaded
    // runtime busy for ever: a real-time watchdog names the case and ends the process (exit code 3).
    static CURRENT: std::sync::Mutex<String> = std::sync::Mutex::new(String::new());
    verif_harness::typed::start_watchdog(40, || {
        eprintln!("LIVELOCK the process made no progress for 40 s of real time while running this case:");
        eprintln!("{}", CURRENT.lock().unwrap());
    });
    match args.get(1).map(|s| s.as_str()) {
        Some("run") => {
            for f in &args[2..] {
                let text = std::fs::read_to_string(f).expect("script file");
                for case in split_cases(&text) {
                    *CURRENT.lock().unwrap() = case.join("\n");
                    for l in run_script(&case) {
                        writeln!(out, "{l}").unwrap();
                    }
                }
            }
        }
        Some("gen") => {
            let g = args[2].clone();
            let count: u64 = args[3].parse().unwrap();
            let mut rng = verif_harness::prng::Rng::from_env();
            let mut livelocks = 0;
            for i in 0..count {
                let mut r = rng.fork();
                let script = rtcgens::generate(&g, &mut r, i, &mut stats);
                *CURRENT.lock().unwrap() = script.join("\n");
                let lines = run_script(&script);
                let livelock = lines.iter().any(|l| l == "ev livelock");
                for l in lines {
                    writeln!(out, "{l}").unwrap();
                }
                if livelock {
                    livelocks += 1;
                    if livelocks >= 3 {
                        // every such case costs ten seconds of real time: three are enough to report
                        out.flush().unwrap();
                        eprintln!("LIVELOCK the process did not become quiescent in {livelocks} cases; the last one:");
                        eprintln!("{}", CURRENT.lock().unwrap());
                        std::process::exit(3);
                    }
                }
            }
        }
        _ => {
            eprintln!("usage: rtc run <file>... | rtc gen <generator> <count>");
            std::process::exit(2);
        }
    }
    out.flush().unwrap();
    for (k, v) in stats {
        eprintln!("STAT {k} {v}");
    }
}
