//! C09 unit-level differential: real `MultiplexMsg::{to_vec,read}` (hook `verif_hooks`)
//! against the Lean spec codec.  Prints `enc`/`dec` lines for `Driver/Wire.lean`.
//!
//! usage: wire <count>     (seed from VERIF_SEED)

use std::{collections::BTreeMap, io::Write, time::Duration};

use remoc::chmux::verif_hooks::{ExchangedCfg, MultiplexMsg, decode, encode};
use verif_harness::{hex::hex, prng::Rng, wiretext::{decode_text, msg_text}};

const U32_EDGE: &[u32] =
    &[0, 1, 2, 3, 4, 7, 8, 15, 16, 255, 256, 257, 65535, 65536, 0x00ff_ffff, 0x0100_0000, 0x7fff_ffff, 0x8000_0000, 0xffff_fffe, 0xffff_ffff];

fn u32v(r: &mut Rng) -> u32 {
    match r.below(3) {
        0 => *r.pick(U32_EDGE),
        1 => r.below(1000) as u32,
        _ => r.next_u64() as u32,
    }
}

fn ports(r: &mut Rng) -> Vec<u32> {
    let n = match r.below(4) {
        0 => 0,
        1 => 1,
        2 => r.range(2, 5),
        _ => r.range(6, 40),
    };
    (0..n).map(|_| u32v(r)).collect()
}

fn gen_cfg(r: &mut Rng) -> ExchangedCfg {
    let t = match r.below(5) {
        0 => None,
        1 => Some(Duration::from_millis(1)),
        2 => Some(Duration::from_millis(u64::MAX)),
        3 => Some(Duration::from_millis(r.range(1, 600_000))),
        _ => Some(Duration::from_millis(r.next_u64().max(1))),
    };
    ExchangedCfg {
        connection_timeout: t,
        chunk_size: u32v(r),
        port_receive_buffer: u32v(r),
        connect_queue: match r.below(4) {
            0 => 0,
            1 => 1,
            2 => u16::MAX,
            _ => r.next_u64() as u16,
        },
    }
}

fn gen_msg(r: &mut Rng, kind: u64) -> MultiplexMsg {
    match kind {
        0 => MultiplexMsg::Reset,
        1 => MultiplexMsg::Hello { version: *r.pick(&[0u8, 1, 2, 3, 4, 127, 255]), cfg: gen_cfg(r) },
        2 => MultiplexMsg::Ping,
        3 => MultiplexMsg::OpenPort { client_port: u32v(r), wait: r.bool(), id: if r.bool() { Some(u32v(r)) } else { None } },
        4 => MultiplexMsg::PortOpened { client_port: u32v(r), server_port: u32v(r) },
        5 => MultiplexMsg::Rejected { client_port: u32v(r), no_ports: r.bool() },
        6 => MultiplexMsg::Data { port: u32v(r), first: r.bool(), last: r.bool() },
        7 => {
            let ps = ports(r);
            let ids = if r.bool() { Some(ps.iter().map(|_| u32v(r)).collect()) } else { None };
            MultiplexMsg::PortData { port: u32v(r), first: r.bool(), last: r.bool(), wait: r.bool(), ports: ps, ids }
        }
        8 => MultiplexMsg::PortCredits { port: u32v(r), credits: u32v(r) },
        9 => MultiplexMsg::SendFinish { port: u32v(r) },
        10 => MultiplexMsg::ReceiveClose { port: u32v(r) },
        11 => MultiplexMsg::ReceiveFinish { port: u32v(r) },
        12 => MultiplexMsg::ClientFinish,
        13 => MultiplexMsg::ListenerFinish,
        _ => MultiplexMsg::Goodbye,
    }
}

fn main() {
    let count: u64 = std::env::args().nth(1).and_then(|s| s.parse().ok()).unwrap_or(2000);
    let mut r = Rng::from_env();
    let out = std::io::stdout();
    let mut out = std::io::BufWriter::new(out.lock());
    let mut stats: BTreeMap<String, u64> = BTreeMap::new();
    let mut bump = |k: &str| *stats.entry(k.to_string()).or_insert(0) += 1;

    // Encoder direction: every kind in rotation so that all 15 kinds are always covered.
    let mut encoded: Vec<Vec<u8>> = Vec::new();
    for i in 0..count {
        let msg = gen_msg(&mut r, i % 15);
        let bytes = encode(&msg);
        writeln!(out, "enc {} | {}", msg_text(&msg), hex(&bytes)).unwrap();
        bump(&format!("enc.kind{}", i % 15));
        encoded.push(bytes);
    }

    // Hello boundary sweep (always, independent of the seed): every combination of the smallest values of the three
    // validated configuration fields, so that each lower bound of ExchangedCfg::read is exercised on both sides.
    for chunk in 0u32..6 {
        for buf in 0u32..6 {
            for cq in 0u16..3 {
                for t in [None, Some(Duration::from_millis(1))] {
                    let msg = MultiplexMsg::Hello {
                        version: 3,
                        cfg: ExchangedCfg { connection_timeout: t, chunk_size: chunk, port_receive_buffer: buf, connect_queue: cq },
                    };
                    let bytes = encode(&msg);
                    let t = decode_text(&bytes);
                    bump("dec.hello_boundary");
                    bump(if t.starts_with("ERR") { "dec.result.err" } else { "dec.result.ok" });
                    writeln!(out, "dec {} | {}", hex(&bytes), t).unwrap();
                }
            }
        }
    }

    // Decoder direction.
    for i in 0..count {
        let bytes: Vec<u8> = match i % 6 {
            // a real encoding, unchanged
            0 => {
                bump("dec.valid");
                r.pick(&encoded).clone()
            }
            // truncated at a random position (every position over time)
            1 => {
                bump("dec.truncated");
                let b = r.pick(&encoded).clone();
                let n = r.below(b.len() as u64 + 1) as usize;
                b[..n].to_vec()
            }
            // trailing bytes appended
            2 => {
                bump("dec.trailing");
                let mut b = r.pick(&encoded).clone();
                let n = r.range(1, 9) as usize;
                b.extend(r.bytes(n));
                b
            }
            // one byte changed (codes, flags, magic, field bytes)
            3 => {
                bump("dec.flipped");
                let mut b = r.pick(&encoded).clone();
                let at = if r.bool() { 0 } else { r.below(b.len() as u64) as usize };
                b[at] = if r.bool() { r.below(20) as u8 } else { r.next_u64() as u8 };
                b
            }
            // flag byte sweep: every flag value on OpenPort / Rejected / Data / PortData layouts
            4 => {
                bump("dec.flagsweep");
                let code = *r.pick(&[4u8, 6, 7, 8]);
                let mut b = vec![code];
                b.extend(u32v(&mut r).to_le_bytes());
                b.push(r.next_u64() as u8);
                let n = r.below(20) as usize;
                b.extend(r.bytes(n));
                b
            }
            // random bytes with a plausible code
            _ => {
                bump("dec.random");
                let n = r.below(40) as usize;
                let mut b = r.bytes(n);
                if !b.is_empty() && r.chance(3, 4) {
                    b[0] = r.below(18) as u8;
                }
                b
            }
        };
        let t = decode_text(&bytes);
        bump(if t.starts_with("ERR") { "dec.result.err" } else { "dec.result.ok" });
        writeln!(out, "dec {} | {}", hex(&bytes), t).unwrap();
        // Re-encoding what the real decoder accepted must also agree with the spec encoder.
        if let Ok(msg) = decode(&bytes) {
            let ok = match &msg {
                MultiplexMsg::PortData { ports, ids: Some(ids), .. } => ports.len() == ids.len(),
                _ => true,
            };
            if ok {
                writeln!(out, "enc {} | {}", msg_text(&msg), hex(&encode(&msg))).unwrap();
            }
        }
    }
    out.flush().unwrap();
    for (k, v) in stats {
        eprintln!("STAT {k} {v}");
    }
}
