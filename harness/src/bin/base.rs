//! C04 / C11(typed): real base, lr, mpsc, oneshot and bin channels over a real connection
//! (`remoc::Connect::io` over `tokio::io::duplex`, small `chmux::Cfg`).
//!
//! usage: base gen <generator> <count>      generate cases (seed from VERIF_SEED), run them, print traces
//!        base run <spec-file>...           run the cases of the given spec files (corpus / replay)
//!
//! A case is a text spec (`case …` line, `op …` lines, `end`); it is echoed as `spec …` lines so that
//! any failing case can be replayed with `base run`.  The trace is consumed by `lean/Driver/Base.lean`.

use std::{
    cell::RefCell,
    collections::HashMap,
    io::Write,
    rc::Rc,
    time::Duration,
};

use remoc::{
    codec,
    rch,
};
use serde::{Deserialize, Serialize};
use verif_harness::{hex::hex, prng::Rng, trace::tr, typed::*};

// ------------------------------------------------------------------------------------------
// types on the wire
// ------------------------------------------------------------------------------------------

const MAXI: usize = 150;

thread_local! {
    /// which receive API the mpsc receiver of the current case uses (0 recv, 1 try_recv, 2 recv_many, 3 poll_recv)
    static MPSC_RMODE: std::cell::Cell<u64> = const { std::cell::Cell::new(0) };
}
type MTx = rch::mpsc::Sender<Item, codec::Default, 2>;
type MRx = rch::mpsc::Receiver<Item, codec::Default, 2, MAXI>;
type OTx = rch::oneshot::Sender<Item>;
type ORx = rch::oneshot::Receiver<Item, codec::Default, MAXI>;

#[derive(Serialize, Deserialize)]
enum Wire {
    It(Item),
    MTx(MTx),
    MRx(MRx),
    LTx(rch::lr::Sender<Item>),
    LRx(rch::lr::Receiver<Item>),
    OTx(OTx),
    ORx(ORx),
    BTx(rch::bin::Sender),
    BRx(rch::bin::Receiver),
}

/// encoded size of one embedded `mpsc::Sender<u8>` half: 41 bytes + varint of the (random) port number
const HALF_LO: usize = 41;
const HALF_HI: usize = 45;

// ------------------------------------------------------------------------------------------
// case specification
// ------------------------------------------------------------------------------------------

#[derive(Clone, Debug)]
struct Op {
    sender: usize,
    tag: u32,
    len: usize,
    halves: usize,
    ser_fail: Option<usize>,
    de_fail: Option<usize>,
    cancel: Option<usize>,
    wait: bool,
    /// trailing bytes the receiver's deserializer does not read
    pad: usize,
    /// after the call: give helper threads `pause` ms of real time, interleaved with scheduler rounds
    pause: usize,
    /// slow deserializer: the deserializer thread of this (streamed) item waits at a gate; the receiver cancels its
    /// `recv` once it is left waiting for space in the queue towards that thread, opens the gate and receives again
    gate: bool,
}

#[derive(Clone, Debug)]
struct Case {
    name: String,
    kind: String,  // base | lr | mpsc | oneshot | bin
    event: String, // none | close | droprx | droptx | connfail
    at: usize,
    topo: usize,
    senders: Vec<String>, // mpsc: r | c<i> | l
    cfga: (u32, u32, usize),
    cfgb: (u32, u32, usize),
    smax: usize,
    rmax: usize,
    rdelay: usize,
    rcancel: Option<usize>,
    seed: u64,
    ops: Vec<Op>,
}

fn opt(s: &str) -> Option<usize> {
    if s == "-" { None } else { s.parse().ok() }
}

fn show_opt(o: Option<usize>) -> String {
    o.map(|x| x.to_string()).unwrap_or_else(|| "-".into())
}

fn kv(line: &str) -> HashMap<String, String> {
    line.split_whitespace().filter_map(|w| w.split_once('=')).map(|(k, v)| (k.to_string(), v.to_string())).collect()
}

fn triple(s: &str) -> (u32, u32, usize) {
    let v: Vec<usize> = s.split(',').map(|x| x.parse().unwrap()).collect();
    (v[0] as u32, v[1] as u32, v[2])
}

impl Case {
    fn spec_lines(&self) -> Vec<String> {
        let mut v = vec![format!(
            "case {} kind={} event={} at={} topo={} senders={} cfga={},{},{} cfgb={},{},{} smax={} rmax={} rdelay={} rcancel={} seed={}",
            self.name,
            self.kind,
            self.event,
            self.at,
            self.topo,
            if self.senders.is_empty() { "-".to_string() } else { self.senders.join(",") },
            self.cfga.0,
            self.cfga.1,
            self.cfga.2,
            self.cfgb.0,
            self.cfgb.1,
            self.cfgb.2,
            self.smax,
            self.rmax,
            self.rdelay,
            show_opt(self.rcancel),
            self.seed
        )];
        for o in &self.ops {
            v.push(format!(
                "op {} tag={} len={} halves={} serfail={} defail={} cancel={} await={} pause={} pad={} gate={}",
                o.sender,
                o.tag,
                o.len,
                o.halves,
                show_opt(o.ser_fail),
                show_opt(o.de_fail),
                show_opt(o.cancel),
                o.wait as u8,
                o.pause,
                o.pad,
                o.gate as u8
            ));
        }
        v.push("end".into());
        v
    }

    fn parse(lines: &[String]) -> Vec<Case> {
        let mut out = Vec::new();
        let mut cur: Option<Case> = None;
        for l in lines {
            let l = l.trim();
            let l = l.strip_prefix("spec ").unwrap_or(l);
            if l.starts_with('#') || l.is_empty() {
                continue;
            }
            if let Some(rest) = l.strip_prefix("case ") {
                let name = rest.split_whitespace().next().unwrap().to_string();
                let m = kv(rest);
                cur = Some(Case {
                    name,
                    kind: m["kind"].clone(),
                    event: m.get("event").cloned().unwrap_or_else(|| "none".into()),
                    at: m.get("at").and_then(|s| s.parse().ok()).unwrap_or(0),
                    topo: m.get("topo").and_then(|s| s.parse().ok()).unwrap_or(0),
                    senders: match m.get("senders").map(|s| s.as_str()) {
                        None | Some("-") => vec![],
                        Some(s) => s.split(',').map(|x| x.to_string()).collect(),
                    },
                    cfga: triple(&m["cfga"]),
                    cfgb: triple(&m["cfgb"]),
                    smax: m["smax"].parse().unwrap(),
                    rmax: m["rmax"].parse().unwrap(),
                    rdelay: m.get("rdelay").and_then(|s| s.parse().ok()).unwrap_or(0),
                    rcancel: m.get("rcancel").and_then(|s| opt(s)),
                    seed: m.get("seed").and_then(|s| s.parse().ok()).unwrap_or(1),
                    ops: vec![],
                });
            } else if let Some(rest) = l.strip_prefix("op ") {
                let sender: usize = rest.split_whitespace().next().unwrap().parse().unwrap();
                let m = kv(rest);
                if let Some(c) = cur.as_mut() {
                    c.ops.push(Op {
                        sender,
                        tag: m["tag"].parse().unwrap(),
                        len: m["len"].parse().unwrap(),
                        halves: m.get("halves").and_then(|s| s.parse().ok()).unwrap_or(0),
                        ser_fail: m.get("serfail").and_then(|s| opt(s)),
                        de_fail: m.get("defail").and_then(|s| opt(s)),
                        cancel: m.get("cancel").and_then(|s| opt(s)),
                        wait: m.get("await").map(|s| s == "1").unwrap_or(false),
                        pause: m.get("pause").and_then(|s| s.parse().ok()).unwrap_or(0),
                        pad: m.get("pad").and_then(|s| s.parse().ok()).unwrap_or(0),
                        gate: m.get("gate").map(|s| s == "1").unwrap_or(false),
                    });
                }
            } else if l == "end" {
                if let Some(c) = cur.take() {
                    out.push(c);
                }
            }
        }
        out
    }
}

// ------------------------------------------------------------------------------------------
// classification of results
// ------------------------------------------------------------------------------------------

fn chmux_send(e: &remoc::chmux::SendError) -> &'static str {
    match e {
        remoc::chmux::SendError::ChMux => "chmux",
        remoc::chmux::SendError::Closed { gracefully: true } => "closed-graceful",
        remoc::chmux::SendError::Closed { gracefully: false } => "closed-dropped",
    }
}

fn base_send_kind(k: &rch::base::SendErrorKind) -> &'static str {
    match k {
        rch::base::SendErrorKind::Serialize(_) => "ser",
        rch::base::SendErrorKind::MaxItemSizeExceeded => "oversize",
        rch::base::SendErrorKind::Send(e) => chmux_send(e),
    }
}

fn lr_send_kind(k: &rch::lr::SendErrorKind) -> &'static str {
    match k {
        rch::lr::SendErrorKind::Serialize(_) => "ser",
        rch::lr::SendErrorKind::MaxItemSizeExceeded => "oversize",
        rch::lr::SendErrorKind::Send(e) => chmux_send(e),
        rch::lr::SendErrorKind::Connect(_) => "connect",
    }
}

fn base_recv_kind(e: &rch::base::RecvError) -> &'static str {
    match e {
        rch::base::RecvError::Receive(remoc::chmux::RecvError::ChMux) => "chmux",
        rch::base::RecvError::Receive(_) => "receive",
        rch::base::RecvError::Deserialize(_) => "deser",
        rch::base::RecvError::MissingPorts(_) => "missingports",
        rch::base::RecvError::MaxItemSizeExceeded => "oversize",
    }
}

fn lr_recv_kind(e: &rch::lr::RecvError) -> &'static str {
    match e {
        rch::lr::RecvError::Receive(remoc::chmux::RecvError::ChMux) => "chmux",
        rch::lr::RecvError::Receive(_) => "receive",
        rch::lr::RecvError::Deserialize(_) => "deser",
        rch::lr::RecvError::MissingPorts(_) => "missingports",
        rch::lr::RecvError::MaxItemSizeExceeded => "oversize",
        rch::lr::RecvError::Connect(_) => "connect",
    }
}

fn mpsc_recv_kind(e: &rch::mpsc::RecvError) -> String {
    match e {
        rch::mpsc::RecvError::RemoteReceive(b) => base_recv_kind(b).to_string(),
        rch::mpsc::RecvError::RemoteConnect(_) => "rconnect".into(),
        rch::mpsc::RecvError::RemoteListen(_) => "rlisten".into(),
    }
}

fn mpsc_send_kind<T>(e: &rch::mpsc::SendError<T>) -> String {
    match e {
        rch::mpsc::SendError::Closed(_) => "closed".into(),
        rch::mpsc::SendError::RemoteSend(k) => format!("rs-{}", base_send_kind(k)),
        rch::mpsc::SendError::RemoteConnect(_) => "rconnect".into(),
        rch::mpsc::SendError::RemoteListen(_) => "rlisten".into(),
        rch::mpsc::SendError::RemoteForward => "rforward".into(),
    }
}

fn sending_kind<T>(r: &Result<(), rch::SendingError<T>>) -> &'static str {
    match r {
        Ok(()) => "ok",
        Err(rch::SendingError::Dropped) => "dropped",
        Err(rch::SendingError::Send(e)) => base_send_kind(&e.kind),
    }
}

fn reason(r: Option<rch::ClosedReason>) -> &'static str {
    match r {
        None => "none",
        Some(rch::ClosedReason::Closed) => "closed",
        Some(rch::ClosedReason::Dropped) => "dropped",
        Some(rch::ClosedReason::Failed) => "failed",
    }
}

// ------------------------------------------------------------------------------------------
// building items
// ------------------------------------------------------------------------------------------

struct Built {
    item: Item,
    keep: Vec<rch::mpsc::Receiver<u8>>,
    line: String,
}

#[derive(Clone, Copy, PartialEq)]
enum Wrap {
    Wire,
    Plain,
    Mpsc,
}

fn build(op: &Op, wrap: Wrap, rng: &mut Rng) -> Built {
    let data = rng.bytes(op.len);
    set_ser_fail(op.tag, None);
    set_de_fail(op.tag, None);
    let measure = |it: Item| -> (usize, bool) {
        match wrap {
            Wrap::Wire => encoded_len(&Wire::It(it)),
            Wrap::Plain => encoded_len(&it),
            Wrap::Mpsc => encoded_len(&Ok::<Item, rch::mpsc::RecvError>(it)),
        }
    };
    let mk = |pad: usize| Item { tag: op.tag, halves: Vec::new(), data: data.clone(), pad };
    let (size0, _) = measure(mk(op.pad));
    let (need0, _) = measure(mk(0));
    let serfail = match op.ser_fail {
        Some(i) if i <= op.len + op.pad + 1 => {
            set_ser_fail(op.tag, Some(i));
            let (f, ok) = measure(mk(op.pad));
            if ok {
                set_ser_fail(op.tag, None);
                None
            } else {
                Some(f)
            }
        }
        _ => None,
    };
    if let Some(i) = op.de_fail {
        if i <= op.len {
            set_de_fail(op.tag, Some(i));
        }
    }
    let mut halves = Vec::new();
    let mut keep = Vec::new();
    for _ in 0..op.halves {
        let (tx, rx) = rch::mpsc::channel::<u8, codec::Default>(1);
        halves.push(tx);
        keep.push(rx);
    }
    let line = format!(
        "tag={} size={} sizehi={} need={} halves={} serfail={} serfailhi={} defail={} cancel={} data={}",
        op.tag,
        size0 + HALF_LO * op.halves,
        size0 + HALF_HI * op.halves,
        need0 + HALF_LO * op.halves,
        op.halves,
        show_opt(serfail.map(|f| f + HALF_LO * op.halves)),
        show_opt(serfail.map(|f| f + HALF_HI * op.halves)),
        (op.de_fail.is_some_and(|i| i <= op.len)) as u8,
        show_opt(op.cancel),
        hex(&data)
    );
    Built { item: Item { tag: op.tag, halves, data, pad: op.pad }, keep, line }
}

async fn pause(ms: usize) {
    for _ in 0..ms {
        std::thread::sleep(Duration::from_millis(1));
        for _ in 0..20 {
            tokio::task::yield_now().await;
        }
    }
}

fn log_value(it: &Item) {
    tr(format!("recv value tag={} halves={} data={}", it.tag, it.halves.len(), hex(&it.data)));
}

// ------------------------------------------------------------------------------------------
// the channel kinds behind a common face
// ------------------------------------------------------------------------------------------

enum Tx {
    Base(rch::base::Sender<Wire>),
    Lr(rch::lr::Sender<Item>),
}

impl Tx {
    /// returns the result class
    async fn send(&mut self, item: Item, cancel: Option<usize>) -> String {
        match self {
            Tx::Base(tx) => match CancelAt::new(tx.send(Wire::It(item)), cancel).await {
                None => "cancelled".into(),
                Some(Ok(())) => "ok".into(),
                Some(Err(e)) => {
                    let k = base_send_kind(&e.kind).to_string();
                    debug_assert_eq!(e.is_final(), matches!(e.kind, rch::base::SendErrorKind::Send(_)));
                    k
                }
            },
            Tx::Lr(tx) => match CancelAt::new(tx.send(item), cancel).await {
                None => "cancelled".into(),
                Some(Ok(())) => "ok".into(),
                Some(Err(e)) => lr_send_kind(&e.kind).to_string(),
            },
        }
    }

    async fn state_line(&mut self) -> String {
        match self {
            Tx::Base(tx) => format!("isclosed={}", tx.is_closed() as u8),
            Tx::Lr(tx) => match tx.is_closed().await {
                Ok(b) => format!("isclosed={}", b as u8),
                Err(_) => "isclosed=err".into(),
            },
        }
    }

    async fn closed_future(&mut self) -> Option<rch::base::Closed> {
        match self {
            Tx::Base(tx) => Some(tx.closed()),
            Tx::Lr(tx) => tx.closed().await.ok(),
        }
    }
}

enum Rx {
    Base(rch::base::Receiver<Wire>),
    Lr(rch::lr::Receiver<Item>),
    Mpsc(MRx),
}

enum Got {
    Value(Item),
    Err(String, bool),
    Eos,
    Cancelled,
}

impl Rx {
    async fn recv(&mut self, cancel: Option<usize>) -> Got {
        match self {
            Rx::Base(rx) => match CancelAt::new(rx.recv(), cancel).await {
                None => Got::Cancelled,
                Some(Ok(Some(Wire::It(it)))) => Got::Value(it),
                Some(Ok(Some(_))) => Got::Err("unexpected-variant".into(), false),
                Some(Ok(None)) => Got::Eos,
                Some(Err(e)) => Got::Err(base_recv_kind(&e).into(), e.is_final()),
            },
            Rx::Lr(rx) => match CancelAt::new(rx.recv(), cancel).await {
                None => Got::Cancelled,
                Some(Ok(Some(it))) => Got::Value(it),
                Some(Ok(None)) => Got::Eos,
                Some(Err(e)) => Got::Err(lr_recv_kind(&e).into(), e.is_final()),
            },
            Rx::Mpsc(rx) => {
                // the receive API used is a function of the case: recv / try_recv / recv_many / poll_recv
                let mode = if cancel.is_some() { 0 } else { MPSC_RMODE.with(|m| m.get()) };
                match mode {
                    1 => {
                        for _ in 0..40 {
                            match rx.try_recv() {
                                Ok(it) => return Got::Value(it),
                                Err(rch::mpsc::TryRecvError::Empty) => tokio::task::yield_now().await,
                                Err(rch::mpsc::TryRecvError::Closed) => return Got::Eos,
                                Err(e) => {
                                    let e: Result<rch::mpsc::RecvError, _> = e.try_into();
                                    return match e {
                                        Ok(e) => Got::Err(mpsc_recv_kind(&e), e.is_final()),
                                        Err(_) => Got::Err("tryrecv-other".into(), false),
                                    };
                                }
                            }
                        }
                        match rx.recv().await {
                            Ok(Some(it)) => Got::Value(it),
                            Ok(None) => Got::Eos,
                            Err(e) => Got::Err(mpsc_recv_kind(&e), e.is_final()),
                        }
                    }
                    2 => {
                        let mut buf = Vec::new();
                        match rx.recv_many(&mut buf, 1).await {
                            Ok(0) => Got::Eos,
                            Ok(_) => Got::Value(buf.pop().unwrap()),
                            Err(e) => Got::Err(mpsc_recv_kind(&e), e.is_final()),
                        }
                    }
                    3 => match std::future::poll_fn(|cx| rx.poll_recv(cx)).await {
                        Ok(Some(it)) => Got::Value(it),
                        Ok(None) => Got::Eos,
                        Err(e) => Got::Err(mpsc_recv_kind(&e), e.is_final()),
                    },
                    _ => match CancelAt::new(rx.recv(), cancel).await {
                        None => Got::Cancelled,
                        Some(Ok(Some(it))) => Got::Value(it),
                        Some(Ok(None)) => Got::Eos,
                        Some(Err(e)) => Got::Err(mpsc_recv_kind(&e), e.is_final()),
                    },
                }
            }
        }
    }

    /// `recv` that is dropped once it has been left pending for a while with the deserializer thread waiting at
    /// the gate (queue towards that thread full): `Got::Cancelled`
    async fn recv_gated(&mut self) -> Got {
        const ROUNDS: usize = 400;
        match self {
            Rx::Base(rx) => match CancelWhen::new(rx.recv(), de_blocked, ROUNDS).await {
                None => Got::Cancelled,
                Some(Ok(Some(Wire::It(it)))) => Got::Value(it),
                Some(Ok(Some(_))) => Got::Err("unexpected-variant".into(), false),
                Some(Ok(None)) => Got::Eos,
                Some(Err(e)) => Got::Err(base_recv_kind(&e).into(), e.is_final()),
            },
            Rx::Lr(rx) => match CancelWhen::new(rx.recv(), de_blocked, ROUNDS).await {
                None => Got::Cancelled,
                Some(Ok(Some(it))) => Got::Value(it),
                Some(Ok(None)) => Got::Eos,
                Some(Err(e)) => Got::Err(lr_recv_kind(&e).into(), e.is_final()),
            },
            Rx::Mpsc(rx) => match CancelWhen::new(rx.recv(), de_blocked, ROUNDS).await {
                None => Got::Cancelled,
                Some(Ok(Some(it))) => Got::Value(it),
                Some(Ok(None)) => Got::Eos,
                Some(Err(e)) => Got::Err(mpsc_recv_kind(&e), e.is_final()),
            },
        }
    }

    async fn close(&mut self) {
        match self {
            Rx::Base(rx) => rx.close().await,
            Rx::Lr(rx) => rx.close().await,
            Rx::Mpsc(rx) => rx.close(),
        }
    }
}

/// The receiving script: take everything until end-of-stream or a final error; `event` close / droprx
/// after `at` results.  Returns true iff it saw the end of the stream (eos or final error).
async fn receiver_script(mut rx: Rx, case: Rc<Case>, conn_kill: Option<Rc<dyn Fn()>>) -> bool {
    let mut n = 0usize;
    let mut cancel_budget = case.rcancel;
    let mut gate_closed = case.ops.iter().any(|o| o.gate);
    loop {
        if (case.event == "close") && n == case.at {
            rx.close().await;
            tr("rclose".into());
        }
        if case.event == "droprx" && n == case.at {
            tr("rdrop".into());
            drop(rx);
            open_de_gate();
            return false;
        }
        if case.event == "connfail" && n == case.at {
            if let Some(k) = &conn_kill {
                tr("connfail".into());
                k();
            }
        }
        for _ in 0..case.rdelay {
            tokio::task::yield_now().await;
        }
        let c = cancel_budget.take();
        let got = if gate_closed { rx.recv_gated().await } else { rx.recv(c).await };
        if gate_closed && !matches!(got, Got::Cancelled) && (de_blocked() || matches!(got, Got::Eos | Got::Err(_, true))) {
            // the gated item was abandoned by its sender (its deserializer thread is still waiting) or the stream
            // is over: release the thread, a blocked helper thread would inhibit the paused clock
            gate_closed = false;
            open_de_gate();
        }
        match got {
            Got::Cancelled => {
                tr("recvcancel".into());
                if gate_closed {
                    gate_closed = false;
                    open_de_gate();
                }
                continue;
            }
            Got::Value(it) => {
                log_value(&it);
                progress();
            }
            Got::Err(k, f) => {
                tr(format!("recv err kind={k} final={}", f as u8));
                if f {
                    return true;
                }
            }
            Got::Eos => {
                tr("recv eos".into());
                return true;
            }
        }
        n += 1;
        if n > 10_000 {
            tr("recv runaway".into());
            return false;
        }
    }
}

// ------------------------------------------------------------------------------------------
// running one case
// ------------------------------------------------------------------------------------------

fn header(case: &Case, smax: usize, rmax: usize) {
    tr(format!(
        "case {} kind={} event={} at={} topo={} smaxdata={} rmaxdata={} smax={} rmax={} chunk={} buf={}",
        case.name, case.kind, case.event, case.at, case.topo, case.cfga.2, case.cfgb.2, smax, rmax, case.cfgb.0, case.cfgb.1
    ));
}

async fn run_stream_case(case: Rc<Case>) {
    // base and lr: one sender at A, one receiver at B
    let ca = small_cfg(case.cfga.0, case.cfga.1, case.cfga.2, 64);
    let cb = small_cfg(case.cfgb.0, case.cfgb.1, case.cfgb.2, 64);
    let Some((mut a, mut b)) = connect_pair::<Wire, Wire>(ca, cb, 256).await else {
        tr(format!("case {} kind={} skipped=connect", case.name, case.kind));
        tr(format!("end {}", case.name));
        return;
    };
    let mut rng = Rng::new(case.seed);
    header(&case, case.smax, case.rmax);
    let conn_a = Rc::new(RefCell::new(Some(a.conn)));
    let kill: Rc<dyn Fn()> = {
        let conn_a = conn_a.clone();
        Rc::new(move || {
            if let Some(j) = conn_a.borrow_mut().take() {
                j.abort();
            }
        })
    };
    let (mut tx, rx, wrap) = if case.kind == "base" {
        a.tx.set_max_item_size(case.smax);
        b.rx.set_max_item_size(case.rmax);
        (Tx::Base(a.tx), Rx::Base(b.rx), Wrap::Wire)
    } else {
        // lr: topo 0 = the sender half travels (created at B, sender sent to A), 1 = the receiver half travels
        let (mut ltx, mut lrx) = rch::lr::channel::<Item, codec::Default>();
        ltx.set_max_item_size(case.smax);
        lrx.set_max_item_size(case.rmax);
        if case.topo == 0 {
            let r = tokio::join!(b.tx.send(Wire::LTx(ltx)), a.rx.recv());
            match r {
                (Ok(()), Ok(Some(Wire::LTx(mut t)))) => {
                    t.set_max_item_size(case.smax);
                    (Tx::Lr(t), Rx::Lr(lrx), Wrap::Plain)
                }
                _ => {
                    tr("setup failed".into());
                    tr(format!("end {}", case.name));
                    return;
                }
            }
        } else {
            let r = tokio::join!(a.tx.send(Wire::LRx(lrx)), b.rx.recv());
            match r {
                (Ok(()), Ok(Some(Wire::LRx(mut r)))) => {
                    r.set_max_item_size(case.rmax);
                    (Tx::Lr(ltx), Rx::Lr(r), Wrap::Plain)
                }
                _ => {
                    tr("setup failed".into());
                    tr(format!("end {}", case.name));
                    return;
                }
            }
        }
    };
    tr("sender 0 link=0".into());
    let recv_task = tokio::task::spawn_local(receiver_script(rx, case.clone(), Some(kill.clone())));
    // watcher for the Sender::closed() future
    let closed_task = match tx.closed_future().await {
        Some(c) => Some(tokio::task::spawn_local(async move {
            c.await;
            tr("closedfut 0".into());
        })),
        None => None,
    };
    let mut keep = Vec::new();
    let mut sent = 0usize;
    let mut stopped = false;
    for op in &case.ops {
        if case.event == "droptx" && sent == case.at {
            break;
        }
        let bt = build(op, wrap, &mut rng);
        keep.extend(bt.keep);
        let res = tx.send(bt.item, op.cancel).await;
        tr(format!("send 0 {} res={}", bt.line, res));
        progress();
        pause(op.pause).await;
        sent += 1;
        if res.starts_with("closed") || res == "chmux" || res == "connect" {
            stopped = true;
            break;
        }
    }
    if case.event == "close" || case.event == "droprx" || case.event == "connfail" {
        // keep sending small probe items until the sender learns of the event (no clock involved: a helper
        // thread of a dangling streamed item would keep the paused clock from advancing)
        let mut k = 0u32;
        while !stopped && k < 300 {
            let probe = Op { sender: 0, tag: 800_000 + k, len: 1, halves: 0, ser_fail: None, de_fail: None, cancel: None, wait: false, pause: 0, pad: 0, gate: false };
            let bt = build(&probe, wrap, &mut rng);
            let res = tx.send(bt.item, None).await;
            tr(format!("send 0 {} res={}", bt.line, res));
            progress();
            if res != "ok" {
                // (no virtual sleep any more: the receiver may hold a helper thread for a streamed item that the
                // close cut short; it is released only by the sender's next message or its drop)
                stopped = true;
                break;
            }
            k += 1;
            // virtual sleep: returns once everything else is idle *and* no helper thread is outstanding
            tokio::time::sleep(Duration::from_millis(1)).await;
        }
        if !stopped {
            tr("probe-never-failed 0".into());
        }
        // no virtual sleep here: the receiver may hold a helper thread for a streamed item that the close cut
        // short, and that thread is released only by the sender's next message or its drop
        for _ in 0..20 {
            tokio::task::yield_now().await;
        }
        let st = tx.state_line().await;
        tr(format!("state 0 {st} closedfut={}", closed_task.as_ref().map(|t| t.is_finished() as u8).unwrap_or(2)));
        let probe = Op { sender: 0, tag: 900_000, len: 1, halves: 0, ser_fail: None, de_fail: None, cancel: None, wait: false, pause: 0, pad: 0, gate: false };
        let bt = build(&probe, wrap, &mut rng);
        let res = tx.send(bt.item, None).await;
        tr(format!("send 0 {} res={}", bt.line, res));
    }
    tr("txdrop 0".into());
    drop(tx);
    let complete = match no_hang(recv_task).await {
        Some(Ok(c)) => c,
        Some(Err(_)) => {
            tr("recv panicked".into());
            false
        }
        None => {
            tr("hang receiver".into());
            false
        }
    };
    settle().await;
    if let Some(t) = closed_task {
        if !t.is_finished() {
            tr("closedfut-pending 0".into());
        }
        t.abort();
    }
    tr(format!("done complete={}", complete as u8));
    tr(format!("end {}", case.name));
    drop(keep);
    kill();
    b.conn.abort();
}

async fn run_mpsc_case(case: Rc<Case>) {
    let ca = small_cfg(case.cfga.0, case.cfga.1, case.cfga.2, 64);
    let cb = small_cfg(case.cfgb.0, case.cfgb.1, case.cfgb.2, 64);
    let Some((mut a, mut b)) = connect_pair::<Wire, Wire>(ca, cb, 256).await else {
        tr(format!("case {} kind={} skipped=connect", case.name, case.kind));
        tr(format!("end {}", case.name));
        return;
    };
    let rng = Rc::new(RefCell::new(Rng::new(case.seed)));
    let conn_a = Rc::new(RefCell::new(Some(a.conn)));
    let kill: Rc<dyn Fn()> = {
        let conn_a = conn_a.clone();
        Rc::new(move || {
            if let Some(j) = conn_a.borrow_mut().take() {
                j.abort();
            }
        })
    };
    // topo 0: channel made at B, receiver stays at B, `r` senders travel to A (one link each),
    //         `c<i>` = clone of sender i (same place, same link), `l` = clone that stays at B (local).
    // topo 1: channel made at A, the receiver travels to B, all senders stay at A and share link 0.
    let (tx0, rx0) = rch::mpsc::channel::<Item, codec::Default>(2);
    let tx0: MTx = tx0.set_buffer::<2>();
    let rx0: MRx = rx0.set_buffer::<2>().set_max_item_size::<MAXI>();
    let mut tx0 = tx0;
    tx0.set_max_item_size(case.smax);
    let (eff_s, eff_r) = if case.topo == 0 { (case.smax, case.smax) } else { (MAXI, MAXI) };
    header(&case, eff_s, eff_r);
    let mut senders: Vec<Option<MTx>> = Vec::new();
    let rx: MRx;
    let mut links = 0usize;
    let mut link_of: Vec<String> = Vec::new();
    if case.topo == 0 {
        rx = rx0;
        for s in &case.senders {
            if s == "r" {
                let r = tokio::join!(b.tx.send(Wire::MTx(tx0.clone())), a.rx.recv());
                match r {
                    (Ok(()), Ok(Some(Wire::MTx(t)))) => {
                        senders.push(Some(t));
                        link_of.push(links.to_string());
                        links += 1;
                    }
                    _ => {
                        tr("setup failed".into());
                        tr(format!("end {}", case.name));
                        return;
                    }
                }
            } else if s == "l" {
                senders.push(Some(tx0.clone()));
                link_of.push("local".into());
            } else {
                let i: usize = s[1..].parse().unwrap();
                let c = senders[i].as_ref().unwrap().clone();
                senders.push(Some(c));
                link_of.push(link_of[i].clone());
            }
        }
        drop(tx0);
    } else {
        let r = tokio::join!(a.tx.send(Wire::MRx(rx0)), b.rx.recv());
        match r {
            (Ok(()), Ok(Some(Wire::MRx(r)))) => rx = r,
            _ => {
                tr("setup failed".into());
                tr(format!("end {}", case.name));
                return;
            }
        }
        for _ in &case.senders {
            senders.push(Some(tx0.clone()));
            link_of.push("0".into());
        }
        drop(tx0);
    }
    for (i, l) in link_of.iter().enumerate() {
        tr(format!("sender {i} link={l}"));
    }
    settle().await;
    let recv_task = tokio::task::spawn_local(receiver_script(Rx::Mpsc(rx), case.clone(), Some(kill.clone())));
    let keep: Rc<RefCell<Vec<rch::mpsc::Receiver<u8>>>> = Rc::new(RefCell::new(Vec::new()));
    let handles: Rc<RefCell<Vec<(usize, u32, rch::Sending<Item>)>>> = Rc::new(RefCell::new(Vec::new()));
    let mut tasks = Vec::new();
    for (i, s) in senders.iter_mut().enumerate() {
        let tx = s.take().unwrap();
        let ops: Vec<Op> = case.ops.iter().filter(|o| o.sender == i).cloned().collect();
        let case = case.clone();
        let rng = rng.clone();
        let keep = keep.clone();
        let handles = handles.clone();
        let is_local = link_of[i] == "local";
        let watcher = {
            let tx = tx.clone();
            tokio::task::spawn_local(async move {
                tx.closed().await;
                tr(format!("closedfut {i}"));
            })
        };
        tasks.push(tokio::task::spawn_local(async move {
            let mut sent = 0usize;
            let mut stopped = false;
            for op in &ops {
                if case.event == "droptx" && sent == case.at {
                    break;
                }
                let bt = build(op, Wrap::Mpsc, &mut rng.borrow_mut());
                keep.borrow_mut().extend(bt.keep);
                // which sending API is used is a function of the case: send / reserve + Permit::send / try_send
                let smode = if op.cancel.is_some() || case.name.starts_with("fixed") || case.name.starts_with("sweep") { 0 } else { (case.seed / 4) % 3 };
                let r = match smode {
                    1 => match tx.reserve().await {
                        Ok(permit) => Some(Ok(permit.send(bt.item))),
                        Err(e) => {
                            // same classification as `send`; the value never left the caller
                            tr(format!(
                                "send {i} {} res={} isclosed={} reason={} disconnected={} itemspecific={}",
                                bt.line,
                                mpsc_send_kind(&e),
                                e.is_closed() as u8,
                                reason(e.closed_reason()),
                                e.is_disconnected() as u8,
                                e.is_item_specific() as u8
                            ));
                            progress();
                            stopped = true;
                            break;
                        }
                    },
                    2 => {
                        let mut item = Some(bt.item);
                        let mut out = None;
                        for _ in 0..30 {
                            match tx.try_send(item.take().unwrap()) {
                                Ok(h) => {
                                    out = Some(Ok(h));
                                    break;
                                }
                                Err(rch::mpsc::TrySendError::Full(v)) => {
                                    item = Some(v);
                                    tokio::task::yield_now().await;
                                }
                                Err(e) => {
                                    let e: Result<rch::mpsc::SendError<Item>, _> = e.try_into();
                                    out = Some(Err(e.ok().expect("not Full")));
                                    break;
                                }
                            }
                        }
                        match out {
                            Some(r) => Some(r),
                            None => Some(tx.send(item.take().unwrap()).await),
                        }
                    }
                    _ => CancelAt::new(tx.send(bt.item), op.cancel).await,
                };
                sent += 1;
                progress();
                match r {
                    None => tr(format!("send {i} {} res=cancelled", bt.line)),
                    Some(Ok(h)) => {
                        tr(format!("send {i} {} res=queued", bt.line));
                        pause(op.pause).await;
                        if op.wait {
                            let r = h.await;
                            tr(format!("handle {i} tag={} res={}", op.tag, sending_kind(&r)));
                        } else {
                            handles.borrow_mut().push((i, op.tag, h));
                        }
                    }
                    Some(Err(e)) => {
                        let cls = mpsc_send_kind(&e);
                        tr(format!(
                            "send {i} {} res={} isclosed={} reason={} disconnected={} itemspecific={}",
                            bt.line,
                            cls,
                            e.is_closed() as u8,
                            reason(e.closed_reason()),
                            e.is_disconnected() as u8,
                            e.is_item_specific() as u8
                        ));
                        stopped = true;
                        break;
                    }
                }
            }
            if case.event == "close" || case.event == "droprx" || (case.event == "connfail" && !is_local) {
                // keep sending probe items until this sender learns of the event (no clock involved)
                let mut k = 0u32;
                while !stopped && k < 300 {
                    let probe = Op { sender: i, tag: 800_000 + 1000 * i as u32 + k, len: 1, halves: 0, ser_fail: None, de_fail: None, cancel: None, wait: false, pause: 0, pad: 0, gate: false };
                    let bt = build(&probe, Wrap::Mpsc, &mut rng.borrow_mut());
                    match tx.send(bt.item).await {
                        Ok(h) => {
                            tr(format!("send {i} {} res=queued", bt.line));
                            handles.borrow_mut().push((i, probe.tag, h));
                        }
                        Err(e) => {
                            tr(format!(
                                "send {i} {} res={} isclosed={} reason={} disconnected={} itemspecific={}",
                                bt.line,
                                mpsc_send_kind(&e),
                                e.is_closed() as u8,
                                reason(e.closed_reason()),
                                e.is_disconnected() as u8,
                                e.is_item_specific() as u8
                            ));
                            stopped = true;
                        }
                    }
                    progress();
                    k += 1;
                    if stopped {
                        break;
                    }
                    tokio::time::sleep(Duration::from_millis(1)).await;
                }
                if !stopped {
                    tr(format!("probe-never-failed {i}"));
                }
                tokio::time::sleep(Duration::from_millis(1)).await;
                tr(format!(
                    "state {i} isclosed={} reason={} closedfut={}",
                    tx.is_closed() as u8,
                    reason(tx.closed_reason()),
                    watcher.is_finished() as u8
                ));
                let probe = Op { sender: i, tag: 900_000 + i as u32, len: 1, halves: 0, ser_fail: None, de_fail: None, cancel: None, wait: false, pause: 0, pad: 0, gate: false };
                let bt = build(&probe, Wrap::Mpsc, &mut rng.borrow_mut());
                match tx.send(bt.item).await {
                    Ok(h) => {
                        tr(format!("send {i} {} res=queued", bt.line));
                        handles.borrow_mut().push((i, probe.tag, h));
                    }
                    Err(e) => tr(format!(
                        "send {i} {} res={} isclosed={} reason={} disconnected={} itemspecific={}",
                        bt.line,
                        mpsc_send_kind(&e),
                        e.is_closed() as u8,
                        reason(e.closed_reason()),
                        e.is_disconnected() as u8,
                        e.is_item_specific() as u8
                    )),
                }
            }
            if i >= 1 && (case.event == "none" || case.event == "droptx") {
                // later senders stay alive a little longer: an end-of-stream that does not wait for them shows
                tokio::time::sleep(Duration::from_millis(3 * i as u64)).await;
            }
            // the watcher owns a clone of the sender: it must go before the sender counts as dropped
            watcher.abort();
            let _ = watcher.await;
            tr(format!("txdrop {i}"));
            drop(tx);
        }));
    }
    for (i, t) in tasks.into_iter().enumerate() {
        match no_hang(t).await {
            Some(Ok(())) => (),
            Some(Err(_)) => tr(format!("sender {i} panicked")),
            None => tr(format!("hang sender {i}")),
        }
    }
    let complete = match no_hang(recv_task).await {
        Some(Ok(c)) => c,
        Some(Err(_)) => {
            tr("recv panicked".into());
            false
        }
        None => {
            tr("hang receiver".into());
            false
        }
    };
    settle().await;
    for (i, tag, mut h) in handles.borrow_mut().drain(..) {
        let r = h.try_result();
        match r {
            Some(r) => tr(format!("handle {i} tag={tag} res={}", sending_kind(&r))),
            None => tr(format!("handle {i} tag={tag} res=pending")),
        }
    }
    tr(format!("done complete={}", complete as u8));
    tr(format!("end {}", case.name));
    kill();
    b.conn.abort();
}

async fn run_oneshot_case(case: Rc<Case>) {
    let ca = small_cfg(case.cfga.0, case.cfga.1, case.cfga.2, 64);
    let cb = small_cfg(case.cfgb.0, case.cfgb.1, case.cfgb.2, 64);
    let Some((mut a, mut b)) = connect_pair::<Wire, Wire>(ca, cb, 256).await else {
        tr(format!("case {} kind={} skipped=connect", case.name, case.kind));
        tr(format!("end {}", case.name));
        return;
    };
    let mut rng = Rng::new(case.seed);
    let (mut otx, orx) = rch::oneshot::channel::<Item, codec::Default>();
    let orx: ORx = orx.set_max_item_size::<MAXI>();
    otx.set_max_item_size(case.smax);
    let (eff_s, eff_r) = if case.topo == 0 { (case.smax, case.smax) } else { (MAXI, MAXI) };
    header(&case, eff_s, eff_r);
    // topo 0: sender travels B -> A; topo 1: receiver travels A -> B; topo 2: both local (no connection involved)
    let (otx, mut orx) = match case.topo {
        0 => match tokio::join!(b.tx.send(Wire::OTx(otx)), a.rx.recv()) {
            (Ok(()), Ok(Some(Wire::OTx(t)))) => (t, orx),
            _ => {
                tr("setup failed".into());
                tr(format!("end {}", case.name));
                return;
            }
        },
        1 => match tokio::join!(a.tx.send(Wire::ORx(orx)), b.rx.recv()) {
            (Ok(()), Ok(Some(Wire::ORx(r)))) => (otx, r),
            _ => {
                tr("setup failed".into());
                tr(format!("end {}", case.name));
                return;
            }
        },
        _ => (otx, orx),
    };
    tr(format!("sender 0 link={}", if case.topo == 2 { "local" } else { "0" }));
    settle().await;
    let mut keep = Vec::new();
    let mut handle = None;
    let mut otx = Some(otx);
    // `at >= 1`: the value is sent first and the close / drop follows at once (no scheduler round in between),
    // so that it finds the value in the local queue or on its way
    let late = case.at >= 1 && (case.event == "close" || case.event == "droprx");
    if case.event == "close" && !late {
        orx.close();
        tr("rclose".into());
        settle().await;
    }
    let mut orx = Some(orx);
    if case.event == "droprx" && !late {
        tr("rdrop".into());
        orx = None;
        settle().await;
    }
    if (case.event == "close" || case.event == "droprx") && !late {
        let t = otx.as_ref().unwrap();
        if no_hang(t.closed()).await.is_none() {
            tr("hang closed 0".into());
        } else {
            tr("closedfut 0".into());
        }
        tr(format!("state 0 isclosed={} reason={}", t.is_closed() as u8, reason(t.closed_reason())));
    }
    if case.event == "droptx" {
        tr("txdrop 0".into());
        otx = None;
    }
    if let (Some(op), Some(t)) = (case.ops.first(), otx.take()) {
        let wrap = if case.topo == 2 { Wrap::Plain } else { Wrap::Mpsc };
        let bt = build(op, wrap, &mut rng);
        keep.extend(bt.keep);
        match t.send(bt.item) {
            Ok(h) => {
                tr(format!("send 0 {} res=queued", bt.line));
                handle = Some((op.tag, h));
            }
            Err(e) => tr(format!("send 0 {} res={} isclosed={}", bt.line, if e.is_closed() { "closed" } else { "failed" }, e.is_closed() as u8)),
        }
        tr("txdrop 0".into());
    }
    if late {
        if case.event == "close" {
            orx.as_mut().unwrap().close();
            tr("rclose".into());
        } else {
            tr("rdrop".into());
            orx = None;
        }
        settle().await;
    }
    let mut complete = false;
    if let Some(r) = orx.take() {
        match no_hang(r).await {
            None => tr("hang receiver".into()),
            Some(Ok(it)) => {
                log_value(&it);
                complete = true;
            }
            Some(Err(e)) => {
                complete = true;
                match &e {
                    rch::oneshot::RecvError::Closed => tr("recv eos".into()),
                    rch::oneshot::RecvError::RemoteReceive(b) => {
                        tr(format!("recv err kind={} final={}", base_recv_kind(b), b.is_final() as u8))
                    }
                    rch::oneshot::RecvError::RemoteConnect(_) => tr("recv err kind=rconnect final=1".into()),
                    rch::oneshot::RecvError::RemoteListen(_) => tr("recv err kind=rlisten final=1".into()),
                }
            }
        }
    }
    settle().await;
    if let Some((tag, mut h)) = handle {
        match h.try_result() {
            Some(r) => tr(format!("handle 0 tag={tag} res={}", sending_kind(&r))),
            None => tr(format!("handle 0 tag={tag} res=pending")),
        }
    }
    tr(format!("done complete={}", complete as u8));
    tr(format!("end {}", case.name));
    a.conn.abort();
    b.conn.abort();
}

/// bin channel (C11 only): raw byte messages over the chmux port behind `rch::bin`.
async fn run_bin_case(case: Rc<Case>) {
    let ca = small_cfg(case.cfga.0, case.cfga.1, case.cfga.2, 64);
    let cb = small_cfg(case.cfgb.0, case.cfgb.1, case.cfgb.2, 64);
    let Some((mut a, mut b)) = connect_pair::<Wire, Wire>(ca, cb, 256).await else {
        tr(format!("case {} kind={} skipped=connect", case.name, case.kind));
        tr(format!("end {}", case.name));
        return;
    };
    let mut rng = Rng::new(case.seed);
    header(&case, usize::MAX / 2, usize::MAX / 2);
    let (btx, brx) = rch::bin::channel();
    let (mut btx, mut brx) = if case.topo == 0 {
        match tokio::join!(b.tx.send(Wire::BTx(btx)), a.rx.recv()) {
            (Ok(()), Ok(Some(Wire::BTx(t)))) => (t, brx),
            _ => {
                tr("setup failed".into());
                tr(format!("end {}", case.name));
                return;
            }
        }
    } else {
        match tokio::join!(a.tx.send(Wire::BRx(brx)), b.rx.recv()) {
            (Ok(()), Ok(Some(Wire::BRx(r)))) => (btx, r),
            _ => {
                tr("setup failed".into());
                tr(format!("end {}", case.name));
                return;
            }
        }
    };
    tr("sender 0 link=0".into());
    let (Ok(tx), Ok(rx)) = (btx.get().await.map(|_| ()), brx.get().await.map(|_| ())) else {
        tr("setup failed".into());
        tr(format!("end {}", case.name));
        return;
    };
    let _ = (tx, rx);
    let mut tx = btx.into_inner().await.unwrap();
    let mut rx = brx.into_inner().await.unwrap();
    rx.set_max_data_size(1 << 20);
    let casec = case.clone();
    let recv_task = tokio::task::spawn_local(async move {
        let mut n = 0usize;
        let mut rx = Some(rx);
        loop {
            if casec.event == "close" && n == casec.at {
                rx.as_mut().unwrap().close().await;
                tr("rclose".into());
            }
            if casec.event == "droprx" && n == casec.at {
                tr("rdrop".into());
                rx = None;
                return false;
            }
            match rx.as_mut().unwrap().recv().await {
                Ok(Some(d)) => {
                    let v: Vec<u8> = d.into();
                    let tag = if v.len() >= 4 { u32::from_le_bytes([v[0], v[1], v[2], v[3]]) } else { 0 };
                    tr(format!("recv value tag={tag} halves=0 data={}", hex(&v[4.min(v.len())..])));
                    progress();
                }
                Ok(None) => {
                    tr("recv eos".into());
                    return true;
                }
                Err(e) => {
                    tr(format!("recv err kind={} final={}", if e.is_terminated() { "chmux" } else { "receive" }, e.is_final() as u8));
                    if e.is_final() {
                        return true;
                    }
                }
            }
            n += 1;
        }
    });
    let closed = tx.closed();
    let closed_task = tokio::task::spawn_local(async move {
        closed.await;
        tr("closedfut 0".into());
    });
    let mut sent = 0usize;
    let mut stopped = false;
    let send_one = async |tx: &mut remoc::chmux::Sender, tag: u32, len: usize, rng: &mut Rng| -> String {
        let data = rng.bytes(len);
        let mut v = tag.to_le_bytes().to_vec();
        v.extend_from_slice(&data);
        let res = match tx.send(v.into()).await {
            Ok(()) => "ok",
            Err(e) => chmux_send(&e),
        };
        tr(format!("send 0 tag={tag} size={} sizehi={} halves=0 serfail=- serfailhi=- defail=0 cancel=- data={} res={res}", len + 4, len + 4, hex(&data)));
        res.to_string()
    };
    for op in &case.ops {
        if case.event == "droptx" && sent == case.at {
            break;
        }
        let res = send_one(&mut tx, op.tag, op.len, &mut rng).await;
        sent += 1;
        progress();
        if res != "ok" {
            settle().await;
            tr(format!("state 0 isclosed={}", tx.is_closed() as u8));
            send_one(&mut tx, 900_000 + op.tag, 1, &mut rng).await;
            stopped = true;
            break;
        }
    }
    if !stopped && (case.event == "close" || case.event == "droprx") {
        settle().await;
        tr(format!("state 0 isclosed={}", tx.is_closed() as u8));
        send_one(&mut tx, 900_000, 1, &mut rng).await;
    }
    tr("txdrop 0".into());
    drop(tx);
    let complete = match no_hang(recv_task).await {
        Some(Ok(c)) => c,
        _ => {
            tr("hang receiver".into());
            false
        }
    };
    settle().await;
    if !closed_task.is_finished() {
        tr("closedfut-pending 0".into());
    }
    closed_task.abort();
    tr(format!("done complete={}", complete as u8));
    tr(format!("end {}", case.name));
    a.conn.abort();
    b.conn.abort();
}

fn run_case(case: Case) -> Vec<String> {
    clear_fails();
    MPSC_RMODE.with(|m| m.set(if case.name.starts_with("fixed") || case.name.starts_with("sweep") { 0 } else { case.seed % 4 }));
    if let Some(o) = case.ops.iter().find(|o| o.gate) {
        set_de_gate(Some(o.tag));
    }
    let start = verif_harness::trace::len();
    for l in case.spec_lines() {
        tr(format!("spec {l}"));
    }
    let name = case.name.clone();
    let res = std::panic::catch_unwind(std::panic::AssertUnwindSafe(|| {
        let rt = runtime();
        let local = tokio::task::LocalSet::new();
        let case = Rc::new(case);
        local.block_on(&rt, async move {
            match case.kind.as_str() {
                "base" | "lr" => run_stream_case(case).await,
                "mpsc" => run_mpsc_case(case).await,
                "oneshot" => run_oneshot_case(case).await,
                "bin" => run_bin_case(case).await,
                k => tr(format!("unknown kind {k}")),
            }
        });
        rt.shutdown_timeout(Duration::from_millis(200));
    }));
    open_de_gate();
    if res.is_err() {
        tr(format!("panicked {name}"));
        tr(format!("end {name}"));
    }
    verif_harness::trace::snapshot_from(start)
}

// ------------------------------------------------------------------------------------------
// generators
// ------------------------------------------------------------------------------------------

fn stat(stats: &mut HashMap<String, u64>, k: &str) {
    *stats.entry(k.to_string()).or_insert(0) += 1;
}

/// payload lengths such that the encoded size lands on / next to each limit
fn boundary_len(r: &mut Rng, limits: &[usize], overhead: usize) -> usize {
    match r.below(10) {
        0 => 0,
        1 => 1,
        2 => r.range(2, 12) as usize,
        _ => {
            let l = *r.pick(limits);
            let d = r.range(0, 4) as i64 - 2;
            (l as i64 + d - overhead as i64).max(0) as usize
        }
    }
}

fn gen_cfg(r: &mut Rng) -> ((u32, u32, usize), (u32, u32, usize)) {
    // chunk sizes >= 10 (the 26-byte Hello must fit max_frame_length = 16 + chunk_size)
    let chunk = *r.pick(&[10u32, 11, 16, 32]);
    let buf = *r.pick(&[10u32, 16, 33, 64, 200]);
    let md = *r.pick(&[12usize, 24, 40, 64]);
    let chunk2 = if r.chance(1, 3) { *r.pick(&[10u32, 13, 16]) } else { chunk };
    let buf2 = if r.chance(1, 3) { *r.pick(&[10u32, 17, 48]) } else { buf };
    let md2 = if r.chance(1, 3) { *r.pick(&[12usize, 24, 40, 64]) } else { md };
    ((chunk, buf, md), (chunk2, buf2, md2))
}

fn gen_ops(r: &mut Rng, n: usize, nsenders: usize, limits: &[usize], overhead: usize, allow_cancel: bool, allow_halves: bool,
           stats: &mut HashMap<String, u64>, tag0: u32) -> Vec<Op> {
    let mut ops = Vec::new();
    for k in 0..n {
        let sender = r.below(nsenders as u64) as usize;
        let mut len = boundary_len(r, limits, overhead);
        let mut halves = 0;
        if allow_halves && r.chance(1, 6) {
            halves = r.range(1, 2) as usize;
            // keep the size of items with halves away from the limits (their encoded size is known only up to 4 bytes per half)
            len = r.range(0, 6) as usize;
            stat(stats, "items_with_halves");
        }
        let ser_fail = if r.chance(1, 6) {
            stat(stats, "ser_fail");
            Some(match r.below(4) {
                0 => 0,
                1 => len,
                _ => r.below(len as u64 + 1) as usize,
            })
        } else {
            None
        };
        let de_fail = if ser_fail.is_none() && r.chance(1, 10) {
            stat(stats, "de_fail");
            Some(r.below(len as u64 + 1) as usize)
        } else {
            None
        };
        let cancel = if allow_cancel && r.chance(1, 7) {
            stat(stats, "send_cancel");
            Some(r.range(1, if halves > 0 { 14 } else { 6 }) as usize)
        } else {
            None
        };
        ops.push(Op { sender, tag: tag0 + k as u32, len, halves, ser_fail, de_fail, cancel, wait: r.chance(1, 4), pause: if r.chance(1, 8) { 1 } else { 0 }, pad: 0, gate: false });
    }
    ops
}

fn gen_case(g: &str, r: &mut Rng, i: u64, stats: &mut HashMap<String, u64>) -> Case {
    let (cfga, cfgb) = gen_cfg(r);
    let smax = *r.pick(&[48usize, 80, 120, 149]);
    let rmax = if r.chance(1, 3) { *r.pick(&[40usize, 80, 120]) } else { smax };
    let limits = [cfga.2, cfgb.2, smax, rmax, cfgb.0 as usize, 2 * cfgb.0 as usize];
    let seed = r.next_u64() >> 1;
    let mut c = Case {
        name: format!("{g}-{i}"),
        kind: "base".into(),
        event: "none".into(),
        at: 0,
        topo: 0,
        senders: vec![],
        cfga,
        cfgb,
        smax,
        rmax,
        rdelay: if r.chance(1, 3) { r.range(1, 5) as usize } else { 0 },
        rcancel: if r.chance(1, 4) { Some(r.range(1, 4) as usize) } else { None },
        seed,
        ops: vec![],
    };
    let kind = match g {
        "typed" => *r.pick(&["base", "base", "lr", "mpsc", "mpsc", "mpsc", "oneshot"]),
        "c11" => *r.pick(&["base", "lr", "mpsc", "mpsc", "oneshot", "bin"]),
        k => k,
    };
    c.kind = kind.into();
    stat(stats, &format!("kind_{kind}"));
    let n = r.range(3, 10) as usize;
    match kind {
        "base" => c.ops = gen_ops(r, n, 1, &limits, 6, true, true, stats, 1),
        "lr" => {
            c.topo = r.below(2) as usize;
            c.ops = gen_ops(r, n, 1, &limits, 3, true, true, stats, 1);
        }
        "mpsc" => {
            c.topo = r.below(2) as usize;
            let ns = r.range(1, 3) as usize;
            if c.topo == 0 {
                c.senders = vec!["r".into()];
                for k in 1..ns {
                    c.senders.push(match r.below(3) {
                        0 => "r".into(),
                        1 => "l".into(),
                        _ => format!("c{}", r.below(k as u64)),
                    });
                }
                c.rmax = c.smax;
            } else {
                c.senders = (0..ns).map(|k| if k == 0 { "r".to_string() } else { "c0".to_string() }).collect();
                c.smax = MAXI;
                c.rmax = MAXI;
            }
            let limits = [cfga.2, cfgb.2, c.smax, c.rmax, cfgb.0 as usize];
            c.rcancel = None;
            let ac = r.chance(1, 3);
            c.ops = gen_ops(r, n + 2, ns, &limits, 6, ac, true, stats, 1);
            stat(stats, &format!("mpsc_senders_{ns}"));
        }
        "oneshot" => {
            c.topo = r.below(3) as usize;
            if c.topo != 0 {
                c.smax = MAXI;
            }
            c.rmax = c.smax;
            let limits = [cfga.2, cfgb.2, c.smax];
            c.ops = gen_ops(r, 1, 1, &limits, 6, false, false, stats, 1);
        }
        _ => {
            c.topo = r.below(2) as usize;
            c.ops = (0..n)
                .map(|k| Op { sender: 0, tag: 1 + k as u32, len: boundary_len(r, &limits, 4), halves: 0, ser_fail: None, de_fail: None, cancel: None, wait: false, pause: 0, pad: 0, gate: false })
                .collect();
        }
    }
    if g == "c11" {
        let ev = match kind {
            "oneshot" => *r.pick(&["close", "droprx", "droptx", "none"]),
            "bin" => *r.pick(&["close", "droprx", "droptx"]),
            _ => *r.pick(&["close", "close", "droprx", "droptx", "connfail"]),
        };
        c.event = ev.into();
        c.at = r.below(c.ops.len() as u64 + 1) as usize;
        // close/drop scenarios: keep item failures rare so that positions are meaningful
        for o in c.ops.iter_mut() {
            o.cancel = None;
            if r.chance(2, 3) {
                o.ser_fail = None;
                o.de_fail = None;
            }
        }
        c.rcancel = None;
        stat(stats, &format!("event_{ev}"));
    } else if matches!(kind, "base" | "lr") && r.chance(1, 4) {
        // slow deserializer: one plain item becomes a streamed item of more than 32 chunks whose deserializer
        // thread waits at the gate; the receiver cancels its recv when the queue towards that thread is full
        let plain: Vec<usize> = (0..c.ops.len())
            .filter(|&k| {
                let o = &c.ops[k];
                o.ser_fail.is_none() && o.de_fail.is_none() && o.cancel.is_none() && o.halves == 0 && o.pad == 0
            })
            .collect();
        if !plain.is_empty() {
            let k = *r.pick(&plain);
            let chunk = c.cfga.0.max(c.cfgb.0) as usize;
            c.ops[k].len = chunk * r.range(34, 60) as usize + r.below(chunk as u64) as usize;
            c.ops[k].gate = true;
            c.ops[k].wait = false;
            c.smax = c.smax.max(c.ops[k].len + 64);
            c.rmax = c.smax;
            c.rcancel = None;
            stat(stats, "slow_deserializer");
        }
    }
    c
}

/// Systematic C11 sweep: every kind of channel x every event x every position of a five-item stream
/// (the third item is streamed in chunks where the kind serializes).
fn c11_sweep() -> Vec<Case> {
    let mut text = String::new();
    let kinds: [(&str, usize, &str); 9] = [
        ("base", 0, "-"),
        ("lr", 0, "-"),
        ("lr", 1, "-"),
        ("mpsc", 0, "r"),
        ("mpsc", 0, "r,l,r"),
        ("mpsc", 1, "r,c0"),
        ("mpsc", 0, "r,c0,l"),
        ("bin", 0, "-"),
        ("bin", 1, "-"),
    ];
    for (kind, topo, senders) in kinds {
        for event in ["close", "droprx", "droptx", "connfail"] {
            if kind == "bin" && event == "connfail" {
                continue;
            }
            for at in 0..=5usize {
                let ns = if senders == "-" { 1 } else { senders.split(',').count() };
                text.push_str(&format!(
                    "case sweep-{kind}{topo}-{}-{event}-{at} kind={kind} event={event} at={at} topo={topo} senders={senders} cfga=10,16,24 cfgb=10,16,24 smax=149 rmax=149 seed={}\n",
                    senders.replace(',', ""),
                    at + 1
                ));
                for (k, len) in [3usize, 12, 40, 1, 20].iter().enumerate() {
                    text.push_str(&format!("op {} tag={} len={len}\n", k % ns, k + 1));
                }
                text.push_str("end\n");
            }
        }
    }
    for topo in 0..3usize {
        for event in ["close", "droprx", "droptx", "none"] {
            for len in [3usize, 40] {
                for at in 0..2usize {
                    if at == 1 && !(event == "close" || event == "droprx") {
                        continue;
                    }
                    text.push_str(&format!(
                        "case sweep-oneshot{topo}-{event}-{len}-{at} kind=oneshot event={event} at={at} topo={topo} cfga=10,16,24 cfgb=10,16,24 smax=149 rmax=149 seed=5\nop 0 tag=1 len={len}\nend\n"
                    ));
                }
            }
        }
    }
    Case::parse(&text.lines().map(|s| s.to_string()).collect::<Vec<_>>())
}

/// Fixed regression cases (always run): the F1 scenario one layer up and friends.
fn fixed_cases() -> Vec<Case> {
    let text = r#"
# streamed item whose serialization fails mid-stream, followed by further items (F1 one layer up)
case fixed-f1-serfail kind=base cfga=10,16,24 cfgb=10,16,24 smax=120 rmax=120 seed=11
op 0 tag=1 len=5
op 0 tag=2 len=60 serfail=40
op 0 tag=3 len=7
op 0 tag=4 len=50
op 0 tag=5 len=2
end
# slow deserializer: recv is cancelled while it waits for space in the queue towards the deserializer thread of a
# streamed item of more than 32 chunks, then called again; the item and its neighbours must arrive intact
case fixed-slow-deserializer kind=base cfga=10,16,24 cfgb=10,16,24 smax=2000 rmax=2000 seed=13
op 0 tag=1 len=5
op 0 tag=2 len=700 gate=1
op 0 tag=3 len=7
op 0 tag=4 len=60
end
case fixed-slow-deserializer-lr kind=lr cfga=16,64,40 cfgb=16,64,40 smax=4000 rmax=4000 seed=14
op 0 tag=1 len=900 gate=1
op 0 tag=2 len=3
end
case fixed-slow-deserializer-mpsc kind=mpsc senders=r cfga=10,33,24 cfgb=10,33,24 smax=2000 rmax=2000 seed=15
op 0 tag=1 len=9
op 0 tag=2 len=640 gate=1
op 0 tag=3 len=50
end
# streamed item cancelled by the caller mid-stream, followed by further items
case fixed-f1-cancel kind=base cfga=10,16,24 cfgb=10,16,24 smax=120 rmax=120 seed=12
op 0 tag=1 len=40
op 0 tag=2 len=90 cancel=4
op 0 tag=3 len=7
op 0 tag=4 len=30 cancel=3
op 0 tag=5 len=50
op 0 tag=6 len=1
end
# over-size in both modes, receive-side limit smaller than send-side limit
case fixed-oversize kind=base cfga=10,16,24 cfgb=10,16,24 smax=80 rmax=48 seed=13
op 0 tag=1 len=5
op 0 tag=2 len=100
op 0 tag=3 len=7
op 0 tag=4 len=60
op 0 tag=5 len=100
op 0 tag=6 len=30
op 0 tag=7 len=3
end
# item with halves whose send is dropped before the port batch, then items with and without halves
case fixed-ports kind=base cfga=16,64,200 cfgb=16,64,200 smax=400 rmax=400 seed=14
op 0 tag=1 len=3 halves=1
op 0 tag=2 len=3 halves=2 cancel=2
op 0 tag=3 len=3
op 0 tag=4 len=3 halves=2 cancel=3
op 0 tag=5 len=3 halves=1
op 0 tag=6 len=3
end
# same through lr and mpsc
case fixed-lr kind=lr topo=0 cfga=10,16,24 cfgb=10,16,24 smax=120 rmax=120 seed=15
op 0 tag=1 len=5
op 0 tag=2 len=60 serfail=40
op 0 tag=3 len=7
op 0 tag=4 len=130
op 0 tag=5 len=50 defail=20
op 0 tag=6 len=2
end
case fixed-mpsc kind=mpsc topo=0 senders=r,l,r cfga=10,16,24 cfgb=10,16,24 smax=120 rmax=120 seed=16
op 0 tag=1 len=5
op 0 tag=2 len=60 serfail=40
op 0 tag=3 len=7
op 1 tag=4 len=30
op 2 tag=5 len=130
op 2 tag=6 len=50
op 1 tag=7 len=2
end
"#;
    let mut cases = Case::parse(&text.lines().map(|s| s.to_string()).collect::<Vec<_>>());
    // sweep of the cancellation point of an item with embedded halves: some of these polls fall between the
    // data message and the port-request batch (the receiver then holds a deserialized item that never gets
    // its ports and must abandon it when the next message starts - without losing that message)
    let mut sweep = String::new();
    for (cfg, halves, len, ks) in [("11,200,200", 1, 2, 1..=8), ("16,33,200", 2, 20, 4..=12), ("10,64,200", 2, 2, 3..=9), ("10,8,200", 1, 2, 9..=15)] {
        for k in ks {
            sweep.push_str(&format!(
                "case fixed-portswindow-{}-h{halves}-k{k} kind=base cfga={cfg} cfgb={cfg} smax=400 rmax=400 seed={k}\n\
                 op 0 tag=1 len=3\nop 0 tag=2 len={len} halves={halves} cancel={k}\nop 0 tag=3 len=4\nop 0 tag=4 len=1 halves=1\nend\n",
                cfg.replace(',', "_")
            ));
        }
    }
    cases.extend(Case::parse(&sweep.lines().map(|s| s.to_string()).collect::<Vec<_>>()));
    cases
}

fn main() {
    let args: Vec<String> = std::env::args().collect();
    std::panic::set_hook(Box::new(|info| {
        let msg = info.to_string().replace('\n', " ");
        tr(format!("panic {msg}"));
    }));
    start_watchdog(45, || {
        let out = std::io::stdout();
        let mut out = out.lock();
        for l in verif_harness::trace::take() {
            let _ = writeln!(out, "{l}");
        }
        let _ = writeln!(out, "hang watchdog");
        let _ = out.flush();
        eprintln!("watchdog: no progress for 45 s");
    });
    warm_up();
    let mut out = std::io::BufWriter::new(std::io::stdout());
    let mut stats: HashMap<String, u64> = HashMap::new();
    let mut cases: Vec<Case> = Vec::new();
    match args.get(1).map(|s| s.as_str()) {
        Some("run") => {
            for f in &args[2..] {
                let text = std::fs::read_to_string(f).expect("spec file");
                cases.extend(Case::parse(&text.lines().map(|l| l.to_string()).collect::<Vec<_>>()));
            }
        }
        Some("fixed") => cases = fixed_cases(),
        Some("c11sweep") => cases = c11_sweep(),
        Some("gen") => {
            let g = args[2].clone();
            let count: u64 = args[3].parse().unwrap();
            let mut rng = Rng::from_env();
            for i in 0..count {
                let mut r = rng.fork();
                cases.push(gen_case(&g, &mut r, i, &mut stats));
            }
        }
        _ => {
            eprintln!("usage: base gen <typed|base|lr|mpsc|oneshot|c11> <count> | base fixed | base run <file>...");
            std::process::exit(2);
        }
    }
    for c in cases {
        progress();
        if std::env::var("VERIF_DEBUG").is_ok() {
            eprintln!("running {}", c.spec_lines().join(" | "));
        }
        for l in run_case(c) {
            writeln!(out, "{l}").unwrap();
        }
        out.flush().unwrap();
        verif_harness::trace::take();
    }
    out.flush().unwrap();
    let mut keys: Vec<_> = stats.keys().cloned().collect();
    keys.sort();
    for k in keys {
        eprintln!("STAT {k} {}", stats[&k]);
    }
}
