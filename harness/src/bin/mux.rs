//! Connection-level scenarios on two real chmux endpoints.
//!
//! usage: mux run <script-file>...        run the given scripts, print `trace <name>` + trace lines
//!        mux gen <generator> <count>     generate scripts (seed from VERIF_SEED), run them, print traces

use std::io::Write;
use verif_harness::{gens, world::run_script};

fn main() {
    let args: Vec<String> = std::env::args().collect();
    std::panic::set_hook(Box::new(|info| {
        let msg = info.to_string().replace('\n', " ");
        verif_harness::trace::tr(format!("panic {msg}"));
    }));
    let out = std::io::stdout();
    let mut out = std::io::BufWriter::new(out.lock());
    match args.get(1).map(|s| s.as_str()) {
        Some("run") => {
            for f in &args[2..] {
                let text = std::fs::read_to_string(f).expect("script file");
                let lines: Vec<String> = text.lines().map(|l| l.to_string()).collect();
                writeln!(out, "trace {f}").unwrap();
                for l in run_script(&lines) {
                    writeln!(out, "{l}").unwrap();
                }
            }
        }
        Some("gen") => {
            let g = args[2].clone();
            let count: u64 = args[3].parse().unwrap();
            let mut rng = verif_harness::prng::Rng::from_env();
            for i in 0..count {
                let mut r = rng.fork();
                let script = gens::generate(&g, &mut r, i);
                writeln!(out, "trace {g}-{i}").unwrap();
                for l in run_script(&script) {
                    writeln!(out, "{l}").unwrap();
                }
            }
        }
        _ => {
            eprintln!("usage: mux run <file>... | mux gen <generator> <count>");
            std::process::exit(2);
        }
    }
    out.flush().unwrap();
}
