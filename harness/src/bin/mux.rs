//! Connection-level scenarios on two real chmux endpoints.
//!
//! usage: mux run <script-file>...        run the given scripts, print `trace <name>` + trace lines
//!        mux gen <generator> <count>     generate scripts (seed from VERIF_SEED), run them, print traces

use std::io::Write;
use verif_harness::{gens, world::run_script};

fn main() {
    let args: Vec<String> = std::env::args().collect();
    std::panic::set_hook(Box::new(|info| {
        let msg = info.to_string().replace('\n', " ");
        verif_harness::trace::tr(format!("panic {msg}"));
    }));
    let out = std::io::stdout();
    let mut out = std::io::BufWriter::new(out.lock());
    match args.get(1).map(|s| s.as_str()) {
        Some("run") => {
            for f in &args[2..] {
                let text = std::fs::read_to_string(f).expect("script file");
                let lines: Vec<String> = text.lines().map(|l| l.to_string()).collect();
                writeln!(out, "trace {f}").unwrap();
                for l in run_script(&lines) {
                    writeln!(out, "{l}").unwrap();
                }
            }
        }
        Some("gen") => {
            let g = args[2].clone();
            let count: u64 = args[3].parse().unwrap();
            let mut rng = verif_harness::prng::Rng::from_env();
            for i in 0..count {
                let mut r = rng.fork();
                let script = gens::generate(&g, &mut r, i);
                writeln!(out, "trace {g}-{i}").unwrap();
                for l in run_script(&script) {
                    writeln!(out, "{l}").unwrap();
                }
            }
        }
        Some("faultsweep") => {
            // mux faultsweep <workloads> <stride>: for each workload run a fault-free baseline, then
            // one run per (wire, item index, fault kind); stride > 1 samples the cut points.
            let nw: u64 = args[2].parse().unwrap();
            let stride: u64 = args.get(3).and_then(|s| s.parse().ok()).unwrap_or(1);
            let mut rng = verif_harness::prng::Rng::from_env();
            let first = rng.below(6);
            for wi in 0..nw {
                let w = (first + wi) % 6;
                let seed = rng.next_u64();
                let base = gens::fault_workload(&mut verif_harness::prng::Rng::new(seed), w, None);
                let trace = run_script(&base);
                let count = |side: &str| trace.iter().filter(|l| l.starts_with(&format!("tx {side} "))).count() as u64;
                let (fa, fb) = (count("A"), count("B"));
                writeln!(out, "trace fault-w{w}-base").unwrap();
                for l in &trace {
                    writeln!(out, "{l}").unwrap();
                }
                let offset = rng.below(stride);
                for (wire, frames) in [("A", fa), ("B", fb)] {
                    let mut i = offset;
                    while i <= frames {
                        for kind in ["sink", "stream", "eof", "stall", "stallboth"] {
                            let script = gens::fault_workload(&mut verif_harness::prng::Rng::new(seed), w, Some((wire, i, kind)));
                            writeln!(out, "trace fault-w{w}-{wire}-{i}-{kind}").unwrap();
                            for l in run_script(&script) {
                                writeln!(out, "{l}").unwrap();
                            }
                        }
                        i += stride;
                    }
                }
            }
        }
        _ => {
            eprintln!("usage: mux run <file>... | mux gen <generator> <count> | mux faultsweep <workloads> <stride>");
            std::process::exit(2);
        }
    }
    out.flush().unwrap();
}
