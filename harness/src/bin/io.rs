//! C18 correspondence harness: the real `rch::io` channel (AsyncWrite sender / AsyncRead
//! receiver, sized and unsized) across a real connection (`remoc::Connect::io` over
//! `tokio::io::duplex`, small `chmux::Cfg`), one half or both halves shipped to the other
//! endpoint through the base channel / an rch::mpsc / an rch::oneshot.
//!
//! usage: io gen <count>        generate scripts (seed from VERIF_SEED), run them, print traces
//!        io run <file>...      run script files (same text format as the `case`/op lines below)
//!        io script <count>     print the generated scripts only
//!
//! Script (one case):
//!   case <name> mode=<N|u> topo=<rxremote|txremote|both|bounce|bouncetx> via=<base|mpsc|oneshot>
//!        chunkA=<n> bufA=<n> chunkB=<n> bufB=<n> settle=<0|1> sched=<u64>
//!   w <hex> | wa <hex> | f | s | ds          sender: one write call, write_all loop, flush, shutdown, drop
//!   wc <hex> | rc <n>                        like w / r, but the call is cancelled (its future dropped) if it is
//!                                            still pending at the next quiescent point
//!   mv                                       sender: ship the `Sender` object to the other endpoint (mid-stream)
//!   r <n> | drain <n> | dr                   receiver: one read call with an n-byte buffer, read to EOF/error, drop
//!   cut <A|B>                                 drop the transport of that endpoint
//!   end
//! Trace (stdout), in real execution order (single thread):
//!   case <name> mode=<N|u> chunk=<c> exact=<0|1> topo=.. via=..
//!   call s <k> write <hex>|flush|shutdown      ret s <k> ok [<n>] | err <kind>     probe s <bytes_written> <expected|->
//!   call r <k> read <n>                        ret r <k> ok <hex> | err <kind>     probe r <bytes_received> <size|->
//!   pend <s|r> <k>    op still pending at the quiescent point after it was started
//!   cancelled <s|r> <k>   the pending call was dropped
//!   move s | drop s | drop r | cut | hang <s|r> <k> | panic <text> | end

use std::{
    collections::{BTreeMap, VecDeque},
    io::Write as _,
    sync::{Arc, Mutex},
    time::Duration,
};

use remoc::{chmux, codec, rch};
use serde::{Deserialize, Serialize};
use tokio::{
    io::{AsyncReadExt, AsyncWriteExt},
    sync::mpsc,
};
use verif_harness::{
    hex::{hex, unhex},
    prng::Rng,
    trace::{take, tr},
};

/// Does shipping BOTH halves of a locally created channel to the peer give a working channel?  Probed once at
/// start-up (on the pinned tree it does not: interlock defect of rch::bin; the data port is dead from the start).
static BOTH_HALVES_SUPPORTED: std::sync::atomic::AtomicBool = std::sync::atomic::AtomicBool::new(false);

fn both_supported() -> bool {
    BOTH_HALVES_SUPPORTED.load(std::sync::atomic::Ordering::Relaxed)
}

type IoTx = rch::io::Sender;
type IoRx = rch::io::Receiver;

#[derive(Serialize, Deserialize)]
enum Msg {
    Rx(IoRx),
    Tx(IoTx),
    Both(IoTx, IoRx),
}

#[derive(Serialize, Deserialize)]
enum Ctl {
    Direct(Msg),
    Mpsc(rch::mpsc::Receiver<Msg>),
    Oneshot(rch::oneshot::Receiver<Msg>),
}

type BaseTx = rch::base::Sender<Ctl>;
type BaseRx = rch::base::Receiver<Ctl>;

// ------------------------------------------------------------------------------------------------
// scripts

#[derive(Clone, Debug)]
enum Op {
    W(Vec<u8>),
    WC(Vec<u8>),
    RC(usize),
    WA(Vec<u8>),
    F,
    S,
    MV,
    DS,
    R(usize),
    Drain(usize),
    DR,
    Cut(usize),
}

#[derive(Clone, Debug)]
struct Case {
    name: String,
    mode: Option<u64>,
    topo: String,
    via: String,
    chunk: [u32; 2],
    buf: [u32; 2],
    settle: bool,
    sched: u64,
    /// probe only (never generated): keep using a half after an error that left a completed internal future in place
    poison: bool,
    ops: Vec<Op>,
}

fn case_text(c: &Case) -> Vec<String> {
    let mut v = vec![format!(
        "case {} mode={} topo={} via={} chunkA={} bufA={} chunkB={} bufB={} settle={} sched={}{}",
        c.name,
        c.mode.map(|n| n.to_string()).unwrap_or("u".into()),
        c.topo,
        c.via,
        c.chunk[0],
        c.buf[0],
        c.chunk[1],
        c.buf[1],
        c.settle as u8,
        c.sched,
        if c.poison { " poison=1" } else { "" }
    )];
    for op in &c.ops {
        v.push(match op {
            Op::W(d) => format!("w {}", hex(d)),
            Op::WC(d) => format!("wc {}", hex(d)),
            Op::RC(n) => format!("rc {n}"),
            Op::WA(d) => format!("wa {}", hex(d)),
            Op::F => "f".into(),
            Op::S => "s".into(),
            Op::DS => "ds".into(),
            Op::MV => "mv".into(),
            Op::R(n) => format!("r {n}"),
            Op::Drain(n) => format!("drain {n}"),
            Op::DR => "dr".into(),
            Op::Cut(s) => format!("cut {}", if *s == 0 { "A" } else { "B" }),
        });
    }
    v.push("end".into());
    v
}

fn parse_cases(text: &str) -> Vec<Case> {
    let mut out = Vec::new();
    let mut cur: Option<Case> = None;
    for line in text.lines() {
        let line = line.trim();
        if line.is_empty() || line.starts_with('#') {
            continue;
        }
        let w: Vec<&str> = line.split_whitespace().collect();
        match w[0] {
            "case" => {
                let mut kv = BTreeMap::new();
                for t in &w[2..] {
                    if let Some((k, v)) = t.split_once('=') {
                        kv.insert(k.to_string(), v.to_string());
                    }
                }
                let g = |k: &str, d: &str| kv.get(k).cloned().unwrap_or(d.to_string());
                cur = Some(Case {
                    name: w[1].to_string(),
                    mode: g("mode", "u").parse().ok(),
                    topo: g("topo", "rxremote"),
                    via: g("via", "base"),
                    chunk: [g("chunkA", "16").parse().unwrap(), g("chunkB", "16").parse().unwrap()],
                    buf: [g("bufA", "32").parse().unwrap(), g("bufB", "32").parse().unwrap()],
                    settle: g("settle", "1") == "1",
                    sched: g("sched", "0").parse().unwrap(),
                    poison: g("poison", "0") == "1",
                    ops: Vec::new(),
                });
            }
            "end" => {
                if let Some(c) = cur.take() {
                    out.push(c);
                }
            }
            _ => {
                let c = cur.as_mut().expect("op outside case");
                let bytes = |i: usize| unhex(w.get(i).copied().unwrap_or("-")).expect("hex");
                c.ops.push(match w[0] {
                    "w" => Op::W(bytes(1)),
                    "wc" => Op::WC(bytes(1)),
                    "rc" => Op::RC(w[1].parse().unwrap()),
                    "wa" => Op::WA(bytes(1)),
                    "f" => Op::F,
                    "s" => Op::S,
                    "ds" => Op::DS,
                    "mv" => Op::MV,
                    "r" => Op::R(w[1].parse().unwrap()),
                    "drain" => Op::Drain(w[1].parse().unwrap()),
                    "dr" => Op::DR,
                    "cut" => Op::Cut(if w[1] == "A" { 0 } else { 1 }),
                    x => panic!("unknown op {x}"),
                });
            }
        }
    }
    out
}

// ------------------------------------------------------------------------------------------------
// actors

#[derive(Default)]
struct Shared {
    /// a command is in progress on that side (0 = sender, 1 = receiver)
    busy: [bool; 2],
    /// the API call currently in progress, and whether `pend` was already reported for it
    cur: [Option<(String, bool)>; 2],
    gone: [bool; 2],
    /// cancel handle of the cancellable call in progress
    cancel: [Option<tokio::sync::oneshot::Sender<()>>; 2],
}

type Sh = Arc<Mutex<Shared>>;

fn kind(e: &std::io::Error) -> &'static str {
    use std::io::ErrorKind::*;
    match e.kind() {
        WriteZero => "writezero",
        BrokenPipe => "brokenpipe",
        UnexpectedEof => "eof",
        ConnectionReset => "reset",
        ConnectionAborted => "aborted",
        ConnectionRefused => "refused",
        InvalidData => "invalid",
        _ => "other",
    }
}

enum SCmd {
    Write(Vec<u8>),
    WriteCancellable(Vec<u8>),
    WriteAll(Vec<u8>),
    Flush,
    Shutdown,
    /// hand the sender object out (to be shipped) and continue with the one that comes back
    Swap(tokio::sync::oneshot::Sender<IoTx>, tokio::sync::oneshot::Receiver<Option<IoTx>>),
    Drop,
}

enum RCmd {
    Read(usize),
    ReadCancellable(usize),
    Drain(usize),
    Drop,
}

fn begin(sh: &Sh, side: usize, k: &str, what: String) {
    sh.lock().unwrap().cur[side] = Some((k.to_string(), false));
    tr(format!("call {} {k} {what}", if side == 0 { "s" } else { "r" }));
}

fn finish(sh: &Sh, side: usize, k: &str, res: String) {
    sh.lock().unwrap().cur[side] = None;
    tr(format!("ret {} {k} {res}", if side == 0 { "s" } else { "r" }));
}

fn opt(v: Option<u64>) -> String {
    v.map(|n| n.to_string()).unwrap_or("-".into())
}

/// One `poll_write` call driven to completion.  Returns the result and whether the sender may
/// be used further (errors coming out of a completed internal future poison it).
async fn do_write(tx: &mut IoTx, data: &[u8], n: &mut u64, sh: &Sh, cancellable: bool) -> (Result<usize, ()>, bool) {
    *n += 1;
    let k = format!("s{n}");
    begin(sh, 0, &k, format!("write {}", hex(data)));
    let res = if cancellable {
        let (ctx, crx) = tokio::sync::oneshot::channel();
        sh.lock().unwrap().cancel[0] = Some(ctx);
        let r = tokio::select! {
            biased;
            r = tx.write(data) => Some(r),
            _ = crx => None,
        };
        sh.lock().unwrap().cancel[0] = None;
        match r {
            Some(r) => r,
            None => {
                sh.lock().unwrap().cur[0] = None;
                tr(format!("cancelled s {k}"));
                tr(format!("probe s {} {}", tx.bytes_written(), opt(tx.expected_size())));
                return (Err(()), true);
            }
        }
    } else {
        tx.write(data).await
    };
    let out = match &res {
        Ok(len) => (Ok(*len), true),
        Err(e) => (Err(()), matches!(kind(e), "writezero" | "brokenpipe")),
    };
    finish(
        sh,
        0,
        &k,
        match &res {
            Ok(len) => format!("ok {len}"),
            Err(e) => format!("err {}", kind(e)),
        },
    );
    tr(format!("probe s {} {}", tx.bytes_written(), opt(tx.expected_size())));
    out
}

async fn sender_actor(mut tx: IoTx, mut cmds: mpsc::UnboundedReceiver<SCmd>, sh: Sh, poison: bool) {
    let mut n = 0u64;
    let mut usable = true;
    while let Some(cmd) = cmds.recv().await {
        if !usable && !poison && !matches!(cmd, SCmd::Drop) {
            if let SCmd::Swap(_, _) = cmd {
                // (dropping the handles makes the interpreter skip the move)
            }
            sh.lock().unwrap().busy[0] = false;
            continue;
        }
        match cmd {
            SCmd::Write(d) => {
                usable = do_write(&mut tx, &d, &mut n, &sh, false).await.1;
            }
            SCmd::WriteCancellable(d) => {
                usable = do_write(&mut tx, &d, &mut n, &sh, true).await.1;
            }
            SCmd::WriteAll(d) => {
                let mut off = 0;
                loop {
                    let (res, u) = do_write(&mut tx, &d[off..], &mut n, &sh, false).await;
                    usable = u;
                    match res {
                        Ok(0) => break,
                        Ok(len) => off += len,
                        Err(()) => break,
                    }
                    if off >= d.len() {
                        break;
                    }
                }
            }
            SCmd::Flush | SCmd::Shutdown => {
                n += 1;
                let k = format!("s{n}");
                let is_flush = matches!(cmd, SCmd::Flush);
                begin(&sh, 0, &k, if is_flush { "flush".into() } else { "shutdown".into() });
                let res = if is_flush { tx.flush().await } else { tx.shutdown().await };
                if let Err(e) = &res {
                    // shutdown's own size complaint does not poison the sender
                    usable = !is_flush && kind(e) == "eof";
                }
                finish(
                    &sh,
                    0,
                    &k,
                    match &res {
                        Ok(()) => "ok".to_string(),
                        Err(e) => format!("err {}", kind(e)),
                    },
                );
                tr(format!("probe s {} {}", tx.bytes_written(), opt(tx.expected_size())));
            }
            SCmd::Swap(out, back) => {
                // the effects of shipping (a chunk in flight is dropped with the original object) happen while
                // the object is serialized, i.e. from here on
                tr("move s".into());
                let _ = out.send(tx);
                match back.await {
                    Ok(Some(t)) => {
                        tx = t;
                        tr(format!("probe s {} {}", tx.bytes_written(), opt(tx.expected_size())));
                    }
                    _ => {
                        // shipping failed (connection gone): the object was dropped with the message
                        tr("drop s".into());
                        let mut g = sh.lock().unwrap();
                        g.busy[0] = false;
                        g.gone[0] = true;
                        return;
                    }
                }
            }
            SCmd::Drop => {
                tr("drop s".into());
                drop(tx);
                let mut g = sh.lock().unwrap();
                g.busy[0] = false;
                g.gone[0] = true;
                return;
            }
        }
        sh.lock().unwrap().busy[0] = false;
    }
}

/// One `poll_read` call driven to completion; `Some(len)` on success.
async fn do_read(rx: &mut IoRx, size: usize, n: &mut u64, sh: &Sh, cancellable: bool) -> (Option<usize>, bool) {
    *n += 1;
    let k = format!("r{n}");
    begin(sh, 1, &k, format!("read {size}"));
    let mut buf = vec![0u8; size];
    let res = if cancellable {
        let (ctx, crx) = tokio::sync::oneshot::channel();
        sh.lock().unwrap().cancel[1] = Some(ctx);
        let r = tokio::select! {
            biased;
            r = rx.read(&mut buf) => Some(r),
            _ = crx => None,
        };
        sh.lock().unwrap().cancel[1] = None;
        match r {
            Some(r) => r,
            None => {
                sh.lock().unwrap().cur[1] = None;
                tr(format!("cancelled r {k}"));
                tr(format!("probe r {} {}", rx.bytes_received(), opt(rx.size())));
                return (Some(usize::MAX), true);
            }
        }
    } else {
        rx.read(&mut buf).await
    };
    finish(
        sh,
        1,
        &k,
        match &res {
            Ok(len) => format!("ok {}", hex(&buf[..*len])),
            Err(e) => format!("err {}", kind(e)),
        },
    );
    tr(format!("probe r {} {}", rx.bytes_received(), opt(rx.size())));
    // After an error the receiver stays usable only when it went back to its idle state, which is
    // the case exactly when the size is determined (mismatch against a known or announced size).
    // (An error that came out of the internal receive or size future leaves that future in place;
    // polling the receiver again would resume a completed `async fn` and panic.)
    let usable = match &res {
        Ok(_) => true,
        Err(e) => kind(e) == "eof" && rx.size().is_some(),
    };
    (res.ok(), usable)
}

async fn receiver_actor(mut rx: IoRx, mut cmds: mpsc::UnboundedReceiver<RCmd>, sh: Sh, poison: bool) {
    let mut n = 0u64;
    let mut usable = true;
    while let Some(cmd) = cmds.recv().await {
        if !usable && !poison && !matches!(cmd, RCmd::Drop) {
            sh.lock().unwrap().busy[1] = false;
            continue;
        }
        match cmd {
            RCmd::Read(size) => {
                usable = do_read(&mut rx, size, &mut n, &sh, false).await.1;
            }
            RCmd::ReadCancellable(size) => {
                usable = do_read(&mut rx, size, &mut n, &sh, true).await.1;
            }
            RCmd::Drain(size) => {
                for _ in 0..100_000 {
                    let (res, u) = do_read(&mut rx, size.max(1), &mut n, &sh, false).await;
                    usable = u;
                    match res {
                        Some(0) | None => break,
                        Some(_) => (),
                    }
                }
            }
            RCmd::Drop => {
                tr("drop r".into());
                drop(rx);
                let mut g = sh.lock().unwrap();
                g.busy[1] = false;
                g.gone[1] = true;
                return;
            }
        }
        sh.lock().unwrap().busy[1] = false;
    }
}

// ------------------------------------------------------------------------------------------------
// one case

fn mk_cfg(chunk: u32, buf: u32) -> chmux::Cfg {
    chmux::Cfg {
        connection_timeout: None,
        chunk_size: chunk,
        receive_buffer: buf,
        shared_send_queue: 2,
        transport_send_queue: 2,
        transport_receive_queue: 2,
        ..Default::default()
    }
}

async fn settle() {
    tokio::time::sleep(Duration::from_nanos(1)).await;
}

/// Ship a message from one endpoint to the other (base channel, or an rch::mpsc / rch::oneshot
/// channel whose receiver was shipped first).
async fn ship(msg: Msg, via: &str, from: &mut BaseTx, to: &mut BaseRx) -> Msg {
    match via {
        "mpsc" => {
            let (mtx, mrx) = rch::mpsc::channel::<Msg, codec::Default>(1);
            let (s, r) = tokio::join!(from.send(Ctl::Mpsc(mrx)), to.recv());
            s.ok().expect("ship send");
            let Ctl::Mpsc(mut mrx) = r.expect("ship recv").expect("ship recv none") else { panic!("ship: wrong ctl") };
            let (s, r) = tokio::join!(mtx.send(msg), mrx.recv());
            s.ok().expect("mpsc send");
            r.expect("mpsc recv").expect("mpsc recv none")
        }
        "oneshot" => {
            let (otx, orx) = rch::oneshot::channel::<Msg, codec::Default>();
            let (s, r) = tokio::join!(from.send(Ctl::Oneshot(orx)), to.recv());
            s.ok().expect("ship send");
            let Ctl::Oneshot(orx) = r.expect("ship recv").expect("ship recv none") else { panic!("ship: wrong ctl") };
            otx.send(msg).ok().expect("oneshot send");
            orx.await.expect("oneshot recv")
        }
        _ => {
            let (s, r) = tokio::join!(from.send(Ctl::Direct(msg)), to.recv());
            s.ok().expect("ship send");
            let Ctl::Direct(m) = r.expect("ship recv").expect("ship recv none") else { panic!("ship: wrong ctl") };
            m
        }
    }
}

/// Like `ship`, but a failure (connection gone) is reported instead of panicking.
async fn try_ship(msg: Msg, from: &mut BaseTx, to: &mut BaseRx) -> Option<Msg> {
    let (s, r) = tokio::join!(from.send(Ctl::Direct(msg)), to.recv());
    if s.is_err() {
        return None;
    }
    match r {
        Ok(Some(Ctl::Direct(m))) => Some(m),
        _ => None,
    }
}

async fn run_case(c: Case) {
    let cfgs = [mk_cfg(c.chunk[0], c.buf[0]), mk_cfg(c.chunk[1], c.buf[1])];
    let (a, b) = tokio::io::duplex(256);
    let (ar, aw) = tokio::io::split(a);
    let (br, bw) = tokio::io::split(b);
    let (ra, rb) = tokio::join!(
        remoc::Connect::io::<_, _, Ctl, Ctl, codec::Default>(cfgs[0].clone(), ar, aw),
        remoc::Connect::io::<_, _, Ctl, Ctl, codec::Default>(cfgs[1].clone(), br, bw)
    );
    let (conn_a, mut a_tx, mut a_rx) = ra.map_err(|e| e.to_string()).expect("connect A");
    let (conn_b, mut b_tx, mut b_rx) = rb.map_err(|e| e.to_string()).expect("connect B");
    let conns = [
        tokio::spawn(async move {
            let _ = conn_a.await;
        }),
        tokio::spawn(async move {
            let _ = conn_b.await;
        }),
    ];

    let (tx, rx) = match c.mode {
        Some(n) => rch::io::sized::<codec::Default>(n),
        None => rch::io::channel::<codec::Default>(),
    };
    // where the sender lives decides the chunk size it is told (the peer endpoint's chunk_size)
    let (tx, rx, sender_side) = match c.topo.as_str() {
        "txremote" => {
            let Msg::Tx(tx) = ship(Msg::Tx(tx), &c.via, &mut a_tx, &mut b_rx).await else { panic!("topo") };
            (tx, rx, 1)
        }
        "both" => {
            let Msg::Both(tx, rx) = ship(Msg::Both(tx, rx), &c.via, &mut a_tx, &mut b_rx).await else { panic!("topo") };
            (tx, rx, 1)
        }
        "both2" => {
            // both halves to the other endpoint, in two messages (sender first)
            let Msg::Tx(tx) = ship(Msg::Tx(tx), &c.via, &mut a_tx, &mut b_rx).await else { panic!("topo") };
            settle().await;
            let Msg::Rx(rx) = ship(Msg::Rx(rx), &c.via, &mut a_tx, &mut b_rx).await else { panic!("topo") };
            (tx, rx, 1)
        }
        "both2r" => {
            let Msg::Rx(rx) = ship(Msg::Rx(rx), &c.via, &mut a_tx, &mut b_rx).await else { panic!("topo") };
            settle().await;
            let Msg::Tx(tx) = ship(Msg::Tx(tx), &c.via, &mut a_tx, &mut b_rx).await else { panic!("topo") };
            (tx, rx, 1)
        }
        "bounce" => {
            let Msg::Rx(rx) = ship(Msg::Rx(rx), &c.via, &mut a_tx, &mut b_rx).await else { panic!("topo") };
            let Msg::Rx(rx) = ship(Msg::Rx(rx), &c.via, &mut b_tx, &mut a_rx).await else { panic!("topo") };
            (tx, rx, 0)
        }
        "bouncetx" => {
            let Msg::Tx(tx) = ship(Msg::Tx(tx), &c.via, &mut a_tx, &mut b_rx).await else { panic!("topo") };
            let Msg::Tx(tx) = ship(Msg::Tx(tx), &c.via, &mut b_tx, &mut a_rx).await else { panic!("topo") };
            (tx, rx, 0)
        }
        _ => {
            let Msg::Rx(rx) = ship(Msg::Rx(rx), &c.via, &mut a_tx, &mut b_rx).await else { panic!("topo") };
            (tx, rx, 0)
        }
    };
    settle().await;
    let has_cut = c.ops.iter().any(|o| matches!(o, Op::Cut(_)));
    tr(format!(
        "case {} mode={} chunk={} exact={} severed={} topo={} via={}",
        c.name,
        c.mode.map(|n| n.to_string()).unwrap_or("u".into()),
        c.chunk[1 - sender_side],
        (c.settle && !has_cut) as u8,
        (c.topo.starts_with("both") && !both_supported()) as u8,
        c.topo,
        c.via
    ));

    let sh: Sh = Arc::new(Mutex::new(Shared::default()));
    let (s_tx, s_rx) = mpsc::unbounded_channel();
    let (r_tx, r_rx) = mpsc::unbounded_channel();
    let actors = [tokio::spawn(sender_actor(tx, s_rx, sh.clone(), c.poison)), tokio::spawn(receiver_actor(rx, r_rx, sh.clone(), c.poison))];

    enum Cmd {
        S(SCmd),
        R(RCmd),
        /// ship the sender to the other endpoint (done by the interpreter when the sender is idle)
        Mv,
    }
    struct Ends {
        tx: [BaseTx; 2],
        rx: [BaseRx; 2],
        sender_side: usize,
    }
    let mut ends = Ends { tx: [a_tx, b_tx], rx: [a_rx, b_rx], sender_side };
    let mut q: [VecDeque<Cmd>; 2] = [VecDeque::new(), VecDeque::new()];
    let mut sched = Rng::new(c.sched);

    // start queued commands on idle sides; report ops that are pending at the quiescent point
    async fn pump(
        q: &mut [VecDeque<Cmd>; 2], sh: &Sh, s_tx: &mpsc::UnboundedSender<SCmd>, r_tx: &mpsc::UnboundedSender<RCmd>,
        full: bool, sched: &mut Rng, ends: &mut Ends,
    ) -> bool {
        let mut any = false;
        loop {
            let mut progressed = false;
            for side in 0..2 {
                let idle = {
                    let g = sh.lock().unwrap();
                    !g.busy[side] && !g.gone[side]
                };
                if sh.lock().unwrap().gone[side] {
                    q[side].clear();
                }
                if idle && let Some(cmd) = q[side].pop_front() {
                    sh.lock().unwrap().busy[side] = true;
                    match cmd {
                        Cmd::S(c) => {
                            let _ = s_tx.send(c);
                        }
                        Cmd::R(c) => {
                            let _ = r_tx.send(c);
                        }
                        Cmd::Mv => {
                            let (out_tx, out_rx) = tokio::sync::oneshot::channel();
                            let (back_tx, back_rx) = tokio::sync::oneshot::channel();
                            let _ = s_tx.send(SCmd::Swap(out_tx, back_rx));
                            if let Ok(obj) = out_rx.await {
                                let from = ends.sender_side;
                                let to = 1 - from;
                                let (ftx, trx) = {
                                    let (a, b) = ends.tx.split_at_mut(1);
                                    let (c, d) = ends.rx.split_at_mut(1);
                                    if from == 0 { (&mut a[0], &mut d[0]) } else { (&mut b[0], &mut c[0]) }
                                };
                                match try_ship(Msg::Tx(obj), ftx, trx).await {
                                    Some(Msg::Tx(t)) => {
                                        // let the port of the received sender get connected before anything else
                                        // happens (as after the initial placement)
                                        settle().await;
                                        ends.sender_side = to;
                                        let _ = back_tx.send(Some(t));
                                    }
                                    _ => {
                                        let _ = back_tx.send(None);
                                    }
                                }
                            } else {
                                // the sender is not usable any more: nothing to move
                                sh.lock().unwrap().busy[side] = false;
                            }
                        }
                    }
                    progressed = true;
                    any = true;
                    if full {
                        settle().await;
                        report_pending(sh);
                    } else {
                        for _ in 0..sched.below(4) {
                            tokio::task::yield_now().await;
                        }
                    }
                }
            }
            if !progressed {
                break;
            }
        }
        any
    }

    fn report_pending(sh: &Sh) {
        let mut g = sh.lock().unwrap();
        for side in 0..2 {
            if let Some((k, reported)) = &mut g.cur[side] {
                if !*reported {
                    *reported = true;
                    tr(format!("pend {} {k}", if side == 0 { "s" } else { "r" }));
                }
            }
        }
        // a cancellable call that is pending at this quiescent point is dropped now
        let cancels: Vec<_> = (0..2).filter_map(|side| g.cancel[side].take()).collect();
        drop(g);
        for c in cancels {
            let _ = c.send(());
        }
    }

    for op in &c.ops {
        match op {
            Op::W(d) => q[0].push_back(Cmd::S(SCmd::Write(d.clone()))),
            Op::WC(d) => q[0].push_back(Cmd::S(SCmd::WriteCancellable(d.clone()))),
            Op::RC(n) => q[1].push_back(Cmd::R(RCmd::ReadCancellable(*n))),
            Op::WA(d) => q[0].push_back(Cmd::S(SCmd::WriteAll(d.clone()))),
            Op::F => q[0].push_back(Cmd::S(SCmd::Flush)),
            Op::S => q[0].push_back(Cmd::S(SCmd::Shutdown)),
            Op::DS => q[0].push_back(Cmd::S(SCmd::Drop)),
            Op::MV => q[0].push_back(Cmd::Mv),
            Op::R(n) => q[1].push_back(Cmd::R(RCmd::Read(*n))),
            Op::Drain(n) => q[1].push_back(Cmd::R(RCmd::Drain(*n))),
            Op::DR => q[1].push_back(Cmd::R(RCmd::Drop)),
            Op::Cut(side) => {
                if c.settle {
                    settle().await;
                }
                tr("cut".into());
                conns[*side].abort();
                settle().await;
            }
        }
        pump(&mut q, &sh, &s_tx, &r_tx, c.settle, &mut sched, &mut ends).await;
    }
    // run everything that is still queued, always settling
    loop {
        settle().await;
        if !pump(&mut q, &sh, &s_tx, &r_tx, true, &mut sched, &mut ends).await {
            break;
        }
    }
    // hang detection: with no connection timeout configured nothing can change any more once the
    // paused clock has to jump an hour
    tokio::time::sleep(Duration::from_secs(3600)).await;
    loop {
        settle().await;
        if !pump(&mut q, &sh, &s_tx, &r_tx, true, &mut sched, &mut ends).await {
            break;
        }
    }
    {
        let g = sh.lock().unwrap();
        for side in 0..2 {
            if let Some((k, _)) = &g.cur[side] {
                tr(format!("hang {} {k}", if side == 0 { "s" } else { "r" }));
            }
        }
    }
    for a in &actors {
        a.abort();
    }
    for cn in &conns {
        cn.abort();
    }
    drop(ends);
    settle().await;
    tr("end".into());
}

fn run_one(c: Case, out: &mut impl std::io::Write) {
    let name = c.name.clone();
    let script = case_text(&c);
    let res = std::panic::catch_unwind(move || {
        let rt = tokio::runtime::Builder::new_current_thread().enable_time().start_paused(true).build().unwrap();
        rt.block_on(run_case(c));
    });
    let lines = take();
    for l in &script {
        writeln!(out, "# {l}").unwrap();
    }
    if !lines.iter().any(|l| l.starts_with("case ")) {
        // setup failed before the header was written
        writeln!(out, "case {name} mode=u chunk=1 exact=0 topo=? via=?").unwrap();
    }
    for l in lines {
        writeln!(out, "{l}").unwrap();
    }
    if res.is_err() {
        writeln!(out, "panic harness-case-panicked").unwrap();
        writeln!(out, "end").unwrap();
    }
}

// ------------------------------------------------------------------------------------------------
// generator

fn size_near(r: &mut Rng, chunk: u64, buf: u64) -> u64 {
    match r.below(12) {
        0 => 0,
        1 => 1,
        2 => 2,
        3 => chunk - 1,
        4 => chunk,
        5 => chunk + 1,
        6 => 2 * chunk,
        7 => buf.saturating_sub(1),
        8 => buf,
        9 => buf + 1,
        10 => 3 * buf + r.below(5),
        _ => r.below(200),
    }
}

fn gen_case(r: &mut Rng, i: u64, stats: &mut BTreeMap<String, u64>) -> Case {
    let mut bump = |k: &str| *stats.entry(k.to_string()).or_insert(0) += 1;
    let topo = *r.pick(&[
        "rxremote", "rxremote", "rxremote", "txremote", "txremote", "txremote", "bounce", "bounce", "bouncetx", "bouncetx",
        "both", "both2",
    ]);
    // Connect::io needs chunk_size >= 10 for the handshake frame; a message carrying both halves has
    // four ports, which only fits the frame budget for chunk sizes <= 11 or >= 22 (finding F11 of C09).
    let chunks: &[u32] = if topo == "both" { &[10, 11, 24, 32, 64] } else { &[10, 11, 12, 16, 17, 32, 64] };
    let bufs = [8u32, 9, 12, 16, 23, 32, 64, 256];
    let chunk = [*r.pick(chunks), *r.pick(chunks)];
    let buf = [*r.pick(&bufs), *r.pick(&bufs)];
    let via = *r.pick(&["base", "base", "mpsc", "oneshot"]);
    bump(&format!("topo.{topo}"));
    bump(&format!("via.{via}"));
    let sender_side = if topo == "txremote" || topo.starts_with("both") { 1 } else { 0 };
    let ck = chunk[1 - sender_side] as u64;
    let bf = buf[1 - sender_side] as u64;

    // payload and mode
    let total = size_near(r, ck, bf).min(400);
    let payload = r.bytes(total as usize);
    let mode = match r.below(10) {
        0..=3 => None,
        4..=6 => Some(total),
        7 => Some(total + r.range(1, ck + 2)),        // stream ends short of the fixed size
        8 => Some(total.saturating_sub(r.range(1, ck + 2))), // writes go past the fixed size
        _ => Some(*r.pick(&[0u64, 1, ck, ck + 1])),
    };
    bump(match mode {
        None => "mode.unsized",
        Some(n) if n == total => "mode.sized-exact",
        Some(n) if n > total => "mode.sized-short",
        Some(_) => "mode.sized-overlong",
    });

    // sender ops: partition of the payload into write / write_all calls, flushes in between
    let mut sops: Vec<Op> = Vec::new();
    let mut off = 0usize;
    let use_wa = r.chance(1, 2);
    while off < payload.len() {
        let rem = (payload.len() - off) as u64;
        let want = match r.below(9) {
            0 => 0,
            1 => 1,
            2 => 2,
            3 => ck.saturating_sub(1),
            4 => ck,
            5 => ck + 1,
            6 => rem,
            7 => 2 * ck + r.below(3),
            _ => r.range(1, rem.min(3 * ck)),
        }
        .min(rem) as usize;
        let piece = payload[off..off + want].to_vec();
        if want == 0 {
            bump("write.empty");
            sops.push(Op::W(piece));
        } else if use_wa || r.chance(1, 3) {
            bump("write.write_all");
            sops.push(Op::WA(piece));
            off += want;
        } else {
            // a single write call accepts at most a chunk (and at most what the fixed size allows);
            // the rest of the piece is offered again by the next op
            bump("write.single");
            let acc = (want as u64).min(ck) as usize;
            if r.chance(1, 6) {
                bump("write.cancellable");
                sops.push(Op::WC(piece));
            } else {
                sops.push(Op::W(piece));
            }
            off += acc;
            // when the fixed size is reached, stop offering more through single writes
            if let Some(n) = mode {
                if off as u64 >= n {
                    off = payload.len();
                }
            }
        }
        if r.chance(1, 5) {
            bump("flush.mid");
            sops.push(Op::F);
        }
    }
    if r.chance(1, 6) {
        sops.push(Op::W(Vec::new()));
        bump("write.empty");
    }
    // the sender object is shipped to the other endpoint in mid-stream (possibly with a chunk in flight)
    // (only a sender that was itself received from the peer: on the pinned tree the original local sender
    // cannot follow an already shipped receiver - interlock defect of rch::bin, same cause as the `both` placements)
    let moved = (topo == "txremote" || topo == "bouncetx" || (both_supported() && !topo.starts_with("both")))
        && r.chance(1, 3);
    if moved {
        let at = r.below(sops.len() as u64 + 1) as usize;
        sops.insert(at, Op::MV);
        bump("sender.moved-midstream");
    }
    // where the sender stops: the whole script, or cut short at a random op (drop at any offset)
    if r.chance(1, 4) && !sops.is_empty() {
        let keep = r.below(sops.len() as u64 + 1) as usize;
        sops.truncate(keep);
        bump("ending.truncated-script");
    }
    // ending
    match r.below(10) {
        0..=3 => {
            bump("ending.shutdown");
            sops.push(Op::S);
            match r.below(6) {
                0 => sops.push(Op::S),
                1 => sops.push(Op::W(vec![1, 2, 3])),
                2 => sops.push(Op::F),
                3 => sops.push(Op::W(Vec::new())),
                _ => (),
            }
            if r.chance(2, 3) {
                sops.push(Op::DS);
            }
        }
        4..=5 => {
            bump("ending.flush-drop");
            sops.push(Op::F);
            sops.push(Op::DS);
        }
        6..=7 => {
            bump("ending.drop-no-flush");
            sops.push(Op::DS);
        }
        8 => {
            bump("ending.overlong-then-shutdown");
            let extra = r.range(1, ck + 2) as usize;
            sops.push(Op::W(r.bytes(extra)));
            sops.push(Op::S);
            sops.push(Op::DS);
        }
        _ => {
            // sender stays alive and silent: the reader must stay pending (or finish by size)
            bump("ending.sender-stays");
            if r.bool() {
                sops.push(Op::F);
            }
        }
    }

    // receiver ops
    let mut rops: Vec<Op> = Vec::new();
    let nreads = r.below(2 * (total / ck.max(1) + 2) + 2);
    for _ in 0..nreads {
        let n = match r.below(10) {
            0 => 0,
            1 => 1,
            2 => 2,
            3 => 3,
            4 => ck - 1,
            5 => ck,
            6 => ck + 1,
            7 => bf,
            8 => 1000,
            _ => r.range(1, 2 * ck),
        } as usize;
        bump(if n == 0 { "read.empty-buffer" } else if (n as u64) < ck { "read.lt-chunk" } else { "read.ge-chunk" });
        if r.chance(1, 6) {
            bump("read.cancellable");
            rops.push(Op::RC(n));
        } else {
            rops.push(Op::R(n));
        }
    }
    let drop_rx_early = r.chance(1, 12);
    if drop_rx_early {
        bump("ending.receiver-dropped-early");
        let keep = r.below(rops.len() as u64 + 1) as usize;
        rops.truncate(keep);
        rops.push(Op::DR);
    } else {
        rops.push(Op::Drain(*r.pick(&[1usize, 3, 7, 16, 64, 1000])));
        if r.chance(1, 3) {
            // reading again after the end was reported
            rops.push(Op::R(5));
            bump("read.after-end");
        }
    }

    // interleaving
    let mut ops = Vec::new();
    let (mut si, mut ri) = (0, 0);
    let bias = r.range(1, 5); // out of 6: probability to take a sender op next
    while si < sops.len() || ri < rops.len() {
        let take_s = if si >= sops.len() {
            false
        } else if ri >= rops.len() {
            true
        } else {
            r.chance(bias, 6)
        };
        if take_s {
            ops.push(sops[si].clone());
            si += 1;
        } else {
            ops.push(rops[ri].clone());
            ri += 1;
        }
    }
    // connection cut at a random position
    if r.chance(1, 6) {
        let at = r.below(ops.len() as u64 + 1) as usize;
        ops.insert(at, Op::Cut(r.below(2) as usize));
        bump("fault.cut");
    }
    // a moved sender asks its new endpoint's peer for the chunk size: keep it the same on both sides
    let chunk = if moved { [chunk[1 - sender_side], chunk[1 - sender_side]] } else { chunk };
    let settle = !r.chance(1, 4);
    bump(if settle { "schedule.settled" } else { "schedule.burst" });
    bump(&format!("payload.{}", match total {
        0 => "0",
        1..=7 => "1-7",
        8..=63 => "8-63",
        _ => "64+",
    }));
    Case {
        name: format!("g{i}"),
        mode,
        topo: topo.into(),
        via: via.into(),
        chunk,
        buf,
        settle,
        sched: r.next_u64() % 1_000_000,
        poison: false,
        ops,
    }
}

/// One tiny round trip through a channel whose two halves were shipped to the peer in one message.
fn probe_both_halves() -> bool {
    let c = Case {
        name: "probe".into(),
        mode: None,
        topo: "both".into(),
        via: "base".into(),
        chunk: [32, 32],
        buf: [64, 64],
        settle: true,
        sched: 0,
        poison: false,
        ops: vec![Op::WA(vec![0x5a]), Op::F, Op::R(1)],
    };
    let res = std::panic::catch_unwind(move || {
        let rt = tokio::runtime::Builder::new_current_thread().enable_time().start_paused(true).build().unwrap();
        rt.block_on(run_case(c));
    });
    let lines = take();
    res.is_ok() && lines.iter().any(|l| l.starts_with("ret r ") && l.ends_with(" ok 5a"))
}

fn main() {
    let args: Vec<String> = std::env::args().collect();
    std::panic::set_hook(Box::new(|info| {
        let msg = info.to_string().replace('\n', " ");
        tr(format!("panic {msg}"));
    }));
    let supported = probe_both_halves();
    BOTH_HALVES_SUPPORTED.store(supported, std::sync::atomic::Ordering::Relaxed);
    eprintln!("STAT both_halves_supported {}", supported as u8);
    let out = std::io::stdout();
    let mut out = std::io::BufWriter::new(out.lock());
    let mut stats: BTreeMap<String, u64> = BTreeMap::new();
    match args.get(1).map(|s| s.as_str()) {
        Some("run") => {
            for f in &args[2..] {
                let text = std::fs::read_to_string(f).expect("script file");
                for c in parse_cases(&text) {
                    run_one(c, &mut out);
                }
            }
        }
        Some("gen") | Some("script") => {
            let count: u64 = args.get(2).and_then(|s| s.parse().ok()).unwrap_or(100);
            let mut rng = Rng::from_env();
            for i in 0..count {
                let mut r = rng.fork();
                let c = gen_case(&mut r, i, &mut stats);
                if args[1] == "script" {
                    for l in case_text(&c) {
                        writeln!(out, "{l}").unwrap();
                    }
                } else {
                    // through the text form, so that what ran is exactly what a replay file contains
                    let c = parse_cases(&case_text(&c).join("\n")).pop().unwrap();
                    run_one(c, &mut out);
                }
            }
        }
        _ => {
            eprintln!("usage: io gen <count> | io run <file>... | io script <count>");
            std::process::exit(2);
        }
    }
    out.flush().unwrap();
    for (k, v) in stats {
        eprintln!("STAT {k} {v}");
    }
}
