//! C16 correspondence harness: drives the real `remoc::rch::broadcast` with local subscribers
//! (plain receiver / `ReceiverStream`) and with subscribers whose receiver was sent to another
//! endpoint over a real connection (`remoc::Connect::io` over `tokio::io::duplex`).
//!
//! usage: bcast gen <count>          generate <count> cases (seed from VERIF_SEED), run, print traces
//!        bcast run <file>...        re-run the cases contained in trace/replay files
//!
//! Runtime: current-thread, paused clock.  `settle` = `sleep(1ns)` (returns at quiescence);
//! `recv` = settle + `timeout(1h, recv())` (fires exactly when the receive can never complete).
//! Between two settles the harness never yields, so no spawned task (parking task, forwarder) runs.
//!
//! Line protocol (stdout), one case:
//!   case <name> <local|mixed> rbuf=<R> cbuf=<chmux receive_buffer>
//!   sub <id> <cap> <L|S|R|T>        L local plain, S local stream wrapper, R remote plain, T remote stream
//!   send -> <idx> ok <sendings> | <idx> closed | <idx> err
//!   try <id> -> v<i>|lag|empty|closed|err      recv <id> -> v<i>|lag|closed|pending|err
//!   settle | count -> <n> | dropsub <id> | dropsender | clonesender | panic <msg> | end

use std::{
    future::poll_fn,
    io::Write,
    panic::{AssertUnwindSafe, catch_unwind},
    sync::atomic::{AtomicU64, Ordering},
    task::Poll,
    time::Duration,
};

use futures::StreamExt;
use remoc::{
    codec,
    rch::{
        base,
        broadcast::{self, ReceiverStream, RecvError, StreamError, TryRecvError},
    },
};
use verif_harness::prng::Rng;

type D = codec::Default;
type Rx<const R: usize> = broadcast::Receiver<u32, D, R>;

static HEARTBEAT: AtomicU64 = AtomicU64::new(0);

#[derive(Clone, Debug, PartialEq)]
enum Op {
    Sub(usize, usize, char),
    Send,
    Try(usize),
    Recv(usize),
    Settle,
    Count,
    DropSub(usize),
    DropSender,
    CloneSender,
}

#[derive(Clone, Debug)]
struct Hdr {
    name: String,
    mixed: bool,
    rbuf: usize,
    cbuf: u32,
}

enum SubH<const R: usize> {
    Plain(Rx<R>),
    Stream(ReceiverStream<u32, D, R>),
}

fn obs_recv(r: Result<u32, RecvError>) -> String {
    match r {
        Ok(v) => format!("v{v}"),
        Err(RecvError::Lagged) => "lag".into(),
        Err(RecvError::Closed) => "closed".into(),
        Err(_) => "err".into(),
    }
}

fn obs_try(r: Result<u32, TryRecvError>) -> String {
    match r {
        Ok(v) => format!("v{v}"),
        Err(TryRecvError::Lagged) => "lag".into(),
        Err(TryRecvError::Closed) => "closed".into(),
        Err(TryRecvError::Empty) => "empty".into(),
        Err(_) => "err".into(),
    }
}

fn obs_stream(r: Option<Result<u32, StreamError>>) -> String {
    match r {
        Some(Ok(v)) => format!("v{v}"),
        Some(Err(StreamError::Lagged)) => "lag".into(),
        None => "closed".into(),
        Some(Err(_)) => "err".into(),
    }
}

const HOUR: Duration = Duration::from_secs(3600);

async fn settle() {
    tokio::time::sleep(Duration::from_nanos(1)).await;
}

struct Link<const R: usize> {
    a_tx: base::Sender<Rx<R>, D>,
    b_rx: base::Receiver<Rx<R>, D>,
}

async fn connect<const R: usize>(cbuf: u32) -> Link<R> {
    let (a_io, b_io) = tokio::io::duplex(256);
    let (a_rd, a_wr) = tokio::io::split(a_io);
    let (b_rd, b_wr) = tokio::io::split(b_io);
    let mut cfg = remoc::Cfg::default();
    cfg.connection_timeout = None;
    cfg.receive_buffer = cbuf;
    cfg.shared_send_queue = 1;
    cfg.transport_send_queue = 1;
    cfg.transport_receive_queue = 1;
    let (a, b) = tokio::join!(
        remoc::Connect::io::<_, _, Rx<R>, (), D>(cfg.clone(), a_rd, a_wr),
        remoc::Connect::io::<_, _, (), Rx<R>, D>(cfg.clone(), b_rd, b_wr),
    );
    let (a_conn, a_tx, _a_rx) = a.expect("connect A");
    let (b_conn, _b_tx, b_rx) = b.expect("connect B");
    tokio::spawn(a_conn);
    tokio::spawn(b_conn);
    // the unused halves must stay alive as long as the link does
    std::mem::forget(_a_rx);
    std::mem::forget(_b_tx);
    Link { a_tx, b_rx }
}

async fn run_case<const R: usize>(hdr: &Hdr, ops: &[Op], out: &mut Vec<String>) {
    let mut link: Option<Link<R>> = if hdr.mixed { Some(connect::<R>(hdr.cbuf).await) } else { None };
    let mut senders: Vec<broadcast::Sender<u32, D>> = vec![broadcast::Sender::new()];
    let mut subs: Vec<Option<SubH<R>>> = Vec::new();
    let mut sent: u32 = 0;
    let mut awaiting;
    for op in ops {
        HEARTBEAT.fetch_add(1, Ordering::Relaxed);
        awaiting = false;
        match op {
            Op::Sub(id, cap, kind) => {
                if senders.is_empty() || *id != subs.len() {
                    continue;
                }
                let rx = senders[0].subscribe::<R>(*cap);
                let h = match kind {
                    'L' => SubH::Plain(rx),
                    'S' => SubH::Stream(ReceiverStream::new(rx)),
                    _ => {
                        // send the receiver to the other endpoint
                        let l = link.as_mut().expect("remote subscriber needs a connection");
                        awaiting = true;
                        let (sres, rres) = tokio::join!(
                            tokio::time::timeout(HOUR, l.a_tx.send(rx)),
                            tokio::time::timeout(HOUR, l.b_rx.recv())
                        );
                        if sres.is_err() || rres.is_err() {
                            // the transfer itself can never complete: a chmux-level matter, not part of this property
                            out.push("abort transfer-hangs".into());
                            return;
                        }
                        match sres {
                            Ok(Ok(())) => (),
                            other => {
                                out.push(format!("panic transfer-send-failed {:?}", other.map(|r| r.map_err(|e| e.to_string()))));
                                return;
                            }
                        }
                        let rx = match rres {
                            Ok(Ok(Some(rx))) => rx,
                            other => {
                                out.push(format!("panic transfer-recv-failed {:?}", other.map(|r| r.map(|_| ()).map_err(|e| e.to_string()))));
                                return;
                            }
                        };
                        if *kind == 'T' { SubH::Stream(ReceiverStream::new(rx)) } else { SubH::Plain(rx) }
                    }
                };
                subs.push(Some(h));
                out.push(format!("sub {id} {cap} {kind}"));
            }
            Op::Send => {
                if senders.is_empty() {
                    continue;
                }
                let tx = &senders[sent as usize % senders.len()];
                let res = tx.send(sent);
                match res {
                    Ok(b) => out.push(format!("send -> {sent} ok {}", b.into_sendings().len())),
                    Err(broadcast::SendError::Closed(_)) => out.push(format!("send -> {sent} closed")),
                    Err(_) => out.push(format!("send -> {sent} err")),
                }
                sent += 1;
            }
            Op::Try(id) => {
                let Some(Some(h)) = subs.get_mut(*id) else { continue };
                let o = match h {
                    SubH::Plain(rx) => obs_try(rx.try_recv()),
                    SubH::Stream(st) => match poll_fn(|cx| Poll::Ready(st.poll_next_unpin(cx))).await {
                        Poll::Ready(r) => obs_stream(r),
                        Poll::Pending => "empty".into(),
                    },
                };
                out.push(format!("try {id} -> {o}"));
            }
            Op::Recv(id) => {
                let Some(Some(h)) = subs.get_mut(*id) else { continue };
                settle().await;
                let o = match h {
                    SubH::Plain(rx) => match tokio::time::timeout(HOUR, rx.recv()).await {
                        Ok(r) => obs_recv(r),
                        Err(_) => "pending".into(),
                    },
                    SubH::Stream(st) => match tokio::time::timeout(HOUR, st.next()).await {
                        Ok(r) => obs_stream(r),
                        Err(_) => "pending".into(),
                    },
                };
                out.push(format!("recv {id} -> {o}"));
                awaiting = hdr.mixed;
            }
            Op::Settle => {
                settle().await;
                out.push("settle".into());
            }
            Op::Count => {
                if let Some(tx) = senders.first() {
                    out.push(format!("count -> {}", tx.receiver_count()));
                }
            }
            Op::DropSub(id) => {
                let Some(slot) = subs.get_mut(*id) else { continue };
                if slot.take().is_some() {
                    out.push(format!("dropsub {id}"));
                }
            }
            Op::DropSender => {
                if !senders.is_empty() {
                    senders.clear();
                    out.push("dropsender".into());
                }
            }
            Op::CloneSender => {
                if let Some(tx) = senders.first() {
                    let c = tx.clone();
                    senders.push(c);
                    out.push("clonesender".into());
                }
            }
        }
        if awaiting {
            // the operation yielded to the runtime: complete the yield to a full quiescent point so that
            // the trace has a well-defined `settle` here
            settle().await;
            out.push("settle".into());
        }
    }
    // final drain: every live subscriber consumes until its receive can never complete (or Closed)
    settle().await;
    out.push("settle".into());
    for id in 0..subs.len() {
        let Some(h) = subs[id].as_mut() else { continue };
        for _ in 0..10_000 {
            HEARTBEAT.fetch_add(1, Ordering::Relaxed);
            settle().await;
            let o = match h {
                SubH::Plain(rx) => match tokio::time::timeout(HOUR, rx.recv()).await {
                    Ok(r) => obs_recv(r),
                    Err(_) => "pending".into(),
                },
                SubH::Stream(st) => match tokio::time::timeout(HOUR, st.next()).await {
                    Ok(r) => obs_stream(r),
                    Err(_) => "pending".into(),
                },
            };
            let stop = o == "pending" || o == "closed" || o == "err";
            out.push(format!("recv {id} -> {o}"));
            if hdr.mixed {
                settle().await;
                out.push("settle".into());
            }
            if stop {
                break;
            }
        }
    }
    // "slow or failed subscribers never block …" presupposes a working connection: it must still carry a fresh
    // receiver; a connection wedged at the chmux level makes the case void for this property
    if let Some(l) = link.as_mut() {
        let probe = broadcast::Sender::<u32, D>::new().subscribe::<R>(1);
        let (s, r) = tokio::join!(tokio::time::timeout(HOUR, l.a_tx.send(probe)), tokio::time::timeout(HOUR, l.b_rx.recv()));
        if s.is_err() || r.is_err() {
            out.push("abort connection-wedged".into());
        }
    }
    drop(link.take());
}

fn exec_case(hdr: &Hdr, ops: &[Op]) -> Vec<String> {
    let mut out = vec![format!(
        "case {} {} rbuf={} cbuf={}",
        hdr.name,
        if hdr.mixed { "mixed" } else { "local" },
        hdr.rbuf,
        hdr.cbuf
    )];
    let res = catch_unwind(AssertUnwindSafe(|| {
        let rt = tokio::runtime::Builder::new_current_thread().enable_all().start_paused(true).build().unwrap();
        let mut lines = Vec::new();
        rt.block_on(async {
            match hdr.rbuf {
                1 => run_case::<1>(hdr, ops, &mut lines).await,
                2 => run_case::<2>(hdr, ops, &mut lines).await,
                _ => run_case::<3>(hdr, ops, &mut lines).await,
            }
        });
        drop(rt);
        lines
    }));
    match res {
        Ok(lines) => out.extend(lines),
        Err(e) => {
            let msg = e.downcast_ref::<String>().cloned().or_else(|| e.downcast_ref::<&str>().map(|s| s.to_string()));
            out.push(format!("panic {}", msg.unwrap_or_default().replace('\n', " ")));
        }
    }
    out.push("end".into());
    out
}

// ---------------------------------------------------------------------------------------------
// generator

#[derive(Default)]
struct Stats {
    m: std::collections::BTreeMap<String, u64>,
}
impl Stats {
    fn add(&mut self, k: &str, n: u64) {
        *self.m.entry(k.to_string()).or_insert(0) += n;
    }
}

fn gen_case(r: &mut Rng, i: u64, thorough: bool, st: &mut Stats) -> (Hdr, Vec<Op>) {
    let mixed = i % 3 == 2;
    let rbuf = r.range(1, 3) as usize;
    let cbuf = *r.pick(&[4u32, 8, 16, 64]);
    let profile = r.below(4);
    let hdr = Hdr { name: format!("g{i}"), mixed, rbuf, cbuf };
    st.add(if mixed { "cases_mixed" } else { "cases_local" }, 1);
    st.add(&format!("profile_{}", ["slow_consumers", "balanced", "fast_consumers", "bursts"][profile as usize]), 1);
    // weights: send, try, recv, settle
    let w: [u64; 4] = match profile {
        0 => [55, 12, 4, 14],
        1 => [35, 30, 8, 14],
        2 => [22, 42, 10, 12],
        _ => [40, 30, 5, 10],
    };
    let mut ops = Vec::new();
    let mut kinds: Vec<Option<char>> = Vec::new(); // None = dropped
    let mut sender = true;
    let pick_kind = |r: &mut Rng| -> char {
        if mixed {
            *r.pick(&['R', 'R', 'T', 'L', 'S'])
        } else if r.chance(1, 4) {
            'S'
        } else {
            'L'
        }
    };
    let n0 = r.range(1, 3);
    for _ in 0..n0 {
        let k = pick_kind(r);
        ops.push(Op::Sub(kinds.len(), r.range(1, 3) as usize, k));
        kinds.push(Some(k));
    }
    let nops = if thorough { r.range(20, 160) } else { r.range(12, 60) };
    let mut burst: Option<(bool, u64)> = None;
    for step in 0..nops {
        let live: Vec<usize> = kinds.iter().enumerate().filter(|(_, k)| k.is_some()).map(|(i, _)| i).collect();
        if profile == 3 {
            // alternate bursts of sends and bursts of consumption without settling in between
            match burst {
                Some((s, n)) if n > 0 => {
                    if s && sender {
                        ops.push(Op::Send);
                    } else if !live.is_empty() {
                        ops.push(Op::Try(*r.pick(&live)));
                    }
                    burst = Some((s, n - 1));
                    continue;
                }
                _ => {
                    if r.chance(1, 2) {
                        burst = Some((r.bool(), r.range(1, 6)));
                        continue;
                    }
                }
            }
        }
        let x = r.below(100);
        if x < 5 && sender && kinds.len() < 6 {
            let k = pick_kind(r);
            ops.push(Op::Sub(kinds.len(), r.range(1, 3) as usize, k));
            kinds.push(Some(k));
        } else if x < 9 && !live.is_empty() {
            let id = *r.pick(&live);
            ops.push(Op::DropSub(id));
            kinds[id] = None;
        } else if x < 11 && sender {
            ops.push(Op::CloneSender);
        } else if x < 12 && sender && step * 3 > nops * 2 {
            ops.push(Op::DropSender);
            sender = false;
        } else if x < 16 && sender {
            ops.push(Op::Count);
        } else {
            let tot: u64 = w.iter().sum();
            let y = r.below(tot);
            if y < w[0] {
                if sender {
                    ops.push(Op::Send);
                }
            } else if y < w[0] + w[1] {
                if !live.is_empty() {
                    ops.push(Op::Try(*r.pick(&live)));
                }
            } else if y < w[0] + w[1] + w[2] {
                if !live.is_empty() {
                    ops.push(Op::Recv(*r.pick(&live)));
                }
            } else {
                ops.push(Op::Settle);
            }
        }
    }
    for op in &ops {
        let k = match op {
            Op::Sub(_, cap, k) => {
                st.add(&format!("sub_cap{cap}"), 1);
                st.add(&format!("sub_kind_{k}"), 1);
                "op_sub"
            }
            Op::Send => "op_send",
            Op::Try(_) => "op_try",
            Op::Recv(_) => "op_recv",
            Op::Settle => "op_settle",
            Op::Count => "op_count",
            Op::DropSub(_) => "op_dropsub",
            Op::DropSender => "op_dropsender",
            Op::CloneSender => "op_clonesender",
        };
        st.add(k, 1);
    }
    (hdr, ops)
}

// ---------------------------------------------------------------------------------------------
// replay files: the trace format is also the script format (results after `->` are ignored)

fn parse_cases(text: &str) -> Vec<(Hdr, Vec<Op>)> {
    let mut cases = Vec::new();
    let mut cur: Option<(Hdr, Vec<Op>)> = None;
    for line in text.lines() {
        let line = line.trim();
        let line = line.split("->").next().unwrap().trim();
        let w: Vec<&str> = line.split_whitespace().collect();
        if w.is_empty() || w[0].starts_with('#') {
            continue;
        }
        let num = |s: &str| s.parse::<usize>().unwrap_or(0);
        match w[0] {
            "case" if w.len() >= 5 => {
                if let Some(c) = cur.take() {
                    cases.push(c);
                }
                let kv = |s: &str| s.split('=').nth(1).and_then(|v| v.parse::<u32>().ok()).unwrap_or(1);
                cur = Some((
                    Hdr { name: w[1].to_string(), mixed: w[2] == "mixed", rbuf: kv(w[3]) as usize, cbuf: kv(w[4]) },
                    Vec::new(),
                ));
            }
            "end" => {
                if let Some(c) = cur.take() {
                    cases.push(c);
                }
            }
            _ => {
                let Some((_, ops)) = cur.as_mut() else { continue };
                match (w[0], w.len()) {
                    ("sub", 4) => ops.push(Op::Sub(num(w[1]), num(w[2]).max(1), w[3].chars().next().unwrap_or('L'))),
                    ("send", _) => ops.push(Op::Send),
                    ("try", 2) => ops.push(Op::Try(num(w[1]))),
                    ("recv", 2) => ops.push(Op::Recv(num(w[1]))),
                    ("settle", _) => ops.push(Op::Settle),
                    ("count", _) => ops.push(Op::Count),
                    ("dropsub", 2) => ops.push(Op::DropSub(num(w[1]))),
                    ("dropsender", _) => ops.push(Op::DropSender),
                    ("clonesender", _) => ops.push(Op::CloneSender),
                    _ => (),
                }
            }
        }
    }
    if let Some(c) = cur.take() {
        cases.push(c);
    }
    cases
}

fn main() {
    let args: Vec<String> = std::env::args().collect();
    std::panic::set_hook(Box::new(|_| {}));
    // watchdog: `Sender::send` is a synchronous call; if it (or anything else) blocks the only thread,
    // no timeout can fire, so a second thread watches the heartbeat in wall-clock time
    std::thread::spawn(|| {
        let mut last = HEARTBEAT.load(Ordering::Relaxed);
        let mut idle = 0;
        loop {
            std::thread::sleep(Duration::from_millis(250));
            let now = HEARTBEAT.load(Ordering::Relaxed);
            if now == last {
                idle += 1;
                if idle > 180 {
                    // stdout is locked by the main thread: report on stderr, the exit code tells the check
                    eprintln!("BLOCKED the harness thread made no progress for 45 s of wall-clock time: a synchronous call (Sender::send) blocks");
                    std::process::exit(3);
                }
            } else {
                idle = 0;
                last = now;
            }
        }
    });
    let out = std::io::stdout();
    let mut out = std::io::BufWriter::new(out.lock());
    let thorough = std::env::var("VERIF_TIER").map(|t| t == "thorough").unwrap_or(false);
    match args.get(1).map(|s| s.as_str()) {
        Some("gen") => {
            let count: u64 = args[2].parse().unwrap();
            let mut rng = Rng::from_env();
            let mut st = Stats::default();
            for i in 0..count {
                let mut r = rng.fork();
                let (hdr, ops) = gen_case(&mut r, i, thorough, &mut st);
                for l in exec_case(&hdr, &ops) {
                    writeln!(out, "{l}").unwrap();
                }
                out.flush().unwrap();
            }
            for (k, v) in &st.m {
                eprintln!("STAT {k} {v}");
            }
        }
        Some("run") => {
            for f in &args[2..] {
                let text = std::fs::read_to_string(f).expect("replay file");
                for (hdr, ops) in parse_cases(&text) {
                    for l in exec_case(&hdr, &ops) {
                        writeln!(out, "{l}").unwrap();
                    }
                }
            }
        }
        _ => {
            eprintln!("usage: bcast gen <count> | bcast run <file>...");
            std::process::exit(2);
        }
    }
    out.flush().unwrap();
}
