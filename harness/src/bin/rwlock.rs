//! C17 correspondence harness: the real `remoc::robj::rw_lock` with several lock clones on the
//! owner's endpoint and on remote endpoints (real connections: `remoc::Connect::io` over
//! `tokio::io::duplex`, lock clones sent through the connection's base channel).
//!
//! usage: rwlock run <script-file>...      run scripts, print `trace <name>` + trace lines
//!        rwlock gen <exact|burst|race|loss> <count>   generate scripts online (seed: VERIF_SEED), run, print
//!
//! Script lines (also echoed into the trace with prefix `s`):
//!   conns N              N remote endpoints 1..=N, each with its own connection to endpoint 0 (owner)
//!   handle local         new handle = owner.rw_lock()          (cache 0, shared by all local handles)
//!   handle remote E      new handle = owner.rw_lock() sent to endpoint E (fresh cache)
//!   handle clone H       new handle = handle H cloned (shares H's cache)
//!   read K H Y           operation K: after Y yields call H.read(); hold the guard until `rel K`
//!   write K H Y          operation K: after Y yields call H.write(); hold until `commit K` / `wdrop K`
//!   rel K Y | commit K Y | wdrop K Y    close operation K (Y yields after the guard is there)
//!   yield N | settle | kill E | end
//! Trace lines: `handle I cache=C ep=E`, `e <event>` (rstart/racq/rrel/rerr/wstart/wacq/werr/wcommit/wdone/wdrop),
//! `q K <state>` (state of every open operation at a settle), `hang K <kind>`, `end`.
//!
//! Single-threaded runtime with a paused clock: the trace order is the real execution order,
//! `sleep(1ns)` returns at quiescence, and an operation still pending after all guards are
//! released, a settle and one virtual hour can never complete (hang).

use remoc::{
    rch::base,
    robj::rw_lock::{Owner, RwLock},
};
use std::{
    collections::BTreeMap,
    io::Write,
    sync::{
        Arc,
        atomic::{AtomicU8, Ordering},
    },
    time::Duration,
};
use tokio::sync::mpsc;
use verif_harness::{prng::Rng, trace};

type Lock = RwLock<u64>;

const ST_NEW: u8 = 0;
const ST_PEND: u8 = 1;
const ST_HELD: u8 = 2;
const ST_COMMITTING: u8 = 3;
const ST_DONE: u8 = 4;
const ST_ERR: u8 = 5;
const ST_DROPPED: u8 = 6;

fn st_name(s: u8) -> &'static str {
    match s {
        ST_NEW => "new",
        ST_PEND => "pend",
        ST_HELD => "held",
        ST_COMMITTING => "committing",
        ST_DONE => "done",
        ST_ERR => "err",
        ST_DROPPED => "dropped",
        _ => "?",
    }
}

#[derive(Clone, Copy, PartialEq, Debug)]
enum Cmd {
    Release(Delay),
    Commit(Delay, u64),
    Drop(Delay),
}

struct Op {
    write: bool,
    handle: usize,
    tx: mpsc::UnboundedSender<Cmd>,
    state: Arc<AtomicU8>,
    closed: bool,
    reported: bool,
}

struct Handle {
    lock: Lock,
    cache: usize,
    ep: usize,
}

struct Conn {
    tx: base::Sender<Lock>,
    rx: base::Receiver<Lock>,
    tasks: Vec<tokio::task::JoinHandle<()>>,
    alive: bool,
}

struct World {
    owner: Owner<u64>,
    conns: Vec<Conn>, // index e-1
    handles: Vec<Handle>,
    ops: BTreeMap<u32, Op>,
    next_cache: usize,
    next_val: u64,
}

async fn yields(n: u32) {
    for _ in 0..n {
        tokio::task::yield_now().await;
    }
}

/// Delay by `n` queue hops: each hop spawns a helper task that wakes us, so we are re-queued
/// right behind the helper (FIFO position), unlike `yield_now`, which defers the task until
/// the run queue has drained.
async fn hops(n: u32) {
    for _ in 0..n {
        let (tx, rx) = tokio::sync::oneshot::channel::<()>();
        tokio::spawn(async move {
            let _ = tx.send(());
        });
        let _ = rx.await;
    }
}

/// delay spec: `N` = N yields, `hN` = N queue hops
#[derive(Clone, Copy, PartialEq, Debug)]
struct Delay(u32, bool);

impl Delay {
    fn parse(s: Option<&&str>) -> Delay {
        match s {
            None => Delay(0, false),
            Some(s) if s.starts_with('h') => Delay(s[1..].parse().unwrap(), true),
            Some(s) => Delay(s.parse().unwrap(), false),
        }
    }
    async fn wait(self) {
        if self.1 { hops(self.0).await } else { yields(self.0).await }
    }
}

async fn settle() {
    tokio::time::sleep(Duration::from_nanos(1)).await;
}

async fn make_conn() -> Conn {
    let (a, b) = tokio::io::duplex(1 << 16);
    let (a_rd, a_wr) = tokio::io::split(a);
    let (b_rd, b_wr) = tokio::io::split(b);
    let cfg = remoc::Cfg::default();
    let fa = remoc::Connect::io::<_, _, Lock, Lock, remoc::codec::Default>(cfg.clone(), a_rd, a_wr);
    let fb = remoc::Connect::io::<_, _, Lock, Lock, remoc::codec::Default>(cfg, b_rd, b_wr);
    let (ra, rb) = tokio::join!(fa, fb);
    let (conn_a, tx_a, _rx_a) = ra.expect("connect a");
    let (conn_b, _tx_b, rx_b) = rb.expect("connect b");
    let ta = tokio::spawn(async move {
        let _ = conn_a.await;
    });
    let tb = tokio::spawn(async move {
        let _ = conn_b.await;
    });
    // _rx_a and _tx_b are dropped: only the direction owner -> remote endpoint is used
    Conn { tx: tx_a, rx: rx_b, tasks: vec![ta, tb], alive: true }
}

impl World {
    async fn new(conns: usize) -> World {
        let owner = Owner::new(0u64);
        let mut cs = Vec::new();
        for _ in 0..conns {
            cs.push(make_conn().await);
        }
        World { owner, conns: cs, handles: Vec::new(), ops: BTreeMap::new(), next_cache: 1, next_val: 0 }
    }

    fn fresh_val(&mut self) -> u64 {
        self.next_val += 1;
        self.next_val
    }

    async fn add_handle(&mut self, spec: &[&str]) {
        let h = match spec[0] {
            "local" => Handle { lock: self.owner.rw_lock(), cache: 0, ep: 0 },
            "remote" => {
                let e: usize = spec[1].parse().unwrap();
                let c = &mut self.conns[e - 1];
                c.tx.send(self.owner.rw_lock()).await.expect("send lock");
                let lock = c.rx.recv().await.expect("recv lock").expect("lock");
                let cache = self.next_cache;
                self.next_cache += 1;
                Handle { lock, cache, ep: e }
            }
            "clone" => {
                let i: usize = spec[1].parse().unwrap();
                let src = &self.handles[i];
                Handle { lock: src.lock.clone(), cache: src.cache, ep: src.ep }
            }
            x => panic!("bad handle spec {x}"),
        };
        trace::tr(format!("handle {} cache={} ep={}", self.handles.len(), h.cache, h.ep));
        self.handles.push(h);
    }

    fn start_read(&mut self, k: u32, h: usize, y: Delay) {
        let lock = self.handles[h].lock.clone();
        let (tx, mut rx) = mpsc::unbounded_channel::<Cmd>();
        let state = Arc::new(AtomicU8::new(ST_NEW));
        let st = state.clone();
        tokio::spawn(async move {
            y.wait().await;
            st.store(ST_PEND, Ordering::SeqCst);
            trace::tr(format!("e rstart {k}"));
            match lock.read().await {
                Ok(g) => {
                    st.store(ST_HELD, Ordering::SeqCst);
                    trace::tr(format!("e racq {k} {}", *g));
                    let y2 = match rx.recv().await {
                        Some(Cmd::Release(y2)) => y2,
                        _ => Delay(0, false),
                    };
                    y2.wait().await;
                    // the value must not change while the guard is held
                    trace::tr(format!("e rrel {k} {}", *g));
                    st.store(ST_DONE, Ordering::SeqCst);
                    drop(g);
                }
                Err(_) => {
                    st.store(ST_ERR, Ordering::SeqCst);
                    trace::tr(format!("e rerr {k}"));
                }
            }
        });
        self.ops.insert(k, Op { write: false, handle: h, tx, state, closed: false, reported: false });
    }

    fn start_write(&mut self, k: u32, h: usize, y: Delay) {
        let lock = self.handles[h].lock.clone();
        let (tx, mut rx) = mpsc::unbounded_channel::<Cmd>();
        let state = Arc::new(AtomicU8::new(ST_NEW));
        let st = state.clone();
        tokio::spawn(async move {
            y.wait().await;
            st.store(ST_PEND, Ordering::SeqCst);
            trace::tr(format!("e wstart {k}"));
            match lock.write().await {
                Ok(mut g) => {
                    st.store(ST_HELD, Ordering::SeqCst);
                    trace::tr(format!("e wacq {k} {}", *g));
                    match rx.recv().await {
                        Some(Cmd::Commit(y2, nv)) => {
                            y2.wait().await;
                            *g = nv;
                            st.store(ST_COMMITTING, Ordering::SeqCst);
                            trace::tr(format!("e wcommit {k} {nv}"));
                            match g.commit().await {
                                Ok(()) => {
                                    st.store(ST_DONE, Ordering::SeqCst);
                                    trace::tr(format!("e wdone {k} ok"));
                                }
                                Err(_) => {
                                    st.store(ST_ERR, Ordering::SeqCst);
                                    trace::tr(format!("e wdone {k} err"));
                                }
                            }
                        }
                        Some(Cmd::Drop(y2)) => {
                            y2.wait().await;
                            // scribble on the local copy: a dropped guard must not change the shared value
                            *g = 999_999;
                            trace::tr(format!("e wdrop {k}"));
                            st.store(ST_DROPPED, Ordering::SeqCst);
                            drop(g);
                        }
                        _ => {
                            trace::tr(format!("e wdrop {k}"));
                            st.store(ST_DROPPED, Ordering::SeqCst);
                            drop(g);
                        }
                    }
                }
                Err(_) => {
                    st.store(ST_ERR, Ordering::SeqCst);
                    trace::tr(format!("e werr {k}"));
                }
            }
        });
        self.ops.insert(k, Op { write: true, handle: h, tx, state, closed: false, reported: false });
    }

    fn st(&self, k: u32) -> u8 {
        self.ops[&k].state.load(Ordering::SeqCst)
    }

    fn report(&mut self) {
        for (k, op) in self.ops.iter_mut() {
            if op.reported {
                continue;
            }
            let s = op.state.load(Ordering::SeqCst);
            trace::tr(format!("q {k} {}", st_name(s)));
            if matches!(s, ST_DONE | ST_ERR | ST_DROPPED) {
                op.reported = true;
            }
        }
    }

    fn kill(&mut self, e: usize) {
        let c = &mut self.conns[e - 1];
        for t in &c.tasks {
            t.abort();
        }
        c.alive = false;
    }

    fn ep_alive(&self, e: usize) -> bool {
        e == 0 || self.conns[e - 1].alive
    }

    /// Executes one script line (echoed into the trace).  Returns false at `end`.
    async fn exec(&mut self, line: &str) -> bool {
        let w: Vec<&str> = line.split_whitespace().collect();
        if w.is_empty() || w[0].starts_with('#') {
            return true;
        }
        trace::tr(format!("s {}", w.join(" ")));
        let num = |i: usize| -> u32 { w.get(i).map(|x| x.parse().unwrap()).unwrap_or(0) };
        match w[0] {
            "handle" => self.add_handle(&w[1..]).await,
            "read" => self.start_read(num(1), num(2) as usize, Delay::parse(w.get(3))),
            "write" => self.start_write(num(1), num(2) as usize, Delay::parse(w.get(3))),
            "rel" => {
                let op = self.ops.get_mut(&num(1)).unwrap();
                op.closed = true;
                let _ = op.tx.send(Cmd::Release(Delay::parse(w.get(2))));
            }
            "commit" => {
                let nv = self.fresh_val();
                let op = self.ops.get_mut(&num(1)).unwrap();
                op.closed = true;
                let _ = op.tx.send(Cmd::Commit(Delay::parse(w.get(2)), nv));
            }
            "wdrop" => {
                let op = self.ops.get_mut(&num(1)).unwrap();
                op.closed = true;
                let _ = op.tx.send(Cmd::Drop(Delay::parse(w.get(2))));
            }
            "yield" => yields(num(1)).await,
            "fine" => {}
            "settle" => {
                settle().await;
                self.report();
            }
            "kill" => self.kill(num(1) as usize),
            "end" => {
                self.finish().await;
                return false;
            }
            x => panic!("bad script line {x}"),
        }
        true
    }

    fn open_live(&self) -> Vec<u32> {
        self.ops
            .iter()
            .filter(|(_, op)| {
                self.ep_alive(self.handles[op.handle].ep)
                    && matches!(op.state.load(Ordering::SeqCst), ST_NEW | ST_PEND | ST_HELD | ST_COMMITTING)
            })
            .map(|(k, _)| *k)
            .collect()
    }

    /// Every guard gets released (operations never closed by the script are closed now), then
    /// the system is left to settle; whatever is still pending afterwards hangs.
    async fn finish(&mut self) {
        let ks: Vec<u32> = self.ops.keys().copied().collect();
        for k in ks {
            let nv = self.next_val + 1;
            let op = self.ops.get_mut(&k).unwrap();
            if !op.closed {
                op.closed = true;
                if op.write {
                    // deterministic choice: even ids commit, odd ids drop
                    if k % 2 == 0 {
                        self.next_val = nv;
                        let _ = op.tx.send(Cmd::Commit(Delay(0, false), nv));
                        trace::tr(format!("s commit {k} 0"));
                    } else {
                        let _ = op.tx.send(Cmd::Drop(Delay(0, false)));
                        trace::tr(format!("s wdrop {k} 0"));
                    }
                } else {
                    let _ = op.tx.send(Cmd::Release(Delay(0, false)));
                    trace::tr(format!("s rel {k} 0"));
                }
            }
        }
        trace::tr("s settle".into());
        settle().await;
        if !self.open_live().is_empty() {
            tokio::time::sleep(Duration::from_secs(3600)).await;
            settle().await;
        }
        self.report();
        for k in self.open_live() {
            let op = &self.ops[&k];
            trace::tr(format!("hang {k} {} {}", if op.write { "write" } else { "read" }, st_name(op.state.load(Ordering::SeqCst))));
        }
        trace::tr("end".into());
    }
}

/// `fine`: the scheduler returns to the harness future after every single task poll, so that one `yield`
/// is one poll of one other task (otherwise up to 61 polls) and stimuli land between any two polls.
fn run_rt<F: std::future::Future<Output = ()>>(fine: bool, f: F) {
    let mut b = tokio::runtime::Builder::new_current_thread();
    b.enable_time().start_paused(true);
    if fine {
        b.event_interval(1);
    }
    let rt = b.build().unwrap();
    rt.block_on(f);
    drop(rt);
}

fn run_script(lines: &[String]) {
    let lines = lines.to_vec();
    let fine = lines.iter().any(|l| l.trim() == "fine");
    run_rt(fine, async move {
        let mut conns = 0usize;
        let mut it = lines.iter().peekable();
        while let Some(l) = it.peek() {
            let w: Vec<&str> = l.split_whitespace().collect();
            if w.is_empty() || w[0].starts_with('#') {
                it.next();
                continue;
            }
            if w[0] == "mode" || w[0] == "model" {
                trace::tr(w.join(" "));
                it.next();
                continue;
            }
            if w[0] == "conns" {
                conns = w[1].parse().unwrap();
                trace::tr(format!("s conns {conns}"));
                it.next();
            }
            break;
        }
        let mut world = World::new(conns).await;
        let mut ended = false;
        for l in it {
            if !world.exec(l).await {
                ended = true;
                break;
            }
        }
        if !ended {
            world.exec("end").await;
        }
    });
}

// ------------------------------------------------------------------------------------------
// online generators

struct Gen {
    mode: &'static str,
    rng: Rng,
    next_op: u32,
    stats: BTreeMap<&'static str, u64>,
}

impl Gen {
    fn stat(&mut self, k: &'static str) {
        *self.stats.entry(k).or_insert(0) += 1;
    }

    /// world set-up: 0-2 connections, 2-4 handles, at least two caches
    async fn setup(&mut self, force_conns: Option<usize>) -> World {
        let conns = force_conns.unwrap_or_else(|| self.rng.below(3) as usize);
        trace::tr(format!("mode {}", self.mode));
        trace::tr(format!("s conns {conns}"));
        let mut w = World::new(conns).await;
        let nh = self.rng.range(2, 4) as usize;
        w.exec("handle local").await;
        self.stat("handle_local");
        for e in 1..=conns {
            w.exec(&format!("handle remote {e}")).await;
            self.stat("handle_remote");
        }
        while w.handles.len() < nh {
            self.more_handle(&mut w).await;
        }
        w
    }

    async fn more_handle(&mut self, w: &mut World) {
        let conns = w.conns.len();
        let r = self.rng.below(4);
        if r == 0 {
            w.exec("handle local").await;
            self.stat("handle_local");
        } else if r == 1 || conns == 0 {
            let h = self.rng.below(w.handles.len() as u64);
            w.exec(&format!("handle clone {h}")).await;
            self.stat("handle_clone");
        } else {
            let e = self.rng.range(1, conns as u64) as usize;
            if w.ep_alive(e) {
                w.exec(&format!("handle remote {e}")).await;
                self.stat("handle_remote");
            }
        }
    }

    fn live_handle(&mut self, w: &World) -> usize {
        loop {
            let h = self.rng.below(w.handles.len() as u64) as usize;
            if w.ep_alive(w.handles[h].ep) {
                return h;
            }
        }
    }

    /// exact mode: one stimulus, settle, look at the states, choose the next stimulus
    async fn exact(&mut self, steps: usize, with_loss: bool) {
        let fc = if with_loss { Some(self.rng.range(1, 2) as usize) } else { None };
        let mut w = self.setup(fc).await;
        let mut killed = false;
        for step in 0..steps {
            let open: Vec<u32> = w.open_live();
            let held_r: Vec<u32> = open.iter().copied().filter(|k| !w.ops[k].write && w.st(*k) == ST_HELD && !w.ops[k].closed).collect();
            let held_w: Vec<u32> = open.iter().copied().filter(|k| w.ops[k].write && w.st(*k) == ST_HELD && !w.ops[k].closed).collect();
            let r = self.rng.below(100);
            let line = if with_loss && !killed && step > 2 && r < 8 {
                let e = self.rng.range(1, w.conns.len() as u64);
                killed = true;
                self.stat("kill");
                format!("kill {e}")
            } else if r < 4 && w.handles.len() < 6 {
                self.more_handle(&mut w).await;
                continue;
            } else if r < 40 && open.len() < 6 {
                let h = self.live_handle(&w);
                let k = self.next_op;
                self.next_op += 1;
                self.stat("read");
                format!("read {k} {h} 0")
            } else if r < 55 && open.len() < 6 {
                let h = self.live_handle(&w);
                let k = self.next_op;
                self.next_op += 1;
                self.stat("write");
                format!("write {k} {h} 0")
            } else if r < 80 && !held_r.is_empty() {
                self.stat("rel");
                format!("rel {} 0", self.rng.pick(&held_r))
            } else if !held_w.is_empty() {
                let k = *self.rng.pick(&held_w);
                if self.rng.chance(2, 3) {
                    self.stat("commit");
                    format!("commit {k} 0")
                } else {
                    self.stat("wdrop");
                    format!("wdrop {k} 0")
                }
            } else if !held_r.is_empty() {
                self.stat("rel");
                format!("rel {} 0", self.rng.pick(&held_r))
            } else {
                continue;
            };
            w.exec(&line).await;
            w.exec("settle").await;
        }
        // final reads on every live handle: they must see the last committed value
        self.close_and_final_reads(&mut w).await;
    }

    async fn close_and_final_reads(&mut self, w: &mut World) {
        // close everything that is open, in a loop (a closed writer lets readers in, ...)
        for _ in 0..64 {
            let open = w.open_live();
            let mut any = false;
            for k in open {
                if w.ops[&k].closed || w.st(k) != ST_HELD {
                    continue;
                }
                any = true;
                let line = if w.ops[&k].write {
                    if self.rng.bool() { format!("commit {k} 0") } else { format!("wdrop {k} 0") }
                } else {
                    format!("rel {k} 0")
                };
                w.exec(&line).await;
                w.exec("settle").await;
            }
            if !any {
                break;
            }
        }
        if w.open_live().is_empty() {
            for h in 0..w.handles.len() {
                if w.ep_alive(w.handles[h].ep) {
                    let k = self.next_op;
                    self.next_op += 1;
                    w.exec(&format!("read {k} {h} 0")).await;
                    w.exec("settle").await;
                    w.exec(&format!("rel {k} 0")).await;
                    w.exec("settle").await;
                    self.stat("final_read");
                }
            }
            w.exec("settle").await;
        }
        w.exec("end").await;
    }

    /// burst mode: stimuli without settling in between, random yields inside the operation
    /// tasks and between stimuli; every operation gets its closing command at a random later
    /// position (queued if the guard is not there yet).
    async fn burst(&mut self, stimuli: usize, race: bool) {
        let mut w = self.setup(None).await;
        if race {
            w.exec("fine").await;
        }
        let mut unclosed: Vec<u32> = Vec::new();
        let mut since_settle = 0;
        for _ in 0..stimuli {
            let r = self.rng.below(100);
            let line = if (r < 35 || unclosed.is_empty()) && unclosed.len() < 8 {
                let h = self.live_handle(&w);
                let k = self.next_op;
                self.next_op += 1;
                unclosed.push(k);
                let y = if race { self.rng.below(30) } else { self.rng.below(3) };
                if self.rng.chance(if race { 6 } else { 7 }, 10) {
                    self.stat("read");
                    format!("read {k} {h} {y}")
                } else {
                    self.stat("write");
                    format!("write {k} {h} {y}")
                }
            } else if r < 75 {
                let i = self.rng.below(unclosed.len() as u64) as usize;
                let k = unclosed.swap_remove(i);
                let y = if race { self.rng.below(20) } else { self.rng.below(4) };
                if w.ops[&k].write {
                    if self.rng.chance(2, 3) {
                        self.stat("commit");
                        // commit on a remote endpoint, then cut its connection almost at once: a commit
                        // that returned Ok must be visible afterwards
                        let e = w.handles[w.ops[&k].handle].ep;
                        if e != 0 && w.ep_alive(e) && self.rng.chance(1, 4) {
                            w.exec(&format!("commit {k} 0")).await;
                            let y = self.rng.below(4);
                            if y > 0 {
                                w.exec(&format!("yield {y}")).await;
                            }
                            self.stat("kill");
                            format!("kill {e}")
                        } else {
                            format!("commit {k} {y}")
                        }
                    } else {
                        self.stat("wdrop");
                        format!("wdrop {k} {y}")
                    }
                } else {
                    self.stat("rel");
                    format!("rel {k} {y}")
                }
            } else if r < 90 {
                self.stat("yield");
                format!("yield {}", if race { self.rng.range(1, 40) } else { self.rng.range(1, 5) })
            } else if r < 93 && w.handles.len() < 6 {
                self.more_handle(&mut w).await;
                continue;
            } else {
                since_settle = 0;
                self.stat("settle");
                "settle".to_string()
            };
            since_settle += 1;
            w.exec(&line).await;
            if since_settle > 12 {
                w.exec("settle").await;
                since_settle = 0;
            }
        }
        w.exec("end").await;
    }
}

// ---------------------------------------------------------------------------------------------
// Undeliverable commits: a lock over a value type whose deserializer refuses some values. A commit of
// such a value cannot reach the owner; it must not be confirmed, and the value all later requests see
// is the last confirmed one ("committed writes are never lost", read = latest committed value).
// ---------------------------------------------------------------------------------------------
const POISON: u64 = 1 << 40;

#[derive(Clone, Debug, serde::Serialize)]
struct PVal(u64);

impl<'de> serde::Deserialize<'de> for PVal {
    fn deserialize<D: serde::Deserializer<'de>>(d: D) -> Result<Self, D::Error> {
        let v = <u64 as serde::Deserialize>::deserialize(d)?;
        if v >= POISON {
            Err(<D::Error as serde::de::Error>::custom("undeliverable value"))
        } else {
            Ok(PVal(v))
        }
    }
}

type PLock = RwLock<PVal>;

async fn poison_case(mut rng: Rng) {
    trace::tr("mode burst".into());
    trace::tr("s conns 1".into());
    let owner = Owner::new(PVal(0));
    let (a, b) = tokio::io::duplex(1 << 16);
    let (a_rd, a_wr) = tokio::io::split(a);
    let (b_rd, b_wr) = tokio::io::split(b);
    let cfg = remoc::Cfg::default();
    let fa = remoc::Connect::io::<_, _, PLock, PLock, remoc::codec::Default>(cfg.clone(), a_rd, a_wr);
    let fb = remoc::Connect::io::<_, _, PLock, PLock, remoc::codec::Default>(cfg, b_rd, b_wr);
    let (ra, rb) = tokio::join!(fa, fb);
    let (conn_a, mut tx_a, _rx_a) = ra.expect("connect a");
    let (conn_b, _tx_b, mut rx_b) = rb.expect("connect b");
    let ta = tokio::spawn(async move {
        let _ = conn_a.await;
    });
    let tb = tokio::spawn(async move {
        let _ = conn_b.await;
    });
    let mut handles: Vec<PLock> = Vec::new();
    trace::tr("s handle local".into());
    handles.push(owner.rw_lock());
    trace::tr("handle 0 cache=0 ep=0".into());
    let nremote = rng.range(1, 3) as usize;
    for i in 0..nremote {
        trace::tr("s handle remote 1".into());
        tx_a.send(owner.rw_lock()).await.expect("send lock");
        handles.push(rx_b.recv().await.expect("recv lock").expect("lock"));
        trace::tr(format!("handle {} cache={} ep=1", i + 1, i + 1));
    }
    let limit = Duration::from_secs(3600);
    let rounds = rng.range(2, 6);
    let poison_round = rng.below(rounds);
    let mut k = 0u32;
    let mut hung = false;
    for round in 0..rounds {
        if hung {
            break;
        }
        // a write through a remote handle (the value travels over the connection)
        k += 1;
        let h = rng.range(1, nremote as u64) as usize;
        let poison = round == poison_round || rng.chance(1, 4);
        let nv = if poison { POISON + k as u64 } else { 100 + k as u64 };
        trace::tr(format!("s write {k} {h} 0"));
        trace::tr(format!("e wstart {k}"));
        match tokio::time::timeout(limit, handles[h].write()).await {
            Ok(Ok(mut g)) => {
                trace::tr(format!("e wacq {k} {}", g.0));
                yields(rng.below(3) as u32).await;
                *g = PVal(nv);
                trace::tr(format!("s commit {k} 0"));
                if poison {
                    trace::tr(format!("undeliverable {k}"));
                }
                trace::tr(format!("e wcommit {k} {nv}"));
                match tokio::time::timeout(limit, g.commit()).await {
                    Ok(Ok(())) => trace::tr(format!("e wdone {k} ok")),
                    Ok(Err(_)) => trace::tr(format!("e wdone {k} err")),
                    Err(_) => {
                        trace::tr(format!("hang {k} write committing"));
                        hung = true;
                    }
                }
            }
            Ok(Err(_)) => trace::tr(format!("e werr {k}")),
            Err(_) => {
                trace::tr(format!("hang {k} write pend"));
                hung = true;
            }
        }
        if hung {
            break;
        }
        // reads on some handles: each must see the last confirmed value
        for _ in 0..rng.range(1, 4) {
            k += 1;
            let h = rng.below(nremote as u64 + 1) as usize;
            trace::tr(format!("s read {k} {h} 0"));
            trace::tr(format!("e rstart {k}"));
            match tokio::time::timeout(limit, handles[h].read()).await {
                Ok(Ok(g)) => {
                    trace::tr(format!("e racq {k} {}", g.0));
                    yields(rng.below(2) as u32).await;
                    trace::tr(format!("s rel {k} 0"));
                    trace::tr(format!("e rrel {k} {}", g.0));
                    drop(g);
                }
                Ok(Err(_)) => trace::tr(format!("e rerr {k}")),
                Err(_) => {
                    trace::tr(format!("hang {k} read pend"));
                    hung = true;
                    break;
                }
            }
        }
    }
    trace::tr("s end".into());
    trace::tr("end".into());
    drop(handles);
    drop(owner);
    ta.abort();
    tb.abort();
}

fn main() {
    let args: Vec<String> = std::env::args().collect();
    std::panic::set_hook(Box::new(|info| {
        let msg = info.to_string().replace('\n', " ");
        trace::tr(format!("panic {msg}"));
    }));
    let out = std::io::stdout();
    let mut out = std::io::BufWriter::new(out.lock());
    let flush = |out: &mut std::io::BufWriter<std::io::StdoutLock>, name: &str| {
        writeln!(out, "trace {name}").unwrap();
        for l in trace::take() {
            writeln!(out, "{l}").unwrap();
        }
    };
    match args.get(1).map(|s| s.as_str()) {
        Some("run") => {
            for f in &args[2..] {
                let text = std::fs::read_to_string(f).expect("script file");
                let lines: Vec<String> = text.lines().map(|l| l.to_string()).collect();
                let r = std::panic::catch_unwind(|| run_script(&lines));
                if r.is_err() {
                    trace::tr("crash".into());
                }
                flush(&mut out, f);
            }
        }
        Some("gen") => {
            let g = args[2].clone();
            let count: u64 = args[3].parse().unwrap();
            let mut rng = Rng::from_env();
            let mut stats: BTreeMap<&'static str, u64> = BTreeMap::new();
            for i in 0..count {
                let r = rng.fork();
                let gname = g.clone();
                let res = std::panic::catch_unwind(move || {
                    let mode = if gname == "exact" || gname == "loss" { "exact" } else { "burst" };
                    let mut gen_ = Gen { mode, rng: r, next_op: 1, stats: BTreeMap::new() };
                    let cell = std::sync::Arc::new(std::sync::Mutex::new(None));
                    let c2 = cell.clone();
                    run_rt(gname == "race", async move {
                        match gname.as_str() {
                            "poison" => poison_case(gen_.rng.fork()).await,
                            "exact" => {
                                let n = gen_.rng.range(8, 40) as usize;
                                gen_.exact(n, false).await
                            }
                            "loss" => {
                                let n = gen_.rng.range(8, 30) as usize;
                                gen_.exact(n, true).await
                            }
                            "burst" => {
                                let n = gen_.rng.range(6, 40) as usize;
                                gen_.burst(n, false).await
                            }
                            "race" => {
                                let n = gen_.rng.range(4, 14) as usize;
                                gen_.burst(n, true).await
                            }
                            x => panic!("unknown generator {x}"),
                        }
                        *c2.lock().unwrap() = Some(gen_.stats);
                    });
                    cell.lock().unwrap().take()
                });
                match res {
                    Ok(Some(s)) => {
                        for (k, v) in s {
                            *stats.entry(k).or_insert(0) += v;
                        }
                    }
                    _ => trace::tr("crash".into()),
                }
                flush(&mut out, &format!("{g}-{i}"));
            }
            for (k, v) in stats {
                eprintln!("STAT {k} {v}");
            }
        }
        _ => {
            eprintln!("usage: rwlock run <file>... | rwlock gen <exact|burst|race|loss> <count>");
            std::process::exit(2);
        }
    }
    out.flush().unwrap();
}
