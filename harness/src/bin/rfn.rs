//! Remote functions (C12, C19) against the real `remoc::rfn` wrappers.
//!
//! usage: rfn run <script-file>...        run the given scripts (several cases per file allowed)
//!        rfn gen <generator> <count>     generate scripts (seed from VERIF_SEED), run them, print traces

use std::io::Write;
use verif_harness::{rfngens, rfnworld::run_script};

fn split_cases(text: &str) -> Vec<Vec<String>> {
    let mut cases: Vec<Vec<String>> = Vec::new();
    for l in text.lines() {
        let l = l.trim();
        if l.is_empty() || l.starts_with('#') {
            continue;
        }
        if l.starts_with("case ") {
            cases.push(vec![l.to_string()]);
        } else if let Some(c) = cases.last_mut() {
            c.push(l.to_string());
        }
    }
    cases
}

fn main() {
    let args: Vec<String> = std::env::args().collect();
    std::panic::set_hook(Box::new(|_| {}));
    let out = std::io::stdout();
    let mut out = std::io::BufWriter::new(out.lock());
    let mut stats: std::collections::BTreeMap<String, u64> = Default::default();
    // see bin/rtc.rs: a task that keeps the single-threaded runtime busy for ever is reported by a real-time watchdog
    static CURRENT: std::sync::Mutex<String> = std::sync::Mutex::new(String::new());
    verif_harness::typed::start_watchdog(40, || {
        eprintln!("LIVELOCK the process made no progress for 40 s of real time while running this case:");
        eprintln!("{}", CURRENT.lock().unwrap());
    });
    match args.get(1).map(|s| s.as_str()) {
        Some("run") => {
            for f in &args[2..] {
                let text = std::fs::read_to_string(f).expect("script file");
                for case in split_cases(&text) {
                    *CURRENT.lock().unwrap() = case.join("\n");
                    for l in run_script(&case) {
                        writeln!(out, "{l}").unwrap();
                    }
                }
            }
        }
        Some("gen") => {
            let g = args[2].clone();
            let count: u64 = args[3].parse().unwrap();
            let mut rng = verif_harness::prng::Rng::from_env();
            for i in 0..count {
                let mut r = rng.fork();
                let script = rfngens::generate(&g, &mut r, i, &mut stats);
                *CURRENT.lock().unwrap() = script.join("\n");
                for l in run_script(&script) {
                    writeln!(out, "{l}").unwrap();
                }
            }
        }
        _ => {
            eprintln!("usage: rfn run <file>... | rfn gen <generator> <count>");
            std::process::exit(2);
        }
    }
    out.flush().unwrap();
    for (k, v) in stats {
        eprintln!("STAT {k} {v}");
    }
}
