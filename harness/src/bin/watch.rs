//! C15 correspondence harness: drives the real `remoc::rch::watch` locally and across 1–3 real
//! connections (`remoc::Connect::io` over `tokio::io::duplex`, endpoints E0 – E1 – E2 – E3 in a chain).
//!
//! usage: watch gen <count>          generate <count> cases (seed from VERIF_SEED), run, print traces
//!        watch run <file>...        re-run the cases contained in trace/replay files
//!
//! Runtime: current-thread, paused clock.  `settle` = `sleep(1ns)` (returns at quiescence); after every
//! settle the harness prints what every live plain receiver reads (`q` line).  `changed` = settle +
//! `timeout(1h, changed())`; `waitfor`, `next`, `transfer`, `xfersender`, `yield` await without settling
//! first, so forwarding tasks make partial progress while the harness continues (races).
//! Values are their send index: the channel starts with 0, the k-th successful send sends k.
//!
//! Line protocol (stdout), one case:
//!   case <name> conns=<k>
//!   send <0|1|2> -> <v> ok|closed          0 send, 1 send_replace, 2 send_modify
//!   borrow <r> -> v<i>|err     bau <r> -> v<i>|err      haschanged <r> -> 0|1|closed
//!   changed <r> -> ok|closed|pending       waitfor <r> <k> -> v<i>|closed|pending|err
//!   next <r> -> v<i>|closed|pending|err    tostream <r>
//!   clone <r> -> <r'>   subscribe -> <r'>   transfer <r> <dir> -> ep<e>   xfersender <dir> -> ep<e>
//!   droprcv <r> | dropsender | yield | settle | q <r>=<v> ... | panic <msg> | end

use std::{
    io::Write,
    panic::{AssertUnwindSafe, catch_unwind},
    time::Duration,
};

use futures::StreamExt;
use remoc::{
    codec,
    rch::{
        base,
        watch::{self, ReceiverStream},
    },
};
use serde::{Deserialize, Serialize};
use verif_harness::prng::Rng;

type D = codec::Default;

#[derive(Serialize, Deserialize)]
enum Xfer {
    Rx(watch::Receiver<u32, D>),
    Tx(watch::Sender<u32, D>),
}

/// The `oversize` cases: the two endpoints of the base channel use different types for the same wire format, so that
/// only the receiving endpoint has the small item-size limit.
#[derive(Serialize, Deserialize)]
enum BigA {
    Rx(watch::Receiver<Vec<u8>, D>),
}
#[derive(Serialize, Deserialize)]
enum BigB {
    Rx(watch::Receiver<Vec<u8>, D, 64>),
}

#[derive(Clone, Debug, PartialEq)]
enum Op {
    Send(u8),
    Borrow(usize),
    Bau(usize),
    HasChanged(usize),
    Changed(usize),
    WaitFor(usize, u32),
    /// replay only: absolute target
    WaitForAbs(usize, u32),
    Next(usize),
    ToStream(usize),
    Clone(usize),
    Subscribe,
    Transfer(usize, i32),
    XferSender(i32),
    DropRcv(usize),
    DropSender,
    Yield,
    Settle,
}

#[derive(Clone, Debug)]
struct Hdr {
    name: String,
    conns: usize,
    /// chmux receive buffer (bytes) and duplex pipe size (bytes): small values make the forwarder's
    /// `remote_tx.send(value).await` really wait (credits, transport back-pressure)
    cbuf: u32,
    pipe: usize,
}

enum Kind {
    Plain(watch::Receiver<u32, D>),
    Stream(ReceiverStream<u32, D>),
}

struct RH {
    ep: usize,
    kind: Kind,
}

/// one connection Ei – Ei+1: `up` carries values from Ei to Ei+1, `down` from Ei+1 to Ei
struct Conn {
    up_tx: base::Sender<Xfer, D>,
    up_rx: base::Receiver<Xfer, D>,
    down_tx: base::Sender<Xfer, D>,
    down_rx: base::Receiver<Xfer, D>,
}

const HOUR: Duration = Duration::from_secs(3600);

async fn settle() {
    tokio::time::sleep(Duration::from_nanos(1)).await;
}

async fn connect(cbuf: u32, pipe: usize) -> Conn {
    let (a_io, b_io) = tokio::io::duplex(pipe);
    let (a_rd, a_wr) = tokio::io::split(a_io);
    let (b_rd, b_wr) = tokio::io::split(b_io);
    let mut cfg = remoc::Cfg::default();
    cfg.connection_timeout = None;
    cfg.receive_buffer = cbuf;
    cfg.shared_send_queue = 1;
    cfg.transport_send_queue = 1;
    cfg.transport_receive_queue = 1;
    let (a, b) = tokio::join!(
        remoc::Connect::io::<_, _, Xfer, Xfer, D>(cfg.clone(), a_rd, a_wr),
        remoc::Connect::io::<_, _, Xfer, Xfer, D>(cfg.clone(), b_rd, b_wr),
    );
    let (a_conn, a_tx, a_rx) = a.expect("connect A");
    let (b_conn, b_tx, b_rx) = b.expect("connect B");
    tokio::spawn(a_conn);
    tokio::spawn(b_conn);
    Conn { up_tx: a_tx, up_rx: b_rx, down_tx: b_tx, down_rx: a_rx }
}

/// move a value over connection `from` → `from + dir`
async fn ship(conns: &mut [Conn], from: usize, dir: i32, x: Xfer) -> Result<Xfer, String> {
    let (tx, rx) = if dir > 0 {
        let c = &mut conns[from];
        (&mut c.up_tx, &mut c.up_rx)
    } else {
        let c = &mut conns[from - 1];
        (&mut c.down_tx, &mut c.down_rx)
    };
    let (s, r) = tokio::join!(tokio::time::timeout(HOUR, tx.send(x)), tokio::time::timeout(HOUR, rx.recv()));
    match s {
        Ok(Ok(())) => (),
        Ok(Err(e)) => return Err(format!("transfer-send-failed {e}")),
        Err(_) => return Err("HANG transfer-send-hangs".into()),
    }
    match r {
        Ok(Ok(Some(x))) => Ok(x),
        Ok(Ok(None)) => Err("transfer-recv-closed".into()),
        Ok(Err(e)) => Err(format!("transfer-recv-failed {e}")),
        Err(_) => Err("HANG transfer-recv-hangs".into()),
    }
}

fn q_line(rcvs: &[Option<RH>]) -> String {
    let mut s = String::from("q");
    for (i, r) in rcvs.iter().enumerate() {
        if let Some(RH { kind: Kind::Plain(rx), .. }) = r {
            match rx.borrow() {
                Ok(v) => s.push_str(&format!(" {i}={}", *v)),
                Err(_) => s.push_str(&format!(" {i}=err")),
            }
        }
    }
    s
}

async fn run_case(hdr: &Hdr, ops: &[Op], out: &mut Vec<String>) {
    let mut conns: Vec<Conn> = Vec::new();
    for _ in 0..hdr.conns {
        conns.push(connect(hdr.cbuf, hdr.pipe).await);
    }
    let (tx0, rx0) = watch::channel::<u32, D>(0);
    let mut sender: Option<(watch::Sender<u32, D>, usize)> = Some((tx0, 0));
    let mut rcvs: Vec<Option<RH>> = vec![Some(RH { ep: 0, kind: Kind::Plain(rx0) })];
    let mut last: u32 = 0;
    for op in ops {
        match op {
            Op::Send(variant) => {
                let Some((tx, _)) = sender.as_ref() else { continue };
                let v = last + 1;
                let ok = match variant {
                    0 => tx.send(v).is_ok(),
                    1 => {
                        let _ = tx.send_replace(v);
                        true
                    }
                    _ => {
                        tx.send_modify(|x| *x = v);
                        true
                    }
                };
                if ok {
                    last = v;
                }
                out.push(format!("send {variant} -> {v} {}", if ok { "ok" } else { "closed" }));
            }
            Op::Borrow(r) => {
                let Some(Some(RH { kind: Kind::Plain(rx), .. })) = rcvs.get(*r) else { continue };
                let o = match rx.borrow() {
                    Ok(v) => format!("v{}", *v),
                    Err(_) => "err".into(),
                };
                out.push(format!("borrow {r} -> {o}"));
            }
            Op::Bau(r) => {
                let Some(Some(RH { kind: Kind::Plain(rx), .. })) = rcvs.get_mut(*r) else { continue };
                let o = match rx.borrow_and_update() {
                    Ok(v) => format!("v{}", *v),
                    Err(_) => "err".into(),
                };
                out.push(format!("bau {r} -> {o}"));
            }
            Op::HasChanged(r) => {
                let Some(Some(RH { kind: Kind::Plain(rx), .. })) = rcvs.get(*r) else { continue };
                let o = match rx.has_changed() {
                    Ok(true) => "1",
                    Ok(false) => "0",
                    Err(_) => "closed",
                };
                out.push(format!("haschanged {r} -> {o}"));
            }
            Op::Changed(r) => {
                let Some(Some(RH { kind: Kind::Plain(rx), .. })) = rcvs.get_mut(*r) else { continue };
                settle().await;
                let o = match tokio::time::timeout(HOUR, rx.changed()).await {
                    Ok(Ok(())) => "ok",
                    Ok(Err(_)) => "closed",
                    Err(_) => "pending",
                };
                out.push(format!("changed {r} -> {o}"));
            }
            Op::WaitFor(r, _) | Op::WaitForAbs(r, _) => {
                let Some(Some(RH { kind: Kind::Plain(rx), .. })) = rcvs.get_mut(*r) else { continue };
                let k = match op {
                    Op::WaitFor(_, back) => last.saturating_sub(*back),
                    Op::WaitForAbs(_, k) => (*k).min(last),
                    _ => unreachable!(),
                };
                let o = match tokio::time::timeout(HOUR, rx.wait_for(|v| *v >= k)).await {
                    Ok(Ok(v)) => format!("v{}", *v),
                    Ok(Err(watch::WaitForError::Closed)) => "closed".into(),
                    Ok(Err(_)) => "err".into(),
                    Err(_) => "pending".into(),
                };
                out.push(format!("waitfor {r} {k} -> {o}"));
            }
            Op::Next(r) => {
                let Some(Some(RH { kind: Kind::Stream(st), .. })) = rcvs.get_mut(*r) else { continue };
                let o = match tokio::time::timeout(HOUR, st.next()).await {
                    Ok(Some(Ok(v))) => format!("v{v}"),
                    Ok(Some(Err(_))) => "err".into(),
                    Ok(None) => "closed".into(),
                    Err(_) => "pending".into(),
                };
                out.push(format!("next {r} -> {o}"));
            }
            Op::ToStream(r) => {
                let Some(slot) = rcvs.get_mut(*r) else { continue };
                match slot.take() {
                    Some(RH { ep, kind: Kind::Plain(rx) }) => {
                        *slot = Some(RH { ep, kind: Kind::Stream(ReceiverStream::new(rx)) });
                        out.push(format!("tostream {r}"));
                    }
                    other => *slot = other,
                }
            }
            Op::Clone(r) => {
                let Some(Some(RH { ep, kind: Kind::Plain(rx) })) = rcvs.get(*r) else { continue };
                let n = RH { ep: *ep, kind: Kind::Plain(rx.clone()) };
                rcvs.push(Some(n));
                out.push(format!("clone {r} -> {}", rcvs.len() - 1));
            }
            Op::Subscribe => {
                let Some((tx, ep)) = sender.as_ref() else { continue };
                rcvs.push(Some(RH { ep: *ep, kind: Kind::Plain(tx.subscribe()) }));
                out.push(format!("subscribe -> {}", rcvs.len() - 1));
            }
            Op::Transfer(r, dir) => {
                let Some(slot) = rcvs.get_mut(*r) else { continue };
                let Some(RH { ep, kind: Kind::Plain(_) }) = slot.as_ref() else { continue };
                let ep = *ep;
                let to = ep as i32 + dir;
                if to < 0 || to as usize > hdr.conns {
                    continue;
                }
                let Some(RH { kind: Kind::Plain(rx), .. }) = slot.take() else { unreachable!() };
                match ship(&mut conns, ep, *dir, Xfer::Rx(rx)).await {
                    Ok(Xfer::Rx(rx)) => {
                        rcvs[*r] = Some(RH { ep: to as usize, kind: Kind::Plain(rx) });
                        out.push(format!("transfer {r} {dir} -> ep{to}"));
                    }
                    Ok(_) => {
                        out.push("panic transfer returned the wrong half".into());
                        return;
                    }
                    Err(e) => {
                        // a transfer that can never complete is a chmux-level matter (credits for port-carrying
                        // messages), not part of this property: the case is abandoned, not judged
                        out.push(if let Some(h) = e.strip_prefix("HANG ") { format!("abort {h}") } else { format!("panic {e}") });
                        return;
                    }
                }
            }
            Op::XferSender(dir) => {
                let Some((_, ep)) = sender.as_ref() else { continue };
                let ep = *ep;
                let to = ep as i32 + dir;
                if to < 0 || to as usize > hdr.conns {
                    continue;
                }
                let (tx, _) = sender.take().unwrap();
                match ship(&mut conns, ep, *dir, Xfer::Tx(tx)).await {
                    Ok(Xfer::Tx(tx)) => {
                        sender = Some((tx, to as usize));
                        out.push(format!("xfersender {dir} -> ep{to}"));
                    }
                    Ok(_) => {
                        out.push("panic transfer returned the wrong half".into());
                        return;
                    }
                    Err(e) => {
                        // a transfer that can never complete is a chmux-level matter (credits for port-carrying
                        // messages), not part of this property: the case is abandoned, not judged
                        out.push(if let Some(h) = e.strip_prefix("HANG ") { format!("abort {h}") } else { format!("panic {e}") });
                        return;
                    }
                }
            }
            Op::DropRcv(r) => {
                let Some(slot) = rcvs.get_mut(*r) else { continue };
                if slot.take().is_some() {
                    out.push(format!("droprcv {r}"));
                }
            }
            Op::DropSender => {
                if sender.take().is_some() {
                    out.push("dropsender".into());
                }
            }
            Op::Yield => {
                tokio::task::yield_now().await;
                out.push("yield".into());
            }
            Op::Settle => {
                settle().await;
                out.push("settle".into());
                out.push(q_line(&rcvs));
            }
        }
    }
    // final quiescence: what every live receiver reads, and that nothing is left to be notified
    settle().await;
    out.push("settle".into());
    out.push(q_line(&rcvs));
    for r in 0..rcvs.len() {
        match rcvs[r].as_mut() {
            Some(RH { kind: Kind::Plain(rx), .. }) => {
                let o = match rx.borrow_and_update() {
                    Ok(v) => format!("v{}", *v),
                    Err(_) => "err".into(),
                };
                out.push(format!("bau {r} -> {o}"));
                settle().await;
                let o = match tokio::time::timeout(HOUR, rx.changed()).await {
                    Ok(Ok(())) => "ok",
                    Ok(Err(_)) => "closed",
                    Err(_) => "pending",
                };
                out.push(format!("changed {r} -> {o}"));
            }
            Some(RH { kind: Kind::Stream(st), .. }) => {
                for _ in 0..4 {
                    let o = match tokio::time::timeout(HOUR, st.next()).await {
                        Ok(Some(Ok(v))) => format!("v{v}"),
                        Ok(Some(Err(_))) => "err".into(),
                        Ok(None) => "closed".into(),
                        Err(_) => "pending".into(),
                    };
                    let stop = !o.starts_with('v');
                    out.push(format!("next {r} -> {o}"));
                    if stop {
                        break;
                    }
                }
            }
            None => (),
        }
    }
    settle().await;
    out.push("settle".into());
    out.push(q_line(&rcvs));
    // "while the connection holds": every connection must still be able to carry a fresh channel half in both
    // directions; a connection that is wedged at the chmux level (no error, but nothing goes through any more)
    // makes the case void for this property
    for c in 0..conns.len() {
        for dir in [1i32, -1] {
            let (_ptx, prx) = watch::channel::<u32, D>(0);
            let from = if dir > 0 { c } else { c + 1 };
            match ship(&mut conns, from, dir, Xfer::Rx(prx)).await {
                Ok(_) => (),
                Err(e) => {
                    out.push(format!("abort connection-wedged conn={c} dir={dir} {}", e.replace("HANG ", "")));
                    return;
                }
            }
        }
    }
}

fn exec_case(hdr: &Hdr, ops: &[Op]) -> Vec<String> {
    let mut out = vec![format!("case {} conns={} cbuf={} pipe={}", hdr.name, hdr.conns, hdr.cbuf, hdr.pipe)];
    let res = catch_unwind(AssertUnwindSafe(|| {
        let rt = // event_interval(1): after every single task poll the scheduler comes back to the harness future if it is
        // woken, so one `yield` lets exactly one spawned task make one step (fine-grained interleavings)
        tokio::runtime::Builder::new_current_thread().enable_all().start_paused(true).event_interval(1).build().unwrap();
        let mut lines = Vec::new();
        rt.block_on(run_case(hdr, ops, &mut lines));
        drop(rt);
        lines
    }));
    match res {
        Ok(lines) => out.extend(lines),
        Err(e) => {
            let msg = e.downcast_ref::<String>().cloned().or_else(|| e.downcast_ref::<&str>().map(|s| s.to_string()));
            out.push(format!("panic {}", msg.unwrap_or_default().replace('\n', " ")));
        }
    }
    out.push("end".into());
    out
}

// ---------------------------------------------------------------------------------------------
// oversize cases: the receiving endpoint has a smaller item-size limit than the sender.  An update that exceeds it is
// a receive error *for that update*; the channel lives on and the receiver must still converge to the last value.

fn big_val(idx: u32, len: usize) -> Vec<u8> {
    let mut v = idx.to_le_bytes().to_vec();
    v.resize(4 + len, 0xee);
    v
}

async fn run_oversize(r: &mut Rng, out: &mut Vec<String>) {
    let (a_io, b_io) = tokio::io::duplex(4096);
    let (a_rd, a_wr) = tokio::io::split(a_io);
    let (b_rd, b_wr) = tokio::io::split(b_io);
    let mut cfg = remoc::Cfg::default();
    cfg.connection_timeout = None;
    let (a, b) = tokio::join!(
        remoc::Connect::io::<_, _, BigA, BigA, D>(cfg.clone(), a_rd, a_wr),
        remoc::Connect::io::<_, _, BigB, BigB, D>(cfg.clone(), b_rd, b_wr),
    );
    let (a_conn, mut a_tx, _a_rx) = a.expect("connect A");
    let (b_conn, _b_tx, mut b_rx) = b.expect("connect B");
    tokio::spawn(a_conn);
    tokio::spawn(b_conn);
    let (tx, rx) = watch::channel::<Vec<u8>, D>(big_val(0, 0));
    let (s, rr) = tokio::join!(tokio::time::timeout(HOUR, a_tx.send(BigA::Rx(rx))), tokio::time::timeout(HOUR, b_rx.recv()));
    let mut rx = match (s, rr) {
        (Ok(Ok(())), Ok(Ok(Some(BigB::Rx(rx))))) => rx,
        _ => {
            out.push("abort transfer".into());
            return;
        }
    };
    settle().await;
    let n = r.range(2, 6) as u32;
    let big_at = r.range(1, (n - 1) as u64) as u32;
    for k in 1..=n {
        let len = if k == big_at || (k < n && r.chance(1, 4)) { r.range(100, 400) as usize } else { r.below(40) as usize };
        if tx.send(big_val(k, len)).is_err() {
            out.push(format!("ovsendfail {k}"));
            break;
        }
        out.push(format!("ovsent {k} len={}", 4 + len));
        if r.bool() {
            settle().await;
        } else {
            for _ in 0..r.below(6) {
                tokio::task::yield_now().await;
            }
        }
        if r.bool() {
            match tokio::time::timeout(Duration::from_millis(1), rx.changed()).await {
                Ok(Err(_)) => out.push("overr changed-closed".into()),
                _ => {}
            }
        }
    }
    settle().await;
    match tokio::time::timeout(Duration::from_millis(1), rx.changed()).await {
        Ok(Err(_)) => out.push("overr changed-closed".into()),
        _ => {}
    }
    settle().await;
    match rx.borrow() {
        Ok(v) => out.push(format!("ovread {}", u32::from_le_bytes([v[0], v[1], v[2], v[3]]))),
        Err(e) => out.push(format!("ovread err {e}").replace('\n', " ")),
    };
    drop(tx);
}

fn exec_oversize(i: u64, r: &mut Rng) -> Vec<String> {
    let mut out = vec![format!("case ov-{i} conns=1 cbuf=65536 pipe=4096")];
    let res = catch_unwind(AssertUnwindSafe(|| {
        let rt = tokio::runtime::Builder::new_current_thread().enable_all().start_paused(true).build().unwrap();
        let mut lines = Vec::new();
        rt.block_on(run_oversize(r, &mut lines));
        drop(rt);
        lines
    }));
    match res {
        Ok(lines) => out.extend(lines),
        Err(_) => out.push("panic oversize-case".into()),
    }
    out.push("end".into());
    out
}

// ---------------------------------------------------------------------------------------------
// generator

#[derive(Default)]
struct Stats {
    m: std::collections::BTreeMap<String, u64>,
}
impl Stats {
    fn add(&mut self, k: &str, n: u64) {
        *self.m.entry(k.to_string()).or_insert(0) += n;
    }
}

#[derive(Clone, Copy, PartialEq)]
enum GK {
    Plain,
    Stream,
    Dead,
}

fn gen_case(r: &mut Rng, i: u64, thorough: bool, st: &mut Stats) -> (Hdr, Vec<Op>) {
    let conns = (i % 4) as usize; // 0 = purely local, 1..3 connections
    let cbuf = *r.pick(&[64u32, 256, 65536]);
    let pipe = *r.pick(&[16usize, 64, 4096]);
    let hdr = Hdr { name: format!("g{i}"), conns, cbuf, pipe };
    st.add(&format!("cases_conns{conns}"), 1);
    st.add(&format!("cbuf_{cbuf}"), 1);
    st.add(&format!("pipe_{pipe}"), 1);
    // probability (in %) of a single yield after each update: lets forwarders run one step between updates
    let yield_pct = *r.pick(&[0u64, 30, 70]);
    let mut ops = Vec::new();
    // generator-side view: kind and endpoint of every receiver id, endpoint of the sender
    let mut rk: Vec<(GK, usize)> = vec![(GK::Plain, 0)];
    let mut sender: Option<usize> = Some(0);
    let nops = if thorough { r.range(20, 140) } else { r.range(12, 55) };
    // racing density: probability (in %) that a quiescence point is inserted after an op
    let settle_pct = *r.pick(&[5u64, 15, 40]);
    let mut step = 0;
    while step < nops {
        step += 1;
        let plain: Vec<usize> = rk.iter().enumerate().filter(|(_, k)| k.0 == GK::Plain).map(|(i, _)| i).collect();
        let streams: Vec<usize> = rk.iter().enumerate().filter(|(_, k)| k.0 == GK::Stream).map(|(i, _)| i).collect();
        let x = r.below(100);
        if x < 30 {
            if sender.is_some() {
                // update bursts
                let n = if r.chance(1, 3) { r.range(2, 5) } else { 1 };
                for _ in 0..n {
                    ops.push(Op::Send(*r.pick(&[0u8, 0, 0, 1, 2])));
                    if r.chance(yield_pct, 100) {
                        for _ in 0..r.range(1, 8) {
                            ops.push(Op::Yield);
                        }
                    }
                }
                // the interesting races: drop / transfer / clone right after an update
                if r.chance(1, 12) && step * 2 > nops {
                    ops.push(Op::DropSender);
                    sender = None;
                }
            }
        } else if x < 38 && !plain.is_empty() {
            ops.push(Op::Borrow(*r.pick(&plain)));
        } else if x < 46 && !plain.is_empty() {
            ops.push(Op::Bau(*r.pick(&plain)));
        } else if x < 50 && !plain.is_empty() {
            ops.push(Op::HasChanged(*r.pick(&plain)));
        } else if x < 56 && !plain.is_empty() {
            ops.push(Op::Changed(*r.pick(&plain)));
        } else if x < 60 && !plain.is_empty() {
            ops.push(Op::WaitFor(*r.pick(&plain), r.below(3) as u32));
        } else if x < 66 && !streams.is_empty() {
            ops.push(Op::Next(*r.pick(&streams)));
        } else if x < 69 && !plain.is_empty() && rk.len() < 8 {
            let id = *r.pick(&plain);
            ops.push(Op::ToStream(id));
            rk[id].0 = GK::Stream;
        } else if x < 74 && !plain.is_empty() && rk.len() < 8 {
            let id = *r.pick(&plain);
            ops.push(Op::Clone(id));
            rk.push((GK::Plain, rk[id].1));
        } else if x < 77 && sender.is_some() && rk.len() < 8 {
            ops.push(Op::Subscribe);
            rk.push((GK::Plain, sender.unwrap()));
        } else if x < 86 && !plain.is_empty() && conns > 0 {
            let id = *r.pick(&plain);
            let ep = rk[id].1;
            let dir = if ep == 0 {
                1
            } else if ep == conns {
                -1
            } else if r.chance(2, 3) {
                1
            } else {
                -1
            };
            ops.push(Op::Transfer(id, dir));
            rk[id].1 = (ep as i32 + dir) as usize;
        } else if x < 88 && sender.is_some() && conns > 0 {
            let ep = sender.unwrap();
            let dir = if ep == 0 {
                1
            } else if ep == conns {
                -1
            } else if r.bool() {
                1
            } else {
                -1
            };
            ops.push(Op::XferSender(dir));
            sender = Some((ep as i32 + dir) as usize);
        } else if x < 91 {
            let live: Vec<usize> = rk.iter().enumerate().filter(|(_, k)| k.0 != GK::Dead).map(|(i, _)| i).collect();
            if live.len() > 1 || (live.len() == 1 && r.chance(1, 4)) {
                let id = *r.pick(&live);
                ops.push(Op::DropRcv(id));
                rk[id].0 = GK::Dead;
            }
        } else if x < 96 {
            for _ in 0..r.range(1, 5) {
                ops.push(Op::Yield);
            }
        } else {
            ops.push(Op::Settle);
        }
        if r.chance(settle_pct, 100) {
            ops.push(Op::Settle);
        }
    }
    for op in &ops {
        let k = match op {
            Op::Send(v) => ["op_send", "op_send_replace", "op_send_modify"][*v as usize],
            Op::Borrow(_) => "op_borrow",
            Op::Bau(_) => "op_borrow_and_update",
            Op::HasChanged(_) => "op_has_changed",
            Op::Changed(_) => "op_changed",
            Op::WaitFor(..) | Op::WaitForAbs(..) => "op_wait_for",
            Op::Next(_) => "op_stream_next",
            Op::ToStream(_) => "op_to_stream",
            Op::Clone(_) => "op_clone",
            Op::Subscribe => "op_subscribe",
            Op::Transfer(..) => "op_transfer_receiver",
            Op::XferSender(_) => "op_transfer_sender",
            Op::DropRcv(_) => "op_drop_receiver",
            Op::DropSender => "op_drop_sender",
            Op::Yield => "op_yield",
            Op::Settle => "op_settle",
        };
        st.add(k, 1);
    }
    (hdr, ops)
}

// ---------------------------------------------------------------------------------------------
// replay files: the trace format is also the script format (results after `->` are ignored)

fn parse_cases(text: &str) -> Vec<(Hdr, Vec<Op>)> {
    let mut cases = Vec::new();
    let mut cur: Option<(Hdr, Vec<Op>)> = None;
    for line in text.lines() {
        let line = line.trim();
        let line = line.split("->").next().unwrap().trim();
        let w: Vec<&str> = line.split_whitespace().collect();
        if w.is_empty() || w[0].starts_with('#') {
            continue;
        }
        let num = |s: &str| s.parse::<usize>().unwrap_or(0);
        match w[0] {
            "case" if w.len() >= 3 => {
                if let Some(c) = cur.take() {
                    cases.push(c);
                }
                let kv = |i: usize, d: usize| w.get(i).and_then(|s| s.split('=').nth(1)).and_then(|v| v.parse::<usize>().ok()).unwrap_or(d);
                let conns = kv(2, 0).min(3);
                cur = Some((Hdr { name: w[1].to_string(), conns, cbuf: kv(3, 65536).max(4) as u32, pipe: kv(4, 4096).max(8) }, Vec::new()));
            }
            "end" => {
                if let Some(c) = cur.take() {
                    cases.push(c);
                }
            }
            _ => {
                let Some((_, ops)) = cur.as_mut() else { continue };
                match (w[0], w.len()) {
                    ("send", 2) => ops.push(Op::Send(num(w[1]).min(2) as u8)),
                    ("borrow", 2) => ops.push(Op::Borrow(num(w[1]))),
                    ("bau", 2) => ops.push(Op::Bau(num(w[1]))),
                    ("haschanged", 2) => ops.push(Op::HasChanged(num(w[1]))),
                    ("changed", 2) => ops.push(Op::Changed(num(w[1]))),
                    ("waitfor", 3) => ops.push(Op::WaitForAbs(num(w[1]), num(w[2]) as u32)),
                    ("next", 2) => ops.push(Op::Next(num(w[1]))),
                    ("tostream", 2) => ops.push(Op::ToStream(num(w[1]))),
                    ("clone", 2) => ops.push(Op::Clone(num(w[1]))),
                    ("subscribe", 1) => ops.push(Op::Subscribe),
                    ("transfer", 3) => ops.push(Op::Transfer(num(w[1]), w[2].parse().unwrap_or(1))),
                    ("xfersender", 2) => ops.push(Op::XferSender(w[1].parse().unwrap_or(1))),
                    ("droprcv", 2) => ops.push(Op::DropRcv(num(w[1]))),
                    ("dropsender", 1) => ops.push(Op::DropSender),
                    ("yield", 1) => ops.push(Op::Yield),
                    ("settle", 1) => ops.push(Op::Settle),
                    _ => (),
                }
            }
        }
    }
    if let Some(c) = cur.take() {
        cases.push(c);
    }
    cases
}

fn main() {
    let args: Vec<String> = std::env::args().collect();
    std::panic::set_hook(Box::new(|_| {}));
    let out = std::io::stdout();
    let mut out = std::io::BufWriter::new(out.lock());
    let thorough = std::env::var("VERIF_TIER").map(|t| t == "thorough").unwrap_or(false);
    match args.get(1).map(|s| s.as_str()) {
        Some("gen") => {
            let count: u64 = args[2].parse().unwrap();
            let mut rng = Rng::from_env();
            let mut st = Stats::default();
            for i in 0..count {
                let mut r = rng.fork();
                let (hdr, ops) = gen_case(&mut r, i, thorough, &mut st);
                for l in exec_case(&hdr, &ops) {
                    writeln!(out, "{l}").unwrap();
                }
                out.flush().unwrap();
            }
            // the oversize cases (one for every 25 ordinary ones, at least four)
            let nov = (count / 25).max(4);
            for i in 0..nov {
                let mut r = rng.fork();
                for l in exec_oversize(i, &mut r) {
                    writeln!(out, "{l}").unwrap();
                }
                st.add("oversize_cases", 1);
            }
            for (k, v) in &st.m {
                eprintln!("STAT {k} {v}");
            }
        }
        Some("run") => {
            for f in &args[2..] {
                let text = std::fs::read_to_string(f).expect("replay file");
                for (hdr, ops) in parse_cases(&text) {
                    for l in exec_case(&hdr, &ops) {
                        writeln!(out, "{l}").unwrap();
                    }
                }
            }
        }
        _ => {
            eprintln!("usage: watch gen <count> | watch run <file>...");
            std::process::exit(2);
        }
    }
    out.flush().unwrap();
}
