//! Script interpreter for the remote-trait-call properties C12 / C19.
//!
//! A real `#[rtc::remote]` trait family on a register object whose methods have explicit
//! suspension points (harness-controlled gates or `yield_now`) and log started / segment /
//! finished / dropped (a drop guard detects cancellation) is served by every server flavour
//! (`Server`, `ServerRef`, `ServerRefMut`, `ServerShared`, `ServerSharedMut`, spawn on/off) and
//! called through local clients and through clients transported over a real connection
//! (`remoc::Connect::io` over `tokio::io::duplex`).  Calls run as Tokio tasks that the script can
//! abort at chosen points.  Every observable event is appended to one global log in real
//! execution order (single-threaded runtime, paused clock: `settle` returns at quiescence).
//!
//! Script lines (`key=value` tokens):
//!   case <name> trait=<reg|ro|fin> flavour=<value|ref|refmut|shared|sharedmut> spawn=<0|1>
//!        reqbuf=<n> init=<v> policy=<ignore|fail|send|sendgone> clients=<spec>,<spec>…
//!        spec = L (local clone) | R:<max request>:<max reply>:<client-side max request> (own port)
//!   call <c> cl=<i> m=<get|get_nc|add|add_nc|take|extra|extra_mut> nseg=<n> gated=<0|1> by=<n> pad=<n> rpad=<n>
//!   step <c> | abort <c> | yield <n> | settle | kill | dropclient <i> | end
use std::{
    cell::RefCell,
    collections::HashMap,
    future::Future,
    pin::Pin,
    sync::Arc,
    task::{Context, Poll, Waker},
    time::Duration,
};

use remoc::rtc::{CallError, Client as _};
use serde::{Deserialize, Serialize};

// ------------------------------------------------------------------------------------------------
// global log and gates (thread-local: everything runs on one thread)

#[derive(Default)]
struct Shared {
    log: Vec<String>,
    /// call tag -> (open permits, waiting waker)
    gates: HashMap<u32, (u32, Option<Waker>)>,
    execs: u32,
}

thread_local! {
    static SH: RefCell<Shared> = RefCell::new(Shared::default());
}

fn log(line: String) {
    crate::typed::progress();
    SH.with(|s| s.borrow_mut().log.push(line));
}

fn next_exec() -> u32 {
    SH.with(|s| {
        let mut s = s.borrow_mut();
        s.execs += 1;
        s.execs
    })
}

struct GateFut(u32);

impl Future for GateFut {
    type Output = ();
    fn poll(self: Pin<&mut Self>, cx: &mut Context<'_>) -> Poll<()> {
        SH.with(|s| {
            let mut s = s.borrow_mut();
            let e = s.gates.entry(self.0).or_insert((0, None));
            if e.0 > 0 {
                e.0 -= 1;
                Poll::Ready(())
            } else {
                e.1 = Some(cx.waker().clone());
                Poll::Pending
            }
        })
    }
}

fn open_gate(tag: u32) {
    let w = SH.with(|s| {
        let mut s = s.borrow_mut();
        let e = s.gates.entry(tag).or_insert((0, None));
        e.0 += 1;
        e.1.take()
    });
    if let Some(w) = w {
        w.wake();
    }
}

// ------------------------------------------------------------------------------------------------
// the served object

#[derive(Serialize, Deserialize, Debug, Clone, Default)]
pub struct Arg {
    pub tag: u32,
    pub nseg: u8,
    pub gated: bool,
    pub by: u64,
    pub pad: Vec<u8>,
    pub rpad: u32,
}

#[derive(Serialize, Deserialize, Debug, Clone)]
pub struct Rep {
    pub tag: u32,
    pub x: u32,
    pub v1: u64,
    pub v2: u64,
    pub pad: Vec<u8>,
}

pub struct RegObj {
    pub value: u64,
}

struct ExecGuard {
    tag: u32,
    x: u32,
    k: u32,
    done: bool,
}

impl Drop for ExecGuard {
    fn drop(&mut self) {
        if !self.done {
            log(format!("ev drop {} x={} k={}", self.tag, self.x, self.k));
        }
    }
}

async fn suspend(arg: &Arg) {
    if arg.gated {
        GateFut(arg.tag).await
    } else {
        tokio::task::yield_now().await
    }
}

impl RegObj {
    /// `&self` method body: reads the register in every segment; the reply carries the first and
    /// the last value read.
    async fn run_ref(&self, m: &str, arg: Arg) -> Result<Rep, CallError> {
        let x = next_exec();
        let mut g = ExecGuard { tag: arg.tag, x, k: 0, done: false };
        let v1 = self.value;
        let mut v2 = v1;
        log(format!("ev seg {} x={} k=0 m={} v={}", arg.tag, x, m, v1));
        g.k = 1;
        for k in 1..arg.nseg.max(1) as u32 {
            suspend(&arg).await;
            v2 = self.value;
            log(format!("ev seg {} x={} k={} m={} v={}", arg.tag, x, k, m, v2));
            g.k = k + 1;
        }
        g.done = true;
        log(format!("ev fin {} x={} v1={} v2={}", arg.tag, x, v1, v2));
        Ok(Rep { tag: arg.tag, x, v1, v2, pad: vec![7; arg.rpad as usize] })
    }

    /// `&mut self` / `self` method body: every segment adds `by`; the reply carries the value
    /// before the first and after the last segment.
    async fn run_mut(&mut self, m: &str, arg: Arg) -> Result<Rep, CallError> {
        let x = next_exec();
        let mut g = ExecGuard { tag: arg.tag, x, k: 0, done: false };
        let v1 = self.value;
        self.value = self.value.wrapping_add(arg.by);
        log(format!("ev seg {} x={} k=0 m={} v={}", arg.tag, x, m, self.value));
        g.k = 1;
        for k in 1..arg.nseg.max(1) as u32 {
            suspend(&arg).await;
            self.value = self.value.wrapping_add(arg.by);
            log(format!("ev seg {} x={} k={} m={} v={}", arg.tag, x, k, m, self.value));
            g.k = k + 1;
        }
        g.done = true;
        let v2 = self.value;
        log(format!("ev fin {} x={} v1={} v2={}", arg.tag, x, v1, v2));
        Ok(Rep { tag: arg.tag, x, v1, v2, pad: vec![7; arg.rpad as usize] })
    }
}

// --- trait family `Reg`: by-ref and by-mut methods, clonable client ------------------------------
#[remoc::rtc::remote(clone)]
pub trait Reg: Send + Sync {
    async fn get(&self, arg: Arg) -> Result<Rep, CallError>;
    #[no_cancel]
    async fn get_nc(&self, arg: Arg) -> Result<Rep, CallError>;
    async fn add(&mut self, arg: Arg) -> Result<Rep, CallError>;
    #[no_cancel]
    async fn add_nc(&mut self, arg: Arg) -> Result<Rep, CallError>;
    // Provided methods (default bodies).  The generated client must forward them like every other method, as ONE
    // request executed by the callee (which overrides them); a default body executed on the calling side would be
    // two separate calls (two executions for one call, not atomic for `&mut self`).
    async fn get_d(&self, arg: Arg) -> Result<Rep, CallError> {
        let _ = self.get(arg.clone()).await?;
        self.get(arg).await
    }
    async fn add_d(&mut self, arg: Arg) -> Result<Rep, CallError> {
        let _ = self.add(arg.clone()).await?;
        self.add(arg).await
    }
}

/// A later version of `Reg` with two methods the server does not know.
#[remoc::rtc::remote(clone)]
pub trait RegV2 {
    async fn get(&self, arg: Arg) -> Result<Rep, CallError>;
    #[no_cancel]
    async fn get_nc(&self, arg: Arg) -> Result<Rep, CallError>;
    async fn add(&mut self, arg: Arg) -> Result<Rep, CallError>;
    #[no_cancel]
    async fn add_nc(&mut self, arg: Arg) -> Result<Rep, CallError>;
    async fn extra(&self, arg: Arg) -> Result<Rep, CallError>;
    async fn extra_mut(&mut self, arg: Arg) -> Result<Rep, CallError>;
}

impl Reg for RegObj {
    async fn get(&self, arg: Arg) -> Result<Rep, CallError> {
        self.run_ref("get", arg).await
    }
    async fn get_nc(&self, arg: Arg) -> Result<Rep, CallError> {
        self.run_ref("get_nc", arg).await
    }
    async fn add(&mut self, arg: Arg) -> Result<Rep, CallError> {
        self.run_mut("add", arg).await
    }
    async fn add_nc(&mut self, arg: Arg) -> Result<Rep, CallError> {
        self.run_mut("add_nc", arg).await
    }
    async fn get_d(&self, arg: Arg) -> Result<Rep, CallError> {
        self.run_ref("get_d", arg).await
    }
    async fn add_d(&mut self, arg: Arg) -> Result<Rep, CallError> {
        self.run_mut("add_d", arg).await
    }
}

// --- trait family `Ro`: by-ref methods only (ServerRef, ServerShared exist only for such traits) --
#[remoc::rtc::remote]
pub trait Ro {
    async fn get(&self, arg: Arg) -> Result<Rep, CallError>;
    #[no_cancel]
    async fn get_nc(&self, arg: Arg) -> Result<Rep, CallError>;
}

#[remoc::rtc::remote]
pub trait RoV2 {
    async fn get(&self, arg: Arg) -> Result<Rep, CallError>;
    #[no_cancel]
    async fn get_nc(&self, arg: Arg) -> Result<Rep, CallError>;
    async fn extra(&self, arg: Arg) -> Result<Rep, CallError>;
}

impl Ro for RegObj {
    async fn get(&self, arg: Arg) -> Result<Rep, CallError> {
        self.run_ref("get", arg).await
    }
    async fn get_nc(&self, arg: Arg) -> Result<Rep, CallError> {
        self.run_ref("get_nc", arg).await
    }
}

// --- trait family `Fin`: by-ref, by-mut and by-value methods (only `Server` exists) ---------------
#[remoc::rtc::remote]
pub trait Fin {
    async fn get(&self, arg: Arg) -> Result<Rep, CallError>;
    async fn add(&mut self, arg: Arg) -> Result<Rep, CallError>;
    async fn take(self, arg: Arg) -> Result<Rep, CallError>;
}

impl Fin for RegObj {
    async fn get(&self, arg: Arg) -> Result<Rep, CallError> {
        self.run_ref("get", arg).await
    }
    async fn add(&mut self, arg: Arg) -> Result<Rep, CallError> {
        self.run_mut("add", arg).await
    }
    async fn take(mut self, arg: Arg) -> Result<Rep, CallError> {
        self.run_mut("take", arg).await
    }
}

// ------------------------------------------------------------------------------------------------
// clients

#[derive(Serialize, Deserialize)]
pub enum XferA {
    Reg(RegClient),
    Ro(RoClient),
    Fin(FinClient),
}

/// What the calling endpoint believes it receives: the later trait versions.
#[derive(Serialize, Deserialize)]
pub enum XferB {
    Reg(RegV2Client),
    Ro(RoV2Client),
    Fin(FinClient),
}

#[derive(Clone)]
enum AnyClient {
    Reg(RegClient),
    RegV2(RegV2Client),
    Ro(RoClient),
    RoV2(RoV2Client),
    /// not clonable: `&self` calls share it, `&mut self` calls take it exclusively, `self` consumes it
    Fin(Arc<tokio::sync::RwLock<Option<FinClient>>>),
}

fn class(e: &CallError) -> String {
    match e {
        CallError::Dropped => "dropped".into(),
        CallError::RemoteSend(k) => {
            let s = format!("{k:?}");
            if s.contains("MaxItemSizeExceeded") { "send-maxsize".into() } else { "send-other".into() }
        }
        CallError::RemoteReceive(k) => {
            let s = format!("{k:?}");
            if s.contains("MaxItemSizeExceeded") { "recv-maxsize".into() } else { "recv-other".into() }
        }
        CallError::RemoteConnect(_) => "connect".into(),
        CallError::RemoteListen(_) => "listen".into(),
        CallError::RemoteForward => "forward".into(),
    }
}

impl AnyClient {
    fn supports(&self, m: &str) -> bool {
        match self {
            AnyClient::Reg(_) => matches!(m, "get" | "get_nc" | "add" | "add_nc" | "get_d" | "add_d"),
            AnyClient::RegV2(_) => matches!(m, "get" | "get_nc" | "add" | "add_nc" | "extra" | "extra_mut"),
            AnyClient::Ro(_) => matches!(m, "get" | "get_nc"),
            AnyClient::RoV2(_) => matches!(m, "get" | "get_nc" | "extra"),
            AnyClient::Fin(_) => matches!(m, "get" | "add" | "take"),
        }
    }

    /// `ev inv` is logged when the remoc call actually starts (for the non-clonable `Fin` client:
    /// once this call has the handle)
    async fn call(self, m: String, arg: Arg) -> Result<Rep, String> {
        let unsupported = || Err::<Rep, String>("unsupported".into());
        let tag = arg.tag;
        let inv = move || log(format!("ev inv {tag}"));
        if !matches!(self, AnyClient::Fin(_)) {
            inv();
        }
        let r = match self {
            AnyClient::Reg(mut c) => match m.as_str() {
                "get" => c.get(arg).await,
                "get_nc" => c.get_nc(arg).await,
                "add" => c.add(arg).await,
                "add_nc" => c.add_nc(arg).await,
                "get_d" => c.get_d(arg).await,
                "add_d" => c.add_d(arg).await,
                _ => return unsupported(),
            },
            AnyClient::RegV2(mut c) => match m.as_str() {
                "get" => c.get(arg).await,
                "get_nc" => c.get_nc(arg).await,
                "add" => c.add(arg).await,
                "add_nc" => c.add_nc(arg).await,
                "extra" => c.extra(arg).await,
                "extra_mut" => c.extra_mut(arg).await,
                _ => return unsupported(),
            },
            AnyClient::Ro(c) => match m.as_str() {
                "get" => c.get(arg).await,
                "get_nc" => c.get_nc(arg).await,
                _ => return unsupported(),
            },
            AnyClient::RoV2(c) => match m.as_str() {
                "get" => c.get(arg).await,
                "get_nc" => c.get_nc(arg).await,
                "extra" => c.extra(arg).await,
                _ => return unsupported(),
            },
            AnyClient::Fin(c) => match m.as_str() {
                "get" => {
                    let g = c.read_owned().await;
                    match g.as_ref() {
                        Some(c) => {
                            inv();
                            c.get(arg).await
                        }
                        None => return Err("consumed".into()),
                    }
                }
                "add" => {
                    let mut g = c.write_owned().await;
                    match g.as_mut() {
                        Some(c) => {
                            inv();
                            c.add(arg).await
                        }
                        None => return Err("consumed".into()),
                    }
                }
                "take" => {
                    let mut g = c.write_owned().await;
                    match g.take() {
                        Some(c) => {
                            inv();
                            c.take(arg).await
                        }
                        None => return Err("consumed".into()),
                    }
                }
                _ => return unsupported(),
            },
        };
        r.map_err(|e| class(&e))
    }
}

// ------------------------------------------------------------------------------------------------
// the interpreter

fn kv<'a>(toks: &'a [&'a str], key: &str) -> Option<&'a str> {
    toks.iter().find_map(|t| t.strip_prefix(key).and_then(|r| r.strip_prefix('=')))
}

fn kvn(toks: &[&str], key: &str, default: u64) -> u64 {
    kv(toks, key).and_then(|v| v.parse().ok()).unwrap_or(default)
}

type ServeFut<'a> = Pin<Box<dyn Future<Output = String> + 'a>>;

fn serve_class(r: Result<(), remoc::rtc::ServeError>) -> String {
    match r {
        Ok(()) => "ok".into(),
        Err(remoc::rtc::ServeError::ReplySend(k)) => {
            let s = format!("{k:?}");
            if s.contains("MaxItemSizeExceeded") { "err:reply-maxsize".into() } else { format!("err:reply-other") }
        }
        Err(remoc::rtc::ServeError::ReqReceive(e)) => {
            let s = format!("{e:?}");
            if s.contains("MaxItemSizeExceeded") {
                "err:req-maxsize".into()
            } else if s.contains("Deserialize") {
                "err:req-deserialize".into()
            } else {
                "err:req-other".into()
            }
        }
    }
}

struct Conn {
    tasks: Vec<tokio::task::JoinHandle<()>>,
    a_tx: remoc::rch::base::Sender<XferA>,
    b_rx: remoc::rch::base::Receiver<XferB>,
}

async fn connect() -> Conn {
    let (a_io, b_io) = tokio::io::duplex(1 << 16);
    let (a_r, a_w) = tokio::io::split(a_io);
    let (b_r, b_w) = tokio::io::split(b_io);
    let mut cfg = remoc::Cfg::default();
    cfg.connection_timeout = None;
    let a = remoc::Connect::io::<_, _, XferA, (), remoc::codec::Default>(cfg.clone(), a_r, a_w);
    let b = remoc::Connect::io::<_, _, (), XferB, remoc::codec::Default>(cfg, b_r, b_w);
    let (a, b) = tokio::join!(a, b);
    let (conn_a, a_tx, _a_rx) = a.expect("connect A");
    let (conn_b, _b_tx, b_rx) = b.expect("connect B");
    let t1 = tokio::spawn(async move {
        let _ = conn_a.await;
    });
    let t2 = tokio::spawn(async move {
        let _ = conn_b.await;
    });
    Conn { tasks: vec![t1, t2], a_tx, b_rx }
}

/// A call future that the script can stop polling for a while (`park`) without dropping it: the caller keeps
/// its call alive but does not take the reply out of its channel.  Other calls must not depend on it.
#[derive(Default)]
struct ParkState {
    parked: bool,
    waker: Option<Waker>,
}

struct Parkable<F> {
    inner: Pin<Box<F>>,
    st: Arc<std::sync::Mutex<ParkState>>,
}

impl<F: Future> Future for Parkable<F> {
    type Output = F::Output;
    fn poll(mut self: Pin<&mut Self>, cx: &mut Context<'_>) -> Poll<F::Output> {
        {
            let mut st = self.st.lock().unwrap();
            if st.parked {
                st.waker = Some(cx.waker().clone());
                return Poll::Pending;
            }
        }
        self.inner.as_mut().poll(cx)
    }
}

async fn settle_only() {
    tokio::time::sleep(Duration::from_nanos(1)).await;
}

struct Run<'a> {
    serve: Option<ServeFut<'a>>,
    serve_res: Option<String>,
    lock: Option<Arc<tokio::sync::RwLock<RegObj>>>,
    clients: Vec<Option<AnyClient>>,
    calls: HashMap<u32, tokio::task::JoinHandle<()>>,
    parks: HashMap<u32, Arc<std::sync::Mutex<ParkState>>>,
    conn: Option<Conn>,
    /// a settle did not reach quiescence: the rest of the script is skipped
    livelocked: bool,
}

impl<'a> Run<'a> {
    /// Let everything run until the whole process is idle (paused clock: the 1 ns sleep fires
    /// exactly then), polling the serve future from this task.
    async fn settle(&mut self) {
        // a process that never becomes idle (e.g. a serve loop spinning on the same receive error) would keep the
        // paused clock from advancing for ever: give up after 20 s of real time and report it
        let started = std::time::Instant::now();
        loop {
            let sleep = tokio::time::sleep(Duration::from_nanos(1));
            tokio::pin!(sleep);
            let done = std::future::poll_fn(|cx| {
                if self.livelocked || started.elapsed() > Duration::from_secs(10) {
                    if !self.livelocked {
                        log("ev livelock".to_string());
                    }
                    self.livelocked = true;
                    return Poll::Ready(true);
                }
                if let Some(f) = self.serve.as_mut() {
                    if let Poll::Ready(r) = f.as_mut().poll(cx) {
                        self.serve_res = Some(r);
                        self.serve = None;
                        log(format!("ev served {}", self.serve_res.as_ref().unwrap()));
                    }
                }
                match sleep.as_mut().poll(cx) {
                    Poll::Ready(()) => Poll::Ready(true),
                    Poll::Pending => Poll::Pending,
                }
            })
            .await;
            if done {
                break;
            }
        }
        let lock = match &self.lock {
            None => "na".to_string(),
            Some(l) => match l.try_write() {
                Ok(g) => format!("free:{}", g.value),
                Err(_) => match l.try_read() {
                    Ok(g) => format!("read:{}", g.value),
                    Err(_) => "write".to_string(),
                },
            },
        };
        let serve = match &self.serve_res {
            None => "running target=na".to_string(),
            Some(r) => r.clone(),
        };
        let pending: Vec<String> = {
            let mut p: Vec<u32> = self.calls.iter().filter(|(_, h)| !h.is_finished()).map(|(c, _)| *c).collect();
            p.sort();
            p.iter().map(|c| c.to_string()).collect()
        };
        log(format!(
            "settled serve={} lock={} pending={}",
            serve,
            lock,
            if pending.is_empty() { "-".to_string() } else { pending.join(",") }
        ));
    }

    /// a bounded amount of progress: the main task yields `n` times while polling serve
    async fn yields(&mut self, n: u64) {
        for _ in 0..n {
            let mut yielded = false;
            std::future::poll_fn(|cx| {
                if let Some(f) = self.serve.as_mut() {
                    if let Poll::Ready(r) = f.as_mut().poll(cx) {
                        self.serve_res = Some(r);
                        self.serve = None;
                        log(format!("ev served {}", self.serve_res.as_ref().unwrap()));
                    }
                }
                if yielded {
                    Poll::Ready(())
                } else {
                    yielded = true;
                    cx.waker().wake_by_ref();
                    Poll::Pending
                }
            })
            .await;
        }
    }
}

macro_rules! serve_fut {
    ($server:expr, $policy:expr) => {{
        let mut server = $server;
        if $policy == "fail" {
            remoc::rtc::ServerBase::set_on_req_receive_error(&mut server, remoc::rtc::OnReqReceiveError::Fail);
        }
        if $policy == "send" || $policy == "sendgone" {
            // receive errors are sent to a local listener; with or without a listener the server keeps serving
            let (tx, rx) = tokio::sync::mpsc::channel(4096);
            remoc::rtc::ServerBase::set_on_req_receive_error(&mut server, remoc::rtc::OnReqReceiveError::Send(tx));
            if $policy == "send" {
                Box::leak(Box::new(rx));
            } else {
                drop(rx);
            }
        }
        server
    }};
}

/// Run one script; returns the trace lines.
pub async fn run_case(script: &[String]) -> Vec<String> {
    SH.with(|s| *s.borrow_mut() = Shared::default());
    let head: Vec<&str> = script[0].split_whitespace().collect();
    assert_eq!(head[0], "case");
    log(script[0].clone());
    let tr = kv(&head, "trait").unwrap_or("reg").to_string();
    let flavour = kv(&head, "flavour").unwrap_or("refmut").to_string();
    let spawn = kvn(&head, "spawn", 0) == 1;
    let reqbuf = kvn(&head, "reqbuf", 1) as usize;
    let init = kvn(&head, "init", 0);
    let policy = kv(&head, "policy").unwrap_or("ignore").to_string();
    let specs: Vec<String> = kv(&head, "clients").unwrap_or("L").split(',').map(|s| s.to_string()).collect();

    // the target object in the shape the flavour needs
    let mut obj_slot = RegObj { value: init };
    let shared_mut = Arc::new(tokio::sync::RwLock::new(RegObj { value: init }));
    let shared = Arc::new(RegObj { value: init });

    use remoc::rtc::{Server, ServerRef, ServerRefMut, ServerShared, ServerSharedMut};
    let mut lock = None;
    // first client of the right type + serve future
    let (serve, first): (ServeFut<'_>, XferA) = match (tr.as_str(), flavour.as_str()) {
        ("reg", "value") => {
            let (s, c) = RegServer::<_, remoc::codec::Default>::new(RegObj { value: init }, reqbuf);
            let s = serve_fut!(s, policy);
            (
                Box::pin(async move {
                    let (t, r) = s.serve().await;
                    format!("{} target={}", serve_class(r), t.map(|t| t.value.to_string()).unwrap_or("none".into()))
                }),
                XferA::Reg(c),
            )
        }
        ("reg", "refmut") => {
            let (s, c) = RegServerRefMut::<_, remoc::codec::Default>::new(&mut obj_slot, reqbuf);
            let s = serve_fut!(s, policy);
            (Box::pin(async move { format!("{} target=na", serve_class(s.serve().await)) }), XferA::Reg(c))
        }
        ("reg", "sharedmut") => {
            lock = Some(shared_mut.clone());
            let (s, c) = RegServerSharedMut::<_, remoc::codec::Default>::new(shared_mut.clone(), reqbuf);
            let s = serve_fut!(s, policy);
            (Box::pin(async move { format!("{} target=na", serve_class(s.serve(spawn).await)) }), XferA::Reg(c))
        }
        ("ro", "value") => {
            let (s, c) = RoServer::<_, remoc::codec::Default>::new(RegObj { value: init }, reqbuf);
            let s = serve_fut!(s, policy);
            (
                Box::pin(async move {
                    let (t, r) = s.serve().await;
                    format!("{} target={}", serve_class(r), t.map(|t| t.value.to_string()).unwrap_or("none".into()))
                }),
                XferA::Ro(c),
            )
        }
        ("ro", "ref") => {
            let (s, c) = RoServerRef::<_, remoc::codec::Default>::new(&obj_slot, reqbuf);
            let s = serve_fut!(s, policy);
            (Box::pin(async move { format!("{} target=na", serve_class(s.serve().await)) }), XferA::Ro(c))
        }
        ("ro", "refmut") => {
            let (s, c) = RoServerRefMut::<_, remoc::codec::Default>::new(&mut obj_slot, reqbuf);
            let s = serve_fut!(s, policy);
            (Box::pin(async move { format!("{} target=na", serve_class(s.serve().await)) }), XferA::Ro(c))
        }
        ("ro", "shared") => {
            let (s, c) = RoServerShared::<_, remoc::codec::Default>::new(shared.clone(), reqbuf);
            let s = serve_fut!(s, policy);
            (Box::pin(async move { format!("{} target=na", serve_class(s.serve(spawn).await)) }), XferA::Ro(c))
        }
        ("ro", "sharedmut") => {
            lock = Some(shared_mut.clone());
            let (s, c) = RoServerSharedMut::<_, remoc::codec::Default>::new(shared_mut.clone(), reqbuf);
            let s = serve_fut!(s, policy);
            (Box::pin(async move { format!("{} target=na", serve_class(s.serve(spawn).await)) }), XferA::Ro(c))
        }
        ("fin", "value") => {
            let (s, c) = FinServer::<_, remoc::codec::Default>::new(RegObj { value: init }, reqbuf);
            let s = serve_fut!(s, policy);
            (
                Box::pin(async move {
                    let (t, r) = s.serve().await;
                    format!("{} target={}", serve_class(r), t.map(|t| t.value.to_string()).unwrap_or("none".into()))
                }),
                XferA::Fin(c),
            )
        }
        other => panic!("unsupported trait/flavour combination {other:?}"),
    };

    let mut run = Run { serve: Some(serve), serve_res: None, lock, clients: Vec::new(), calls: HashMap::new(), parks: HashMap::new(), conn: None, livelocked: false };

    // distribute clients: every spec gets its own clone (Fin: exactly one client)
    let mut first = Some(first);
    let n = specs.len();
    for (i, spec) in specs.iter().enumerate() {
        let last = i + 1 == n;
        let mine: XferA = match first.as_ref().unwrap() {
            XferA::Reg(c) => XferA::Reg(c.clone()),
            XferA::Ro(c) => XferA::Ro(c.clone()),
            XferA::Fin(_) => {
                assert!(n == 1, "a Fin client cannot be cloned");
                first.take().unwrap()
            }
        };
        if last {
            first = None; // the original is dropped: only the distributed clones keep the server alive
        }
        let parts: Vec<&str> = spec.split(':').collect();
        if parts[0] == "L" {
            run.clients.push(Some(match mine {
                XferA::Reg(c) => AnyClient::Reg(c),
                XferA::Ro(c) => AnyClient::Ro(c),
                XferA::Fin(c) => AnyClient::Fin(Arc::new(tokio::sync::RwLock::new(Some(c)))),
            }));
        } else {
            let maxreq: usize = parts.get(1).and_then(|v| v.parse().ok()).unwrap_or(0);
            let maxreply: usize = parts.get(2).and_then(|v| v.parse().ok()).unwrap_or(0);
            let climaxreq: usize = parts.get(3).and_then(|v| v.parse().ok()).unwrap_or(0);
            if run.conn.is_none() {
                run.conn = Some(connect().await);
            }
            let mine = match mine {
                XferA::Reg(mut c) => {
                    if maxreq > 0 {
                        c.set_max_request_size(maxreq);
                    }
                    XferA::Reg(c)
                }
                XferA::Ro(mut c) => {
                    if maxreq > 0 {
                        c.set_max_request_size(maxreq);
                    }
                    XferA::Ro(c)
                }
                XferA::Fin(mut c) => {
                    if maxreq > 0 {
                        c.set_max_request_size(maxreq);
                    }
                    XferA::Fin(c)
                }
            };
            let conn = run.conn.as_mut().unwrap();
            if conn.a_tx.send(mine).await.is_err() { panic!("send client"); }
            let got = conn.b_rx.recv().await.expect("recv client").expect("client");
            macro_rules! tune {
                ($c:ident) => {{
                    if maxreply > 0 {
                        $c.set_max_reply_size(maxreply);
                    }
                    if climaxreq > 0 {
                        $c.set_max_request_size(climaxreq);
                    }
                }};
            }
            run.clients.push(Some(match got {
                XferB::Reg(mut c) => {
                    tune!(c);
                    AnyClient::RegV2(c)
                }
                XferB::Ro(mut c) => {
                    tune!(c);
                    AnyClient::RoV2(c)
                }
                XferB::Fin(mut c) => {
                    tune!(c);
                    AnyClient::Fin(Arc::new(tokio::sync::RwLock::new(Some(c))))
                }
            }));
        }
    }
    drop(first);
    run.settle().await;

    for line in &script[1..] {
        let toks: Vec<&str> = line.split_whitespace().collect();
        if toks.is_empty() || toks[0].starts_with('#') {
            continue;
        }
        if run.livelocked && toks[0] != "end" {
            continue;
        }
        log(format!("op {line}"));
        match toks[0] {
            "call" => {
                let c: u32 = toks[1].parse().unwrap();
                let cl = kvn(&toks, "cl", 0) as usize;
                let m = kv(&toks, "m").unwrap_or("get").to_string();
                let arg = Arg {
                    tag: c,
                    nseg: kvn(&toks, "nseg", 1) as u8,
                    gated: kvn(&toks, "gated", 1) == 1,
                    by: kvn(&toks, "by", 0),
                    pad: vec![5; kvn(&toks, "pad", 0) as usize],
                    rpad: kvn(&toks, "rpad", 0) as u32,
                };
                let client = run.clients.get(cl).and_then(|c| c.clone()).filter(|c| c.supports(&m));
                if m == "take" {
                    // a by-value call consumes the client handle
                    if let Some(slot) = run.clients.get_mut(cl) {
                        *slot = None;
                    }
                }
                match client {
                    Some(client) => {
                        let pst = Arc::new(std::sync::Mutex::new(ParkState::default()));
                        run.parks.insert(c, pst.clone());
                        let h = tokio::spawn(async move {
                            let r = Parkable { inner: Box::pin(client.call(m, arg)), st: pst }.await;
                            match r {
                                Ok(rep) => log(format!(
                                    "ev ret {c} ok tag={} x={} v1={} v2={} pad={}",
                                    rep.tag,
                                    rep.x,
                                    rep.v1,
                                    rep.v2,
                                    rep.pad.len()
                                )),
                                Err(e) => log(format!("ev ret {c} err {e}")),
                            }
                        });
                        run.calls.insert(c, h);
                    }
                    None => log(format!("ev noclient {c}")),
                }
            }
            "step" => {
                let c: u32 = toks[1].parse().unwrap();
                open_gate(c);
            }
            "park" | "unpark" => {
                let c: u32 = toks[1].parse().unwrap();
                let finished = run.calls.get(&c).map(|h| h.is_finished()).unwrap_or(true);
                if let Some(p) = run.parks.get(&c) {
                    let mut st = p.lock().unwrap();
                    if toks[0] == "park" {
                        if !finished && !st.parked {
                            st.parked = true;
                            log(format!("ev park {c}"));
                        }
                    } else if st.parked {
                        st.parked = false;
                        if let Some(w) = st.waker.take() {
                            w.wake();
                        }
                        log(format!("ev unpark {c}"));
                    }
                }
            }
            "abort" => {
                let c: u32 = toks[1].parse().unwrap();
                if let Some(h) = run.calls.get(&c) {
                    if !h.is_finished() {
                        h.abort();
                        log(format!("ev abandon {c}"));
                    } else {
                        log(format!("ev abandon-late {c}"));
                    }
                }
            }
            "yield" => {
                let n: u64 = toks[1].parse().unwrap();
                run.yields(n).await;
            }
            "settle" => run.settle().await,
            "kill" => {
                if let Some(conn) = run.conn.take() {
                    for t in &conn.tasks {
                        t.abort();
                    }
                    drop(conn);
                }
            }
            "dropclient" => {
                let i: usize = toks[1].parse().unwrap();
                if let Some(c) = run.clients.get_mut(i) {
                    *c = None;
                }
            }
            "end" => {
                let mut parked: Vec<u32> = run.parks.keys().copied().collect();
                parked.sort();
                for c in parked {
                    let p = &run.parks[&c];
                    let mut st = p.lock().unwrap();
                    if st.parked {
                        st.parked = false;
                        if let Some(w) = st.waker.take() {
                            w.wake();
                        }
                        log(format!("ev unpark {c}"));
                    }
                }
                for c in run.clients.iter_mut() {
                    *c = None;
                }
                run.settle().await;
                // hang detection: whatever is still pending now can never complete
                let hung: Vec<u32> = run.calls.iter().filter(|(_, h)| !h.is_finished()).map(|(c, _)| *c).collect();
                for c in hung {
                    log(format!("ev hang {c}"));
                }
            }
            other => panic!("unknown op {other}"),
        }
    }
    log("cleanup".to_string());
    for (_, h) in run.calls.drain() {
        h.abort();
    }
    if let Some(conn) = run.conn.take() {
        for t in &conn.tasks {
            t.abort();
        }
    }
    drop(run);
    settle_only().await;
    log("endcase".to_string());
    SH.with(|s| std::mem::take(&mut s.borrow_mut().log))
}

pub fn run_script(script: &[String]) -> Vec<String> {
    let rt = tokio::runtime::Builder::new_current_thread().enable_time().start_paused(true).build().unwrap();
    let script = script.to_vec();
    let res = std::panic::catch_unwind(std::panic::AssertUnwindSafe(|| rt.block_on(run_case(&script))));
    match res {
        Ok(lines) => lines,
        Err(e) => {
            let msg = e.downcast_ref::<String>().cloned().or_else(|| e.downcast_ref::<&str>().map(|s| s.to_string())).unwrap_or_default();
            let mut lines = SH.with(|s| std::mem::take(&mut s.borrow_mut().log));
            lines.push(format!("panic {}", msg.replace('\n', " ")));
            lines.push("endcase".to_string());
            lines
        }
    }
}
