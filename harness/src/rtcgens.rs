//! Script generators for the rtc harness (C12, C19).  Every random choice comes from the `Rng`
//! handed in (forked from the single VERIF_SEED stream).
//!
//! * `rtc-exact`: one stimulus, then settle — hand-driven gates, calls dropped at controlled
//!   points (before queueing, queued, waiting for the lock, executing, with the reply in flight),
//!   every server flavour and spawn mode, 1–4 clients (local clones and clients transported over
//!   a real connection), non-cancellable methods, over-size requests / replies, unknown methods,
//!   connection loss, `OnReqReceiveError::Fail`.
//! * `rtc-free`: bursts of concurrent calls without settling in between, methods suspending with
//!   `yield_now`, aborts after a few scheduler turns.
use crate::prng::Rng;
use std::collections::BTreeMap;

pub fn generate(kind: &str, r: &mut Rng, i: u64, stats: &mut BTreeMap<String, u64>) -> Vec<String> {
    match kind {
        "rtc-exact" => gen_script(r, i, true, stats),
        "rtc-free" => gen_script(r, i, false, stats),
        _ => panic!("unknown generator {kind}"),
    }
}

fn bump(stats: &mut BTreeMap<String, u64>, k: &str) {
    *stats.entry(k.to_string()).or_insert(0) += 1;
}

struct GCall {
    tag: u32,
    gates_left: u32,
    aborted: bool,
}

fn gen_script(r: &mut Rng, i: u64, exact: bool, stats: &mut BTreeMap<String, u64>) -> Vec<String> {
    // trait family / flavour / spawn
    let combos: &[(&str, &str, bool)] = &[
        ("reg", "refmut", false),
        ("reg", "refmut", false),
        ("reg", "value", false),
        ("reg", "sharedmut", false),
        ("reg", "sharedmut", true),
        ("reg", "sharedmut", true),
        ("reg", "sharedmut", true),
        ("ro", "ref", false),
        ("ro", "shared", false),
        ("ro", "shared", true),
        ("ro", "shared", true),
        ("ro", "sharedmut", true),
        ("ro", "value", false),
        ("ro", "refmut", false),
        ("fin", "value", false),
        ("fin", "value", false),
    ];
    let (tr, flavour, spawn) = *r.pick(combos);
    bump(stats, &format!("flavour_{tr}_{flavour}_{}", if spawn { "spawn" } else { "inline" }));
    bump(stats, if exact { "mode_exact" } else { "mode_free" });
    let nclients = if tr == "fin" { 1 } else { r.range(2, 4) };
    let mut specs = Vec::new();
    let mut remote = Vec::new();
    let mut maxreq = Vec::new();
    let mut maxreply = Vec::new();
    for _ in 0..nclients {
        if r.chance(1, 2) {
            let mq = if r.chance(1, 2) { r.range(300, 600) } else { 0 };
            let mr = if r.chance(1, 2) { r.range(200, 500) } else { 0 };
            specs.push(format!("R:{mq}:{mr}:0"));
            remote.push(true);
            maxreq.push(mq);
            maxreply.push(mr);
        } else {
            specs.push("L".to_string());
            remote.push(false);
            maxreq.push(0);
            maxreply.push(0);
        }
    }
    bump(stats, &format!("clients_{nclients}"));
    // back-pressure (requests waiting for queue capacity) only where the arrival order is the issue
    // order: all clients local; otherwise the buffer never fills
    let reqbuf = if exact && remote.iter().all(|x| !*x) { *r.pick(&[1u64, 1, 2, 4]) } else { 16 };
    bump(stats, &format!("reqbuf_{reqbuf}"));
    // with `Fail` the order in which an undecodable request and its neighbours arrive matters:
    // only where it is determined (one stimulus per quiescent point)
    // `send` / `sendgone`: OnReqReceiveError::Send with a live / a dropped listener (the server keeps serving, as with `ignore`)
    let policy = if exact && r.chance(1, 10) { "fail" } else { *r.pick(&["ignore", "ignore", "ignore", "send", "sendgone"]) };
    let init = r.range(0, 50);
    let mut out = vec![format!(
        "case {}-{} trait={tr} flavour={flavour} spawn={} reqbuf={reqbuf} init={init} policy={policy} clients={} exact={}",
        if exact { "x" } else { "f" },
        i,
        spawn as u8,
        specs.join(","),
        exact as u8
    )];
    let methods: &[&str] = match tr {
        "reg" => &["get", "get", "get_nc", "add", "add", "add", "add_nc", "get_d", "add_d"],
        "ro" => &["get", "get", "get", "get_nc"],
        _ => &["get", "get", "add", "add"],
    };
    let nops = if exact { r.range(6, 30) } else { r.range(8, 36) };
    let max_calls = 14;
    let mut calls: Vec<GCall> = Vec::new();
    let mut next_tag = 1u32;
    let mut killed = false;
    let mut taken = false;
    let mut parked: Vec<u32> = Vec::new();
    let settle = |out: &mut Vec<String>, r: &mut Rng| {
        if exact {
            out.push("settle".into());
        } else {
            match r.below(6) {
                0 => out.push("settle".into()),
                1 | 2 => out.push(format!("yield {}", r.range(1, 6))),
                3 => out.push(format!("yield {}", r.range(6, 40))),
                _ => {}
            }
        }
    };
    for _ in 0..nops {
        let open: Vec<usize> = (0..calls.len()).filter(|&k| calls[k].gates_left > 0).collect();
        let abortable: Vec<usize> = (0..calls.len()).filter(|&k| !calls[k].aborted).collect();
        let choice = r.below(100);
        if choice < 45 && (calls.len() as u64) < max_calls && !taken || calls.is_empty() {
            let cl = r.below(nclients) as usize;
            let mut m = r.pick(methods).to_string();
            if tr == "fin" && r.chance(1, 6) && calls.len() >= 2 {
                m = "take".into();
                taken = true;
            }
            if remote[cl] && tr != "fin" && r.chance(1, 10) {
                m = if tr == "reg" && r.bool() { "extra_mut".into() } else { "extra".into() };
            }
            let nseg = *r.pick(&[1u64, 1, 2, 2, 3, 4]);
            let gated = if exact { r.chance(4, 5) } else { r.chance(1, 5) };
            let by = r.range(1, 1000);
            let pad = if maxreq[cl] > 0 && r.chance(1, 14) { maxreq[cl] * 3 } else if r.chance(1, 4) { r.range(1, 100) } else { 0 };
            let rpad = if maxreply[cl] > 0 && r.chance(1, 14) { maxreply[cl] * 3 } else if r.chance(1, 4) { r.range(1, 60) } else { 0 };
            out.push(format!(
                "call {next_tag} cl={cl} m={m} nseg={nseg} gated={} by={by} pad={pad} rpad={rpad}",
                gated as u8
            ));
            bump(stats, &format!("method_{m}"));
            if nseg > 1 {
                bump(stats, "multi_segment_calls");
            }
            calls.push(GCall { tag: next_tag, gates_left: if gated { nseg as u32 - 1 } else { 0 }, aborted: false });
            if !exact && tr != "fin" && r.chance(1, 6) {
                // the caller stops polling this call for a while (its reply stays in its channel): other calls and
                // the server must not depend on it; it is resumed after the next quiescent point
                out.push("yield 1".into());
                out.push(format!("park {next_tag}"));
                parked.push(next_tag);
                bump(stats, "parked_calls");
            }
            next_tag += 1;
            settle(&mut out, r);
            if !parked.is_empty() && r.chance(1, 3) {
                out.push("settle".into());
                for t in parked.drain(..) {
                    out.push(format!("unpark {t}"));
                }
            }
        } else if choice < 75 && !open.is_empty() {
            let k = *r.pick(&open);
            calls[k].gates_left -= 1;
            out.push(format!("step {}", calls[k].tag));
            settle(&mut out, r);
        } else if choice < 92 && !abortable.is_empty() {
            let k = *r.pick(&abortable);
            calls[k].aborted = true;
            out.push(format!("abort {}", calls[k].tag));
            bump(stats, "aborts");
            settle(&mut out, r);
        } else if choice < 93 && !killed && remote.iter().any(|x| *x) {
            killed = true;
            out.push("kill".into());
            bump(stats, "kills");
            settle(&mut out, r);
        } else if !exact {
            out.push(format!("yield {}", r.range(1, 10)));
        }
    }
    // let everything run out: open the remaining gates
    out.push("settle".into());
    loop {
        let open: Vec<usize> = (0..calls.len()).filter(|&k| calls[k].gates_left > 0).collect();
        if open.is_empty() {
            break;
        }
        let k = if r.bool() { open[0] } else { *r.pick(&open) };
        calls[k].gates_left -= 1;
        out.push(format!("step {}", calls[k].tag));
        out.push("settle".into());
    }
    out.push("end".into());
    out
}
