//! Text form of `MultiplexMsg` shared with the Lean drivers (`Driver/WireText.lean`).

use remoc::chmux::verif_hooks::{ExchangedCfg, MultiplexMsg};

use crate::hex::nat_list;

fn b(x: bool) -> &'static str {
    if x { "1" } else { "0" }
}

pub fn cfg_text(cfg: &ExchangedCfg) -> String {
    let t = cfg.connection_timeout.unwrap_or_default().as_millis().min(u64::MAX as u128) as u64;
    format!("{} {} {} {}", t, cfg.chunk_size, cfg.port_receive_buffer, cfg.connect_queue)
}

pub fn msg_text(msg: &MultiplexMsg) -> String {
    match msg {
        MultiplexMsg::Reset => "reset".into(),
        MultiplexMsg::Hello { version, cfg } => format!("hello {} {}", version, cfg_text(cfg)),
        MultiplexMsg::Ping => "ping".into(),
        MultiplexMsg::OpenPort { client_port, wait, id } => format!(
            "openPort {} {} {}",
            client_port,
            b(*wait),
            match id {
                Some(id) => id.to_string(),
                None => "-".into(),
            }
        ),
        MultiplexMsg::PortOpened { client_port, server_port } => format!("portOpened {client_port} {server_port}"),
        MultiplexMsg::Rejected { client_port, no_ports } => format!("rejected {} {}", client_port, b(*no_ports)),
        MultiplexMsg::Data { port, first, last } => format!("data {} {} {}", port, b(*first), b(*last)),
        MultiplexMsg::PortData { port, first, last, wait, ports, ids } => format!(
            "portData {} {} {} {} {} {}",
            port,
            b(*first),
            b(*last),
            b(*wait),
            nat_list(ports),
            match ids {
                Some(ids) => nat_list(ids),
                None => "none".into(),
            }
        ),
        MultiplexMsg::PortCredits { port, credits } => format!("portCredits {port} {credits}"),
        MultiplexMsg::SendFinish { port } => format!("sendFinish {port}"),
        MultiplexMsg::ReceiveClose { port } => format!("receiveClose {port}"),
        MultiplexMsg::ReceiveFinish { port } => format!("receiveFinish {port}"),
        MultiplexMsg::ClientFinish => "clientFinish".into(),
        MultiplexMsg::ListenerFinish => "listenerFinish".into(),
        MultiplexMsg::Goodbye => "goodbye".into(),
    }
}

/// Result of the real decoder in the text form the model driver prints.
pub fn decode_text(data: &[u8]) -> String {
    match remoc::chmux::verif_hooks::decode(data) {
        Ok(msg) => msg_text(&msg),
        Err(err) => match err.kind() {
            std::io::ErrorKind::UnexpectedEof => "ERR eof".into(),
            std::io::ErrorKind::InvalidData => "ERR invalid".into(),
            other => format!("ERR other:{other:?}"),
        },
    }
}
