//! Text form of `MultiplexMsg` shared with the Lean drivers (`Driver/WireText.lean`).

use remoc::chmux::verif_hooks::{ExchangedCfg, MultiplexMsg};

use crate::hex::nat_list;

fn b(x: bool) -> &'static str {
    if x { "1" } else { "0" }
}

pub fn cfg_text(cfg: &ExchangedCfg) -> String {
    let t = cfg.connection_timeout.unwrap_or_default().as_millis().min(u64::MAX as u128) as u64;
    format!("{} {} {} {}", t, cfg.chunk_size, cfg.port_receive_buffer, cfg.connect_queue)
}

pub fn msg_text(msg: &MultiplexMsg) -> String {
    match msg {
        MultiplexMsg::Reset => "reset".into(),
        MultiplexMsg::Hello { version, cfg } => format!("hello {} {}", version, cfg_text(cfg)),
        MultiplexMsg::Ping => "ping".into(),
        MultiplexMsg::OpenPort { client_port, wait, id } => format!(
            "openPort {} {} {}",
            client_port,
            b(*wait),
            match id {
                Some(id) => id.to_string(),
                None => "-".into(),
            }
        ),
        MultiplexMsg::PortOpened { client_port, server_port } => format!("portOpened {client_port} {server_port}"),
        MultiplexMsg::Rejected { client_port, no_ports } => format!("rejected {} {}", client_port, b(*no_ports)),
        MultiplexMsg::Data { port, first, last } => format!("data {} {} {}", port, b(*first), b(*last)),
        MultiplexMsg::PortData { port, first, last, wait, ports, ids } => format!(
            "portData {} {} {} {} {} {}",
            port,
            b(*first),
            b(*last),
            b(*wait),
            nat_list(ports),
            match ids {
                Some(ids) => nat_list(ids),
                None => "none".into(),
            }
        ),
        MultiplexMsg::PortCredits { port, credits } => format!("portCredits {port} {credits}"),
        MultiplexMsg::SendFinish { port } => format!("sendFinish {port}"),
        MultiplexMsg::ReceiveClose { port } => format!("receiveClose {port}"),
        MultiplexMsg::ReceiveFinish { port } => format!("receiveFinish {port}"),
        MultiplexMsg::ClientFinish => "clientFinish".into(),
        MultiplexMsg::ListenerFinish => "listenerFinish".into(),
        MultiplexMsg::Goodbye => "goodbye".into(),
    }
}

/// Result of the real decoder in the text form the model driver prints.
pub fn decode_text(data: &[u8]) -> String {
    match remoc::chmux::verif_hooks::decode(data) {
        Ok(msg) => msg_text(&msg),
        Err(err) => match err.kind() {
            std::io::ErrorKind::UnexpectedEof => "ERR eof".into(),
            std::io::ErrorKind::InvalidData => "ERR invalid".into(),
            other => format!("ERR other:{other:?}"),
        },
    }
}

fn pb(s: &str) -> Option<bool> {
    match s {
        "1" => Some(true),
        "0" => Some(false),
        _ => None,
    }
}

fn plist(s: &str) -> Option<Vec<u32>> {
    if s == "-" { Some(Vec::new()) } else { s.split(',').map(|x| x.parse().ok()).collect() }
}

/// Inverse of `msg_text` (numbers must fit the Rust field types).
pub fn parse_msg(ws: &[&str]) -> Option<MultiplexMsg> {
    use std::time::Duration;
    Some(match ws {
        ["reset"] => MultiplexMsg::Reset,
        ["ping"] => MultiplexMsg::Ping,
        ["clientFinish"] => MultiplexMsg::ClientFinish,
        ["listenerFinish"] => MultiplexMsg::ListenerFinish,
        ["goodbye"] => MultiplexMsg::Goodbye,
        ["hello", v, t, c, b, q] => {
            let t: u64 = t.parse().ok()?;
            MultiplexMsg::Hello {
                version: v.parse().ok()?,
                cfg: ExchangedCfg {
                    connection_timeout: if t == 0 { None } else { Some(Duration::from_millis(t)) },
                    chunk_size: c.parse().ok()?,
                    port_receive_buffer: b.parse().ok()?,
                    connect_queue: q.parse().ok()?,
                },
            }
        }
        ["openPort", p, w, i] => MultiplexMsg::OpenPort {
            client_port: p.parse().ok()?,
            wait: pb(w)?,
            id: if *i == "-" { None } else { Some(i.parse().ok()?) },
        },
        ["portOpened", c, s] => MultiplexMsg::PortOpened { client_port: c.parse().ok()?, server_port: s.parse().ok()? },
        ["rejected", c, n] => MultiplexMsg::Rejected { client_port: c.parse().ok()?, no_ports: pb(n)? },
        ["data", p, f, l] => MultiplexMsg::Data { port: p.parse().ok()?, first: pb(f)?, last: pb(l)? },
        ["portData", p, f, l, w, ps, is] => MultiplexMsg::PortData {
            port: p.parse().ok()?,
            first: pb(f)?,
            last: pb(l)?,
            wait: pb(w)?,
            ports: plist(ps)?,
            ids: if *is == "none" { None } else { Some(plist(is)?) },
        },
        ["portCredits", p, c] => MultiplexMsg::PortCredits { port: p.parse().ok()?, credits: c.parse().ok()? },
        ["sendFinish", p] => MultiplexMsg::SendFinish { port: p.parse().ok()? },
        ["receiveClose", p] => MultiplexMsg::ReceiveClose { port: p.parse().ok()? },
        ["receiveFinish", p] => MultiplexMsg::ReceiveFinish { port: p.parse().ok()? },
        _ => return None,
    })
}
