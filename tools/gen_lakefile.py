#!/usr/bin/env python3
"""Regenerates lean/lakefile.toml: one lean_exe per Driver/*.lean that defines `main`."""
import os, re
V = os.path.dirname(os.path.dirname(os.path.abspath(__file__)))
D = os.path.join(V, "lean", "Driver")
exes = []
for f in sorted(os.listdir(D)):
    if f.endswith(".lean") and re.search(r"^def main\b", open(os.path.join(D, f)).read(), re.M):
        exes.append((f[:-5].lower(), "Driver." + f[:-5]))
out = 'name = "RemocModel"\nversion = "0.1.0"\ndefaultTargets = [%s]\n\n[[lean_lib]]\nname = "RemocModel"\nglobs = ["RemocModel.+"]\n\n[[lean_lib]]\nname = "Driver"\nglobs = ["Driver.+"]\n' % ", ".join('"%s"' % x for x in ["RemocModel"] + [e[0] for e in exes])
for name, root in exes:
    out += '\n[[lean_exe]]\nname = "%s"\nroot = "%s"\n' % (name, root)
open(os.path.join(V, "lean", "lakefile.toml"), "w").write(out)
print("exes:", [e[0] for e in exes])
