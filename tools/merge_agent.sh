#!/bin/bash
# usage: tools/merge_agent.sh <branch>  — merges an agent branch, regenerating the generated files
cd /verif
git merge --no-edit $1 >/tmp/merge.log 2>&1
for f in MANIFEST.json lean/lakefile.toml; do git checkout --ours $f 2>/dev/null; done
# evidence files are rewritten by runs: keep the incoming one if ours is absent
for f in $(git diff --name-only --diff-filter=U); do
  case $f in
    evidence/*) git checkout --theirs $f;;
    MANIFEST.json|lean/lakefile.toml) ;;
    known_findings.json) python3 - "$1" <<'PY'
import json,subprocess,sys
ours=json.loads(subprocess.check_output(['git','show','HEAD:known_findings.json']))
theirs=json.loads(subprocess.check_output(['git','show',sys.argv[1]+':known_findings.json']))
ids={f['id'] for f in ours['findings']}|{f['id'] for f in ours['fixed']}
for k in ('findings','fixed'):
    for f in theirs[k]:
        if f['id'] not in ids:
            ours[k].append(f)
json.dump(ours,open('known_findings.json','w'),indent=1)
PY
    ;;
    harness/src/lib.rs) sed -i "/^<<<<<<< /d;/^=======$/d;/^>>>>>>> /d" $f;;
    *) echo "UNRESOLVED $f";;
  esac
done
python3 tools/gen_lakefile.py && python3 tools/gen_manifest.py
git add -A
git diff --cached --name-only --diff-filter=U
git commit -q -m "Merge $1" && echo "merged $1"
