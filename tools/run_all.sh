#!/bin/bash
# usage: tools/run_all.sh [quick|thorough] [seed]   -- runs every claimed check once, prints one line each
cd "$(dirname "$0")/.."
tier=${1:-quick}; seed=${2:-1}
for P in $(python3 -c "import json;print(' '.join(c['property_id'] for c in json.load(open('MANIFEST.json'))['checks']))"); do
  out=$(VERIF_SEED=$seed ./check $P --tier $tier 2>&1); rc=$?
  echo "$P rc=$rc $(echo "$out" | grep -c '^VIOLATION') violations; $(echo "$out" | grep -c '^KNOWN-FINDING') known; $(echo "$out" | tail -1 | sed 's/.*obligations/obligations/')"
  echo "$out" | grep '^VIOLATION'
done
