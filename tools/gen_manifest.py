#!/usr/bin/env python3
"""Regenerates MANIFEST.json from the per-property plugins under vlib/props."""
import importlib, json, os, sys
V = os.path.dirname(os.path.dirname(os.path.abspath(__file__)))
sys.path.insert(0, V)
props = [json.loads(l)["id"] for l in open(os.path.join(V, "properties.jsonl"))]
PENDING = json.load(open(os.path.join(V, "tools", "not_claimed.json")))
checks, na = [], []
for pid in props:
    if os.path.exists(os.path.join(V, "vlib", "props", pid + ".py")):
        m = importlib.import_module("vlib.props." + pid)
        checks.append({
            "property_id": pid,
            "quick_cmd": "./check %s --tier quick" % pid,
            "thorough_cmd": "./check %s --tier thorough" % pid,
            "evidence_file": "/verif/evidence/%s.json" % pid,
            "replay_cmd_template": "./check %s --replay {path}" % pid,
            "engine": "lean-proof+correspondence",
            "level_claimed": {"category": "proof", "text": m.LEVEL_TEXT, "design_ref": m.DESIGN_REF},
            "level_note": m.LEVEL_NOTE,
            "technique": m.TECHNIQUE,
        })
    else:
        na.append({"property_id": pid, "reason": PENDING.get(pid, "no check built yet for this property")})
man = {
    "version": 1,
    "setup_cmd": "./setup.sh",
    "hooks": {
        "guard": "cargo feature `verif` of crate remoc (off by default)",
        "enable": "the harness depends on remoc with features = [\"verif\"] (harness/Cargo.toml); nothing else is needed",
        "baseline_off_cmd": "cd /repo && cargo test --workspace --no-fail-fast --offline",
        "source_commits": json.load(open(os.path.join(V, "tools", "hook_commits.json"))),
        "add_only": True,
    },
    "engines": [{
        "name": "lean-proof+correspondence",
        "path": "/verif/check",
        "serves_properties": [c["property_id"] for c in checks],
        "kind_free_text": "Lean 4 theorems about hand-written models (lean/RemocModel), tied to the code on every run by a Rust "
                          "harness driving the real crate and Lean model drivers replaying/evaluating its traces",
    }],
    "checks": checks,
    "not_applicable": na,
    "notes": "See DESIGN.md. known_findings.json lists genuine defects recorded (not repaired) and repaired ones (fixed:).",
}
json.dump(man, open(os.path.join(V, "MANIFEST.json"), "w"), indent=1)
print("claimed:", [c["property_id"] for c in checks])
