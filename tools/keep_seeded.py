#!/usr/bin/env python3
"""usage: keep_seeded.py <confirm-log> <P> <m> <checks_run text>
Copies /tmp/mut-<P>-out/<m>/{patch.diff,demo.rs,notes.md} to seeded/<P>-<m>/ with a meta.json, but only if the
confirmation log shows: demo ok without the patch, demo failing with it, suite passing with it."""
import json, os, re, shutil, sys
log, P, m, checks = sys.argv[1:5]
line = [l for l in open(log) if l.startswith("RESULT %s_%s " % (P, m))]
if not line:
    sys.exit("no confirmation result for %s %s" % (P, m))
line = line[-1]
mm = re.search(r"demo_without_patch=\[(.*?)\] demo_with_patch=\[(.*?)\] suite_with_patch=\[(.*)\]", line)
wo, wi, suite = mm.groups()
ok = ("test result: ok" in wo and " 0 failed" in wo and "FAILED" in wi and "FAILED" not in suite and "141 passed" in suite)
if not ok:
    sys.exit("NOT CONFIRMED %s %s: %s" % (P, m, line[:300]))
src = "/tmp/mut-%s-out/%s" % (P, m)
dst = os.path.join(os.path.dirname(os.path.dirname(os.path.abspath(__file__))), "seeded", "%s-%s" % (P, m))
os.makedirs(dst, exist_ok=True)
for f in ("patch.diff", "demo.rs", "notes.md"):
    shutil.copy(os.path.join(src, f), os.path.join(dst, f))
title = open(os.path.join(src, "notes.md")).readline().lstrip("# ").strip()
json.dump({"property": P, "title": title,
           "needs_to_manifest": "see notes.md (section on what is needed to make it manifest)",
           "source": "independent sub-agent given only the property text and a scratch worktree",
           "confirmed": "tools/confirm_mutant.sh in a scratch worktree of the current /repo HEAD: demo passes without the patch (%s), fails with it (%s); the full existing suite (141 tests + 20 doctests) passes with the patch" % (re.sub(r"; finished.*", "", wo), re.sub(r"; finished.*", "", wi)),
           "checks_run": checks}, open(os.path.join(dst, "meta.json"), "w"), indent=1)
print("kept", dst)
