#!/usr/bin/env python3
"""Prints the markdown table of DESIGN.md section 9.4 from seeded/*/meta.json."""
import json, os
V = os.path.dirname(os.path.dirname(os.path.abspath(__file__)))
rows = []
for d in sorted(os.listdir(os.path.join(V, "seeded"))):
    p = os.path.join(V, "seeded", d, "meta.json")
    if os.path.exists(p):
        m = json.load(open(p))
        title = m.get("title") or m.get("what") or m.get("description") or m.get("breaks") or ""
        rows.append((d, title.replace("|", "/"), (m.get("checks_run") or m.get("caught_by") or "").replace("|", "/")))
print("| seeded change | what it does | checks run against it |")
print("|---|---|---|")
for r in rows:
    print("| %s | %s | %s |" % r)
