#!/bin/bash
# usage: confirm_mutant.sh <scratch worktree of /repo> <dir with patch.diff and demo.rs> <name>
# Confirms: with the patch the crate builds, the existing suite passes and the demo fails;
# without the patch the demo passes.  Prints a summary line.
set -u
WT=$1; D=$2; N=$3
cd $WT || exit 2
git checkout -q -- . && git clean -fdq remoc/tests remoc/src >/dev/null 2>&1
cp $D/demo.rs remoc/tests/seeded_$N.rs
# the repository's tests live in one crate `tests` with modules; a separate file is its own test target
DEMO_CLEAN=$(cargo test --offline -p remoc --test seeded_$N 2>&1 | grep -E "^test result" | tail -1)
git apply $D/patch.diff || { echo "RESULT $N patch-does-not-apply"; exit 1; }
DEMO_MUT=$(cargo test --offline -p remoc --test seeded_$N 2>&1 | grep -E "^test result|error\[" | tail -1)
rm remoc/tests/seeded_$N.rs
SUITE=$(cargo test --workspace --no-fail-fast --offline 2>&1 | grep -E "^test result" | tr '\n' ' ')
git checkout -q -- . && git clean -fdq remoc/tests >/dev/null 2>&1
echo "RESULT $N demo_without_patch=[$DEMO_CLEAN] demo_with_patch=[$DEMO_MUT] suite_with_patch=[$SUITE]"
